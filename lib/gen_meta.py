"""C04 families: operand type x operator x handler presence; index/newindex
chains; __call in every call position; tostring/__metatable."""
import itertools, random
from luagen import Prog

OPERANDS = ["num", "nstr", "str", "plain", "tA", "tA2", "tB", "uA", "uB", "nil", "bool"]
ARITH = ["+", "-", "*", "/", "%", "^", ".."]
COMP = ["==", "~=", "<", "<=", ">", ">="]
EVENT = {"+": "__add", "-": "__sub", "*": "__mul", "/": "__div", "%": "__mod", "^": "__pow", "..": "__concat",
         "==": "__eq", "~=": "__eq", "<": "__lt", "<=": "__le", ">": "__lt", ">=": "__le"}
CONFIGS = ["none", "A", "B", "AB-same", "AB-diff", "AB-twin"]      # twin: two closures of one function literal
PROTS = ["", "", "", "str", "false", "decoy", "true"]               # value of __metatable in both metatables ("" = absent)


def _name(p, s):
    return p.add("str", s=list(s.encode()), name=True)


def _setup(p, events, config, retval, prot="", callable_kind=""):
    """handlers hA/hB emit their tag and operands and return retval; metatables mtA (tA, tA2, uA) and mtB (tB, uB).
    callable_kind: "" = the handlers are functions; "table"/"userdata" = objects whose __call runs the function
    (Lua 5.1 calls whatever non-nil value the event finds); "number" = a value that cannot be called (an error)"""
    def handler(tag):
        return p.func(["a", "b"], p.block([p.emit([p.str(tag) if isinstance(tag, str) else tag, p.id("a"), p.id("b"), p.call(p.id("select"), [p.str("#"), p.dots()])]),
                                           p.ret([retval(), p.str("second")])]), va=True, ud=True)
    if config == "AB-twin":
        # hA and hB are distinct closures of ONE function literal: different handlers all the same
        ss = [p.localfunction("mkh", p.func(["tag"], p.block([p.ret([handler(p.id("tag"))])]))),
              p.local(["hA", "hB"], [p.call(p.id("mkh"), [p.str("hA")]), p.call(p.id("mkh"), [p.str("hB")])])]
    else:
        ss = [p.local(["hA", "hB"], [handler("hA"), handler("hB")])]
    if callable_kind in ("table", "userdata"):
        # wrapc(f): an object that is not a function but can be called; its own first argument (itself) is dropped
        mk = p.call(p.id("setmetatable"), [p.table([]), p.table([("k", _name(p, "__call"), p.id("fwd"))])]) if callable_kind == "table" else None
        if callable_kind == "table":
            body = [p.local(["fwd"], [p.func(["self"], p.block([p.ret([p.call(p.id("f"), [p.dots()])])]), va=True, ud=True)]), p.ret([mk])]
        else:
            body = [p.local(["u"], [p.call(p.id("newproxy"), [p.true()])]),
                    p.assign([p.field(p.call(p.id("getmetatable"), [p.id("u")]), "__call")], [p.func(["self"], p.block([p.ret([p.call(p.id("f"), [p.dots()])])]), va=True, ud=True)]),
                    p.ret([p.id("u")])]
        ss.append(p.localfunction("wrapc", p.func(["f"], p.block(body))))
        ss.append(p.assign([p.id("hA"), p.id("hB")], [p.call(p.id("wrapc"), [p.id("hA")]), p.call(p.id("wrapc"), [p.id("hB")])]))
    elif callable_kind == "number":
        ss.append(p.assign([p.id("hA"), p.id("hB")], [p.num(5), p.num(5)]))
    ss += [
          p.local(["mtA", "mtB"], [p.table([]), p.table([])]),
          p.local(["tA", "tA2", "tB", "plain"], [p.call(p.id("setmetatable"), [p.table([]), p.id("mtA")]),
                                                  p.call(p.id("setmetatable"), [p.table([]), p.id("mtA")]),
                                                  p.call(p.id("setmetatable"), [p.table([]), p.id("mtB")]), p.table([])]),
          p.local(["uA", "uB"], [p.call(p.id("newproxy"), [p.true()]), p.call(p.id("newproxy"), [p.true()])]),
          p.emit([p.id("tA"), p.id("tA2"), p.id("tB"), p.id("plain"), p.id("uA"), p.id("uB")])]
    for ev in events:
        a = {"none": None, "A": "hA", "B": None, "AB-same": "hA", "AB-diff": "hA", "AB-twin": "hA"}[config]
        b = {"none": None, "A": None, "B": "hB", "AB-same": "hA", "AB-diff": "hB", "AB-twin": "hB"}[config]
        if a:
            ss.append(p.assign([p.field(p.id("mtA"), ev)], [p.id(a)]))
            ss.append(p.assign([p.field(p.call(p.id("getmetatable"), [p.id("uA")]), ev)], [p.id(a)]))
        if b:
            ss.append(p.assign([p.field(p.id("mtB"), ev)], [p.id(b)]))
            ss.append(p.assign([p.field(p.call(p.id("getmetatable"), [p.id("uB")]), ev)], [p.id(b)]))
    if prot:
        # protected metatables: __metatable only changes what getmetatable/setmetatable see, never which handler an event finds
        pv = {"str": lambda: p.str("locked"), "false": lambda: p.false(), "true": lambda: p.true(),
              "decoy": lambda: p.table([("k", _name(p, ev), handler("decoy")) for ev in events])}[prot]
        ss.append(p.local(["umA", "umB"], [p.call(p.id("getmetatable"), [p.id("uA")]), p.call(p.id("getmetatable"), [p.id("uB")])]))
        for m in ("mtA", "mtB", "umA", "umB"):
            ss.append(p.assign([p.field(p.id(m), "__metatable")], [pv()]))
        ss.append(p.emit([p.str("prot"), p.call(p.id("getmetatable"), [p.id("tA")]), p.call(p.id("getmetatable"), [p.id("uB")]),
                          p.call(p.id("pcall"), [p.id("setmetatable"), p.id("tB"), p.table([])])]))
    return ss


def _operand(p, kind):
    return {"num": lambda: p.num(5), "nstr": lambda: p.str("7"), "str": lambda: p.str("s"), "plain": lambda: p.id("plain"),
            "tA": lambda: p.id("tA"), "tA2": lambda: p.id("tA2"), "tB": lambda: p.id("tB"), "uA": lambda: p.id("uA"),
            "uB": lambda: p.id("uB"), "nil": lambda: p.nil(), "bool": lambda: p.true()}[kind]()


def binop_case(op, l, r, config, retkind, prot="", callable_kind=""):
    p = Prog()
    retval = {"str": lambda: p.str("R"), "nil": lambda: p.nil(), "false": lambda: p.false(), "zero": lambda: p.num(0), "tab": lambda: p.table([])}[retkind]
    ss = _setup(p, [EVENT[op]] + (["__lt"] if op in ("<=", ">=") and retkind == "zero" else []), config, retval, prot, callable_kind)
    body = p.block([p.ret([p.bin(op, _operand(p, l), _operand(p, r))])])
    ss.append(p.emit([p.str("result"), p.call(p.id("pcall"), [p.func([], body)])]))
    # the same with operands in registers (locals) instead of upvalues/constants
    ss.append(p.local(["x", "y"], [_operand(p, l), _operand(p, r)]))
    ss.append(p.emit([p.str("result2"), p.call(p.id("pcall"), [p.func([], p.block([p.local(["z"], [p.bin(op, p.id("x"), p.id("y"))]), p.ret([p.id("z")])]))])]))
    return p, p.block(ss)


def le_fallback_case(l, r, retkind):
    """__le absent, __lt present: a <= b is not (b < a)"""
    p = Prog()
    retval = {"true": lambda: p.true(), "false": lambda: p.false(), "nil": lambda: p.nil(), "zero": lambda: p.num(0)}[retkind]
    ss = _setup(p, ["__lt"], "AB-same", retval)
    for op in ("<=", ">=", "<", ">"):
        ss.append(p.emit([p.str(op), p.call(p.id("pcall"), [p.func([], p.block([p.ret([p.bin(op, _operand(p, l), _operand(p, r))])]))])]))
    return p, p.block(ss)


def unm_case(o, config, prot="", callable_kind=""):
    p = Prog()
    ss = _setup(p, ["__unm"], config, lambda: p.str("neg"), prot, callable_kind)
    ss.append(p.emit([p.str("result"), p.call(p.id("pcall"), [p.func([], p.block([p.ret([p.un("-", _operand(p, o))])]))])]))
    return p, p.block(ss)


STR_EVENTS = ["__add", "__sub", "__mul", "__div", "__mod", "__pow", "__unm", "__concat", "__lt", "__le", "__eq", "__index", "__call", "__len"]


def strmeta_case(ev, hkind="function"):
    """a handler installed in the string metatable: Lua 5.1 tries the built-in meaning first (numeric strings are
    numbers in arithmetic, strings concatenate/compare/have a length by themselves) and only then looks for a handler"""
    p = Prog()
    h = p.func(["a", "b"], p.block([p.emit([p.str("h"), p.id("a"), p.id("b"), p.call(p.id("select"), [p.str("#"), p.dots()])]), p.ret([p.str("R"), p.str("second")])]), va=True, ud=True)
    ss = [p.local(["smt"], [p.call(p.id("getmetatable"), [p.str("")])]), p.local(["h"], [h]), p.local(["plain"], [p.table([])]),
          p.emit([p.str("before"), p.call(p.id("type"), [p.id("smt")]), p.call(p.id("rawequal"), [p.field(p.id("smt"), "__index"), p.id("string")])])]
    if hkind == "callable":
        ss.append(p.local(["hf"], [p.id("h")]))
        ss.append(p.assign([p.id("h")], [p.call(p.id("setmetatable"), [p.table([]), p.table([("k", _name(p, "__call"), p.func(["self"], p.block([p.ret([p.call(p.id("hf"), [p.dots()])])]), va=True, ud=True))])])]))
    ss.append(p.assign([p.field(p.id("smt"), ev)], [p.id("h")]))
    ss.append(p.local(["n1", "n2", "w1", "w2", "k"], [p.str("10"), p.str(" 0x10 "), p.str("abc"), p.str("zz"), p.num(3)]))
    def probe(tag, e):
        ss.append(p.emit([p.str(tag), p.call(p.id("pcall"), [p.func([], p.block([p.ret([e])]))])]))
    V = {"n1": lambda: p.id("n1"), "n2": lambda: p.id("n2"), "w1": lambda: p.id("w1"), "w2": lambda: p.id("w2"), "k": lambda: p.id("k"),
         "lit": lambda: p.str("7"), "wlit": lambda: p.str("w"), "plain": lambda: p.id("plain"), "num": lambda: p.num(2)}
    if ev in ("__add", "__sub", "__mul", "__div", "__mod", "__pow"):
        op = {v: k for k, v in EVENT.items() if k in ARITH}[ev]
        for l, r in [("n1", "k"), ("k", "n1"), ("n1", "n2"), ("lit", "num"), ("w1", "k"), ("k", "w1"), ("w1", "w2"), ("n1", "w1"), ("wlit", "lit"), ("w1", "plain"), ("plain", "n1")]:
            probe("%s %s %s" % (l, op, r), p.bin(op, V[l](), V[r]()))
    elif ev == "__unm":
        for o in ("n1", "n2", "lit", "w1", "wlit", "k"):
            probe("-" + o, p.un("-", V[o]()))
    elif ev == "__concat":
        for l, r in [("w1", "w2"), ("w1", "k"), ("k", "w1"), ("w1", "plain"), ("plain", "w1"), ("k", "plain"), ("wlit", "lit")]:
            probe("%s .. %s" % (l, r), p.bin("..", V[l](), V[r]()))
    elif ev in ("__lt", "__le", "__eq"):
        for op in (["<", ">"] if ev == "__lt" else ["<=", ">="] if ev == "__le" else ["==", "~="]):
            for l, r in [("w1", "w2"), ("w1", "w1"), ("n1", "k"), ("k", "n1"), ("w1", "plain"), ("n1", "lit")]:
                probe("%s %s %s" % (l, op, r), p.bin(op, V[l](), V[r]()))
    elif ev == "__index":
        probe("w1.len", p.field(p.id("w1"), "len"))
        probe("w1[1]", p.index(p.id("w1"), p.num(1)))
        probe("w1:upper()", p.method(p.id("w1"), "upper", []))
        probe("lit.x", p.field(p.paren(p.str("lit")), "x"))
    elif ev == "__call":
        probe("w1(1,2)", p.call(p.id("w1"), [p.num(1), p.num(2)]))
        probe("('lit')()", p.call(p.paren(p.str("lit")), []))
        probe("w1:len()", p.method(p.id("w1"), "len", []))
    elif ev == "__len":
        probe("#w1", p.un("#", p.id("w1")))
        probe("#lit", p.un("#", p.str("lit")))
    ss.append(p.emit([p.str("after"), p.call(p.id("rawequal"), [p.call(p.id("getmetatable"), [p.str("x")]), p.id("smt")])]))
    return p, p.block(ss)


INHERIT_EVENTS = ["__add", "__concat", "__unm", "__eq", "__lt", "__le", "__index", "__newindex", "__call", "__tostring", "__metatable"]


def inherit_case(ev):
    """handlers are fetched RAW from the metatable: an event that only the metatable's own __index chain could supply
    (the usual class hierarchy: Derived = setmetatable({}, {__index = Base}), obj = setmetatable({}, Derived), the event
    defined on Base) does not exist for obj; defined raw in Derived it does"""
    p = Prog()
    h = p.func(["a", "b"], p.block([p.emit([p.str("h"), p.call(p.id("type"), [p.id("a")]), p.call(p.id("type"), [p.id("b")])]), p.ret([p.str("R")])]))
    ss = [p.local(["Base"], [p.table([("k", _name(p, ev), p.str("locked") if ev == "__metatable" else h), ("k", _name(p, "plainfield"), p.str("inherited"))])]),
          p.local(["Derived"], [p.call(p.id("setmetatable"), [p.table([]), p.table([("k", _name(p, "__index"), p.id("Base"))])])]),
          p.local(["obj", "obj2"], [p.call(p.id("setmetatable"), [p.table([]), p.id("Derived")]), p.call(p.id("setmetatable"), [p.table([]), p.id("Derived")])]),
          p.emit([p.str("reads"), p.call(p.id("type"), [p.field(p.id("Derived"), ev)]), p.call(p.id("type"), [p.call(p.id("rawget"), [p.id("Derived"), p.str(ev)])]), p.field(p.id("Derived"), "plainfield")])]
    def probes(tag):
        def probe(name, e):
            ss.append(p.emit([p.str(tag + " " + name), p.call(p.id("select"), [p.num(1), p.call(p.id("pcall"), [p.func([], p.block([p.ret([e])]))])])]))
        if ev == "__add":
            probe("obj+1", p.bin("+", p.id("obj"), p.num(1))); probe("1+obj", p.bin("+", p.num(1), p.id("obj")))
        elif ev == "__concat":
            probe("obj..'x'", p.bin("..", p.id("obj"), p.str("x")))
        elif ev == "__unm":
            probe("-obj", p.un("-", p.id("obj")))
        elif ev == "__eq":
            probe("obj==obj2", p.bin("==", p.id("obj"), p.id("obj2"))); probe("obj~=obj2", p.bin("~=", p.id("obj"), p.id("obj2")))
        elif ev == "__lt":
            probe("obj<obj2", p.bin("<", p.id("obj"), p.id("obj2"))); probe("obj>=obj2", p.bin(">=", p.id("obj"), p.id("obj2")))
        elif ev == "__le":
            probe("obj<=obj2", p.bin("<=", p.id("obj"), p.id("obj2")))
        elif ev == "__index":
            probe("obj.missing", p.field(p.id("obj"), "missing"))
        elif ev == "__newindex":
            ss.append(p.emit([p.str(tag + " store"), p.call(p.id("pcall"), [p.func([], p.block([p.assign([p.field(p.id("obj"), "fresh" + tag)], [p.num(1)])]))]), p.call(p.id("rawget"), [p.id("obj"), p.str("fresh" + tag)])]))
        elif ev == "__call":
            probe("obj(1)", p.call(p.id("obj"), [p.num(1)]))
        elif ev == "__tostring":
            ss.append(p.emit([p.str(tag + " tostring"), p.bin("==", p.call(p.id("tostring"), [p.id("obj")]), p.str("R"))]))
        elif ev == "__metatable":
            ss.append(p.emit([p.str(tag + " getmetatable"), p.bin("==", p.call(p.id("getmetatable"), [p.id("obj")]), p.id("Derived")), p.call(p.id("select"), [p.num(1), p.call(p.id("pcall"), [p.id("setmetatable"), p.id("obj2"), p.id("Derived")])])]))
    probes("inherited")
    # now the event is defined raw in Derived: it exists
    ss.append(p.assign([p.index(p.id("Derived"), p.str(ev))], [p.field(p.id("Base"), ev)]))
    probes("own")
    return p, p.block(ss)


def index_case(rng):
    """__index / __newindex chains through tables and functions; raw access bypasses"""
    p = Prog()
    depth = rng.randint(1, 4)
    ss = [p.local(["log"], [p.func(["tag"], p.block([p.ret([p.func(["t", "k", "v"], p.block([p.emit([p.id("tag"), p.id("t"), p.id("k"), p.id("v")]), p.ret([p.bin("..", p.str("from-"), p.id("tag"))])]))])]))])]
    names = []
    for i in range(depth + 1):
        nm = "c%d" % i
        names.append(nm)
        items = []
        if rng.random() < 0.6:
            items.append(("k", _name(p, "k%d" % i), rng.choice([lambda: p.str("v%d" % i), lambda: p.false(), lambda: p.num(0), lambda: p.str("")])()))
        if rng.random() < 0.3:
            items.append(("k", _name(p, "shared"), p.str("shared%d" % i)))
        ss.append(p.local([nm], [p.table(items)]))
    ss.append(p.emit([p.id(n) for n in names]))      # fixes the identity of every link before a handler reports its self
    for i in range(depth):
        kind = rng.choice(["table", "table", "function", "both"])
        mt = []
        if kind in ("table", "both"):
            mt.append(("k", _name(p, "__index"), p.id(names[i + 1])))
        else:
            mt.append(("k", _name(p, "__index"), p.call(p.id("log"), [p.str("idx%d" % i)])))
        nk = rng.choice(["none", "function", "table"])
        if nk == "function":
            mt.append(("k", _name(p, "__newindex"), p.call(p.id("log"), [p.str("new%d" % i)])))
        elif nk == "table":
            mt.append(("k", _name(p, "__newindex"), p.id(names[i + 1])))
        ss.append(p.callstat(p.call(p.id("setmetatable"), [p.id(names[i]), p.table(mt)])))
    keys = ["k%d" % i for i in range(depth + 1)] + ["shared", "absent"]
    for _ in range(rng.randint(4, 8)):
        k = rng.choice(keys)
        r = rng.random()
        if r < 0.35:
            ss.append(p.emit([p.str("get"), p.str(k), p.field(p.id("c0"), k), p.call(p.id("rawget"), [p.id("c0"), p.str(k)])]))
        elif r < 0.6:
            val = rng.choice([lambda: p.str("w-" + k), lambda: p.false(), lambda: p.nil(), lambda: p.num(0), lambda: p.true()])()
            if rng.random() < 0.5:
                ss.append(p.assign([p.field(p.id("c0"), k)], [val]))                    # constant string key
            else:
                ss.append(p.local(["kv"], [p.str(k)]))
                ss.append(p.assign([p.index(p.id("c0"), p.id("kv"))], [val]))           # key in a register
            ss.append(p.emit([p.str("after-set"), p.str(k)] + [p.call(p.id("rawget"), [p.id(n), p.str(k)]) for n in names]))
        elif r < 0.75:
            if rng.random() < 0.5:
                ss.append(p.callstat(p.call(p.id("rawset"), [p.id("c0"), p.str(k), p.str("raw-" + k)])))
            else:        # rawset returns its table
                ss.append(p.emit([p.str("rawset"), p.call(p.id("rawset"), [p.id("c0"), p.str(k), p.str("raw-" + k)])]))
            ss.append(p.emit([p.str("after-rawset"), p.field(p.id("c0"), k)]))
        elif r < 0.9:
            ss.append(p.emit([p.str("method"), p.call(p.id("pcall"), [p.func([], p.block([p.ret([p.method(p.id("c0"), k, [p.num(1)])])]))])]))
        else:
            ss.append(p.emit([p.str("idx-nonTable"), p.call(p.id("pcall"), [p.func([], p.block([p.ret([p.field(p.paren(p.num(5)), k)])]))])]))
    return p, p.block(ss)


def call_case(pos, nargs, handler_kind):
    """__call in call / tail call / for-in iterator / method / host re-entry position"""
    p = Prog()
    hbody = p.block([p.emit([p.str("called"), p.bin("==", p.id("self"), p.id("obj")), p.call(p.id("select"), [p.str("#"), p.dots()]), p.dots()]),
                     p.assign([p.id("cnt")], [p.bin("+", p.id("cnt"), p.num(1))]),
                     p.if_([p.bin(">", p.id("cnt"), p.num(3))], [p.block([p.ret([p.nil()])])]),
                     p.ret([p.id("cnt"), p.str("r2")])])
    ss = [p.local(["cnt", "obj"], [p.num(0), p.table([])])]
    if handler_kind.startswith("builtin:"):
        h = p.id(handler_kind.split(":")[1])          # a host function as __call handler (receives the object first)
    elif handler_kind == "function":
        h = p.func(["self"], hbody, va=True, ud=True)
    elif handler_kind == "nonfunction":
        h = p.table([])
    else:
        h = p.nil()
    ss.append(p.callstat(p.call(p.id("setmetatable"), [p.id("obj"), p.table([("k", _name(p, "__call"), h)])])))
    args = lambda: [p.num(10 + i) for i in range(nargs)]
    if pos == "call":
        body = [p.ret([p.num(0), p.call(p.id("obj"), args())])]
    elif pos == "tail":
        body = [p.ret([p.call(p.id("obj"), args())])]
    elif pos == "stat":
        body = [p.callstat(p.call(p.id("obj"), args())), p.ret([p.id("cnt")])]
    elif pos == "forin":
        body = [p.forin(["a", "b"], [p.id("obj")] + args()[:2], p.block([p.emit([p.str("iter"), p.id("a"), p.id("b")])])), p.ret([p.id("cnt")])]
    elif pos == "gcall":
        body = [p.ret([p.call(p.id("gcall"), [p.id("obj")] + args())])]
    elif pos == "pcall":
        body = [p.ret([p.call(p.id("pcall"), [p.id("obj")] + args())])]
    elif pos == "nested":
        body = [p.ret([p.call(p.id("obj"), [p.call(p.id("obj"), args())])])]
    ss.append(p.emit([p.str("result"), p.call(p.id("pcall"), [p.func([], p.block(body))])]))
    return p, p.block(ss)


def misc_cases():
    out = []

    def mk(build):
        p = Prog()
        out.append((p, p.block(build(p))))

    def tostr(p):
        return [p.local(["t"], [p.call(p.id("setmetatable"), [p.table([]), p.table([("k", _name(p, "__tostring"),
                    p.func(["self"], p.block([p.emit([p.str("ts"), p.bin("==", p.id("self"), p.id("t0"))]), p.ret([p.str("custom"), p.num(2)])])))])])]),
                p.assign([p.id("t0")], [p.id("t")]),
                p.emit([p.call(p.id("tostring"), [p.id("t")])]),
                p.emit([p.call(p.id("tostring"), [p.num(5)]), p.call(p.id("tostring"), [p.nil()]), p.call(p.id("tostring"), [p.true()]), p.call(p.id("tostring"), [p.str("s")])])]
    mk(tostr)

    def tostr_kinds(p):
        """__tostring handlers that are callable objects, that return non-strings, and one in the string metatable"""
        hf = lambda tag, rv: p.func(["self"], p.block([p.emit([p.str(tag), p.call(p.id("type"), [p.id("self")]), p.call(p.id("select"), [p.str("#"), p.dots()])]), p.ret([rv])]), va=True, ud=True)
        return [p.local(["cobj"], [p.call(p.id("setmetatable"), [p.table([]), p.table([("k", _name(p, "__call"), p.func(["me"], p.block([p.emit([p.str("via __call"), p.call(p.id("select"), [p.str("#"), p.dots()])]), p.ret([p.str("from-callable")])]), va=True, ud=True))])])]),
                p.local(["t1"], [p.call(p.id("setmetatable"), [p.table([]), p.table([("k", _name(p, "__tostring"), p.id("cobj"))])])]),
                p.emit([p.str("callable"), p.call(p.id("pcall"), [p.id("tostring"), p.id("t1")])]),
                p.local(["t2"], [p.call(p.id("setmetatable"), [p.table([]), p.table([("k", _name(p, "__tostring"), hf("h2", p.num(42)))])])]),
                p.emit([p.str("number result"), p.call(p.id("pcall"), [p.id("tostring"), p.id("t2")])]),
                p.local(["t3"], [p.call(p.id("setmetatable"), [p.table([]), p.table([("k", _name(p, "__tostring"), hf("h3", p.nil()))])])]),
                p.emit([p.str("nil result"), p.call(p.id("pcall"), [p.id("tostring"), p.id("t3")])]),
                p.local(["t4"], [p.call(p.id("setmetatable"), [p.table([]), p.table([("k", _name(p, "__tostring"), p.num(7))])])]),
                p.emit([p.str("uncallable"), p.call(p.id("select"), [p.num(1), p.call(p.id("pcall"), [p.id("tostring"), p.id("t4")])])]),
                p.assign([p.field(p.call(p.id("getmetatable"), [p.str("")]), "__tostring")], [hf("hs", p.str("S!"))]),
                p.emit([p.str("string"), p.call(p.id("tostring"), [p.str("abc")]), p.call(p.id("tostring"), [p.num(5)])])]
    mk(tostr_kinds)

    def protected(p):
        return [p.local(["t"], [p.call(p.id("setmetatable"), [p.table([]), p.table([("k", _name(p, "__metatable"), p.str("locked")),
                                                                                ("k", _name(p, "__index"), p.table([("k", _name(p, "z"), p.num(9))]))])])]),
                p.emit([p.call(p.id("getmetatable"), [p.id("t")]), p.field(p.id("t"), "z")]),
                p.emit([p.call(p.id("pcall"), [p.id("setmetatable"), p.id("t"), p.table([])])]),
                p.emit([p.field(p.id("t"), "z")]),
                p.local(["u"], [p.call(p.id("setmetatable"), [p.table([]), p.table([])])]),
                p.emit([p.call(p.id("type"), [p.call(p.id("getmetatable"), [p.id("u")])]),
                        p.bin("==", p.call(p.id("setmetatable"), [p.id("u"), p.nil()]), p.id("u")), p.call(p.id("getmetatable"), [p.id("u")])]),
                p.emit([p.call(p.id("getmetatable"), [p.num(1)]), p.call(p.id("type"), [p.call(p.id("getmetatable"), [p.str("s")])]),
                        p.bin("==", p.field(p.call(p.id("getmetatable"), [p.str("s")]), "__index"), p.id("string"))]),
                p.emit([p.call(p.id("pcall"), [p.id("setmetatable"), p.num(1), p.table([])]), ])]
    mk(protected)

    def rawbypass(p):
        h = lambda tag: p.func([], p.block([p.emit([p.str(tag)]), p.ret([p.true()])]), va=True, ud=True)
        return [p.local(["mt"], [p.table([("k", _name(p, "__index"), h("index")), ("k", _name(p, "__newindex"), h("newindex")), ("k", _name(p, "__eq"), h("eq"))])]),
                p.local(["a", "b"], [p.call(p.id("setmetatable"), [p.table([]), p.id("mt")]), p.call(p.id("setmetatable"), [p.table([]), p.id("mt")])]),
                p.emit([p.call(p.id("rawget"), [p.id("a"), p.str("k")]), p.call(p.id("rawequal"), [p.id("a"), p.id("b")]), p.call(p.id("rawequal"), [p.id("a"), p.id("a")])]),
                p.callstat(p.call(p.id("rawset"), [p.id("a"), p.str("k"), p.num(1)])),
                p.emit([p.field(p.id("a"), "k"), p.bin("==", p.id("a"), p.id("b")), p.bin("~=", p.id("a"), p.id("b")), p.bin("==", p.id("a"), p.id("a"))]),
                p.assign([p.field(p.id("a"), "k")], [p.num(2)]),     # present key: __newindex not consulted
                p.assign([p.field(p.id("a"), "j")], [p.num(3)]),     # absent key: __newindex consulted
                p.emit([p.call(p.id("rawget"), [p.id("a"), p.str("k")]), p.call(p.id("rawget"), [p.id("a"), p.str("j")])])]
    mk(rawbypass)

    for kind in ("absent", "false", "true", "zero", "emptystr", "str", "table", "func", "nil-explicit"):
        def metafield(p, kind=kind):
            val = {"absent": None, "false": p.false, "true": p.true, "zero": lambda: p.num(0), "emptystr": lambda: p.str(""), "str": lambda: p.str("locked"),
                   "table": lambda: p.table([("k", _name(p, "decoy"), p.num(1))]), "func": lambda: p.func([], p.block([])), "nil-explicit": p.nil}[kind]
            items = [("k", _name(p, "__index"), p.table([("k", _name(p, "z"), p.num(9))]))]
            if val:
                items.append(("k", _name(p, "__metatable"), val()))
            return [p.local(["mt"], [p.table(items)]),
                    p.local(["t", "u"], [p.call(p.id("setmetatable"), [p.table([]), p.id("mt")]), p.call(p.id("newproxy"), [p.true()])]),
                    p.emit([p.id("mt"), p.id("t")]),
                    p.emit([p.str("get"), p.call(p.id("getmetatable"), [p.id("t")]), p.bin("==", p.call(p.id("getmetatable"), [p.id("t")]), p.id("mt")), p.field(p.id("t"), "z")]),
                    p.emit([p.str("set"), p.call(p.id("pcall"), [p.id("setmetatable"), p.id("t"), p.table([])])]),
                    p.emit([p.str("set-nil"), p.call(p.id("pcall"), [p.id("setmetatable"), p.id("t"), p.nil()])]),
                    p.emit([p.str("after"), p.call(p.id("getmetatable"), [p.id("t")]), p.field(p.id("t"), "z")])] + \
                   ([p.assign([p.field(p.call(p.id("getmetatable"), [p.id("u")]), "__metatable")], [val()]),
                     p.emit([p.str("ud"), p.call(p.id("getmetatable"), [p.id("u")])])] if val else [])
        mk(metafield)

    def concat_chain(p):
        h = p.func(["a", "b"], p.block([p.emit([p.str("cc"), p.call(p.id("type"), [p.id("a")]), p.call(p.id("type"), [p.id("b")]),
                                                 p.or_(p.and_(p.bin("==", p.call(p.id("type"), [p.id("a")]), p.str("string")), p.id("a")), p.str("-")),
                                                 p.or_(p.and_(p.bin("==", p.call(p.id("type"), [p.id("b")]), p.str("string")), p.id("b")), p.str("-"))]),
                                        p.ret([p.str("<c>")])]))
        return [p.local(["o"], [p.call(p.id("setmetatable"), [p.table([]), p.table([("k", _name(p, "__concat"), h)])])]),
                p.emit([p.bin("..", p.str("a"), p.bin("..", p.id("o"), p.str("b")))]),
                p.emit([p.bin("..", p.id("o"), p.bin("..", p.num(1), p.bin("..", p.str("x"), p.id("o"))))]),
                p.emit([p.bin("..", p.bin("..", p.str("a"), p.id("o")), p.str("b"))]),
                p.emit([p.bin("..", p.num(1), p.id("o"))])]
    mk(concat_chain)

    def handler_in_handler(p):
        inner = p.func(["t", "k"], p.block([p.emit([p.str("inner-index"), p.id("k")]), p.ret([p.num(3)])]))
        outer = p.func(["a", "b"], p.block([p.emit([p.str("add")]), p.ret([p.bin("+", p.field(p.id("a"), "val"), p.num(1))])]))
        return [p.local(["o"], [p.call(p.id("setmetatable"), [p.table([]), p.table([("k", _name(p, "__index"), inner), ("k", _name(p, "__add"), outer)])])]),
                p.emit([p.bin("+", p.id("o"), p.num(1)), p.bin("+", p.num(1), p.id("o"))])]
    mk(handler_in_handler)
    return out


def gen_binops(rng, n):
    space = [(op, l, r, c, rk) for op in ARITH + COMP for l in OPERANDS for r in OPERANDS for c in CONFIGS
             for rk in (["str", "nil", "tab"] if op in ARITH else ["str", "nil", "false", "zero"])
             if l in ("tA", "tA2", "tB", "uA", "uB", "plain") or r in ("tA", "tA2", "tB", "uA", "uB", "plain")]
    rng.shuffle(space)
    return [binop_case(*s, prot=rng.choice(PROTS)) for s in space[:n]], len(space) * 5


def chain_limit_cases():
    """__index / __newindex chains of tables around the bound of 100 links (MAXTAGLOOP): beyond it the access is an error,
    up to it the chain is followed to the end; constant and computed keys, reads and writes"""
    out = []
    for n in (1, 50, 97, 98, 99, 100, 101, 102, 150):
        p = Prog()
        mk = lambda ev, start: [p.local(["c"], [p.id(start)]),
                                p.fornum("i", p.num(1), p.num(n), 0, p.block([p.assign([p.id("c")], [p.call(p.id("setmetatable"), [p.table([]), p.table([("k", _name(p, ev), p.id("c"))])])])]))]
        ss = [p.local(["base"], [p.table([("k", _name(p, "deep"), p.str("found")), ("p", p.str("one"))])])]
        ss.append(p.do(p.block(mk("__index", "base") + [
            p.emit([p.str("const"), p.num(n), p.call(p.id("pcall"), [p.func([], p.block([p.ret([p.field(p.id("c"), "deep")])]))])]),
            p.local(["k", "k1"], [p.str("deep"), p.num(1)]),
            p.emit([p.str("dyn"), p.call(p.id("pcall"), [p.func([], p.block([p.ret([p.index(p.id("c"), p.id("k"))])]))])]),
            p.emit([p.str("num"), p.call(p.id("pcall"), [p.func([], p.block([p.ret([p.index(p.id("c"), p.id("k1"))])]))])]),
            p.emit([p.str("absent"), p.call(p.id("pcall"), [p.func([], p.block([p.ret([p.field(p.id("c"), "nothing")])]))])]),
            p.emit([p.str("method"), p.call(p.id("pcall"), [p.func([], p.block([p.ret([p.method(p.id("c"), "deep", [])])]))])])])))
        ss.append(p.local(["sink"], [p.table([])]))
        ss.append(p.do(p.block(mk("__newindex", "sink") + [
            p.emit([p.str("set-const"), p.call(p.id("pcall"), [p.func([], p.block([p.assign([p.field(p.id("c"), "x")], [p.num(1)])]))]), p.call(p.id("rawget"), [p.id("sink"), p.str("x")])]),
            p.local(["kk"], [p.str("y")]),
            p.emit([p.str("set-dyn"), p.call(p.id("pcall"), [p.func([], p.block([p.assign([p.index(p.id("c"), p.id("kk"))], [p.num(2)])]))]), p.call(p.id("rawget"), [p.id("sink"), p.str("y")])]),
            p.emit([p.str("set-num"), p.call(p.id("pcall"), [p.func([], p.block([p.assign([p.index(p.id("c"), p.num(7))], [p.num(3)])]))]), p.call(p.id("rawget"), [p.id("sink"), p.num(7)])])])))
        out.append((p, p.block(ss)))
    return out
