"""Shape-directed program families (DESIGN Appendix B): the products the
compiler special-cases.  Each function returns a list of (Prog, root) pairs."""
import itertools, random
from luagen import Prog


def _prelude(p):
    """locals a,b,c; globals ga,gb,gc; table t; function f (3 results);
    upvalue holders ua, ub captured by getter/setter closures."""
    f_body = p.block([p.ret([p.num(100), p.num(200), p.num(300)])])
    ss = [
        p.local(["a", "b", "c"], [p.num(1), p.num(2), p.num(3)]),
        p.assign([p.id("ga"), p.id("gb"), p.id("gc")], [p.num(4), p.num(5), p.num(6)]),
        p.local(["t"], [p.table([("p", p.num(10)), ("p", p.num(20)), ("p", p.num(30)),
                                 ("k", p.add("str", s=[120], name=True), p.num(7)),
                                 ("k", p.add("str", s=[121], name=True), p.num(8))])]),
        p.localfunction("f", p.func([], f_body)),
        p.local(["ua", "ub"], [p.num(11), p.num(12)]),
        p.localfunction("getu", p.func([], p.block([p.ret([p.id("ua"), p.id("ub")])]))),
    ]
    return ss


def _dump(p):
    return p.emit([p.id("a"), p.id("b"), p.id("c"), p.id("ga"), p.id("gb"), p.id("gc"),
                   p.index(p.id("t"), p.num(1)), p.index(p.id("t"), p.num(2)), p.index(p.id("t"), p.num(3)),
                   p.field(p.id("t"), "x"), p.field(p.id("t"), "y"), p.id("ua"), p.id("ub"), p.call(p.id("getu"), [])])


TARGETS = ["a", "b", "c", "ga", "gb", "t.x", "t.y", "t[1]", "t[2]", "t[a]", "ua", "ub"]
SOURCES = ["k", "a", "b", "c", "ga", "t.x", "t[1]", "a+1", "b..a", "f()", "(f())", "ua", "nil", "K300", "a and b", "not a", "a<b", "{a}[1]", "-a", "#t",
           "...", "(...)", "(select(2, ...))", "select('#', ...)", "obs()", "ident(b)", "ident(a)"]
VARARG_SOURCES = {"...", "(...)", "(select(2, ...))", "select('#', ...)"}


def _target(p, name):
    if name in ("a", "b", "c", "ga", "gb", "ua", "ub"):
        return p.id(name)
    if name == "t.x":
        return p.field(p.id("t"), "x")
    if name == "t.y":
        return p.field(p.id("t"), "y")
    if name == "t[1]":
        return p.index(p.id("t"), p.num(1))
    if name == "t[2]":
        return p.index(p.id("t"), p.num(2))
    if name == "t[a]":
        return p.index(p.id("t"), p.id("a"))
    if name == "t[b]":
        return p.index(p.id("t"), p.id("b"))
    raise ValueError(name)


def _source(p, name, k=42):
    if name == "k":
        return p.num(k)
    if name == "K300":
        return p.num(70000 + k)
    if name in ("a", "b", "c", "ga", "gb", "ua", "ub"):
        return p.id(name)
    if name in ("t.x", "t.y"):
        return p.field(p.id("t"), name[2])
    if name in ("t[1]", "t[2]"):
        return p.index(p.id("t"), p.num(int(name[2])))
    if name == "a+1":
        return p.bin("+", p.id("a"), p.num(1))
    if name == "b..a":
        return p.bin("..", p.id("b"), p.id("a"))
    if name == "f()":
        return p.call(p.id("f"), [])
    if name == "(f())":
        return p.paren(p.call(p.id("f"), []))
    if name == "nil":
        return p.nil()
    if name == "a and b":
        return p.and_(p.id("a"), p.id("b"))
    if name == "not a":
        return p.un("not", p.id("a"))
    if name == "a<b":
        return p.bin("<", p.id("a"), p.id("b"))
    if name == "{a}[1]":
        return p.index(p.table([("p", p.id("a"))]), p.num(1))
    if name == "-a":
        return p.un("-", p.id("a"))
    if name == "#t":
        return p.un("#", p.id("t"))
    if name == "...":
        return p.dots()
    if name == "(...)":
        return p.paren(p.dots())
    if name == "(select(2, ...))":
        return p.paren(p.call(p.id("select"), [p.num(2), p.dots()]))
    if name == "select('#', ...)":
        return p.call(p.id("select"), [p.str("#"), p.dots()])
    if name == "obs()":          # observes the locals at the moment it is evaluated (through upvalues)
        return p.call(p.id("obs"), [])
    if name in ("ident(a)", "ident(b)"):   # ... and through an argument
        return p.call(p.id("ident"), [p.id(name[6])])
    raise ValueError(name)


def _aliases(ts):
    """reject target lists that may alias (same variable twice; t[a] next to t[1]/t[2]/a)"""
    if len(set(ts)) != len(ts):
        return True
    # t[a] next to the target a is NOT aliasing: keys are evaluated before any store
    # (the property states it); t[a] next to t[1] is (a == 1 names the same slot)
    if "t[a]" in ts and "t[1]" in ts:
        return True
    return False


def assign_case(ts, srcs, in_closure=False):
    """one multiple assignment `ts = srcs` between a prelude and a dump; with
    in_closure the statement runs inside a nested function, so that a, b, c, ua,
    ub, t, f are upvalues there."""
    p = Prog()
    ss = _prelude(p)
    va = any(x in VARARG_SOURCES for x in srcs)
    if "obs()" in srcs:
        ss.append(p.localfunction("obs", p.func([], p.block([p.emit([p.str("obs"), p.id("a"), p.id("b"), p.id("c"), p.id("ua"), p.field(p.id("t"), "x")]), p.ret([p.num(77)])]))))
    if any(x.startswith("ident(") for x in srcs):
        ss.append(p.localfunction("ident", p.func(["v"], p.block([p.emit([p.str("ident"), p.id("v")]), p.ret([p.id("v")])]))))
    st = p.assign([_target(p, t) for t in ts], [_source(p, s, 40 + i) for i, s in enumerate(srcs)])
    if in_closure == "params":
        # the local targets are PARAMETERS of the function the statement runs in (1, 2 or 3 of them, so that
        # each of a, b, c is the last parameter in some variant), with and without a further local above them
        nps = 1 + (len(ts) + len(srcs)) % 3
        ps = ["a", "b", "c"][:nps]
        rest = [x for x in ("a", "b", "c") if x not in ps]
        body = ([p.local(rest, [p.num(70 + i) for i in range(len(rest))])] if rest else []) + [st, p.emit([p.str("inside"), p.id("a"), p.id("b"), p.id("c")]), p.ret([p.id(x) for x in ps])]
        ss.append(p.localfunction("run", p.func(ps, p.block(body), va=va, ud=va)))
        ss.append(p.emit([p.call(p.id("run"), [p.num(21 + i) for i in range(nps)] + ([p.dots()] if va else []))]))
    elif in_closure:
        body = p.block([st, p.ret([p.id("a")])])
        ss.append(p.localfunction("run", p.func([], body, va=va, ud=va)))
        ss.append(p.emit([p.call(p.id("run"), [p.dots()] if va else [])]))
    else:
        ss.append(st)
    ss.append(_dump(p))
    if va:
        # the whole program is the body of a vararg function called with three values
        return p, p.block([p.localfunction("main", p.func([], p.block(ss), va=True, ud=True)),
                           p.callstat(p.call(p.id("main"), [p.num(91), p.num(92), p.num(93)]))])
    return p, p.block(ss)


def gen_assign(rng, n, exhaustive2=False):
    """multiple assignments over target kinds x source kinds (swaps, rotations,
    trailing calls, fewer/more values than targets)"""
    out = []
    if exhaustive2:
        for t1, t2 in itertools.permutations(TARGETS, 2):
            if _aliases([t1, t2]):
                continue
            for srcs in (["b", "a"], ["a", "b"], [t2.replace("t[a]", "t[1]") if t2 in SOURCES else "b", t1 if t1 in SOURCES else "a"],
                         ["f()"], ["k"], ["c", "f()"], ["a+1", "b..a", "c"]):
                for cl in (False, True):
                    out.append(assign_case([t1, t2], srcs, cl))
    # classic swaps and rotations on every kind
    for ts, srcs in ((["a", "b"], ["b", "a"]), (["a", "b", "c"], ["c", "a", "b"]), (["a", "b", "c"], ["b", "c", "a"]),
                     (["a", "ga"], ["ga", "a"]), (["t.x", "t.y"], ["t.y", "t.x"]), (["t[1]", "t[2]"], ["t[2]", "t[1]"]),
                     (["ua", "ub"], ["ub", "ua"]), (["a", "t.x"], ["t.x", "a"]), (["t[a]", "b"], ["b", "a"]),
                     (["t[a]", "a"], ["k", "a+1"]), (["a", "t[a]"], ["a+1", "k"]), (["t[a]", "t[b]", "a", "b"], ["k", "K300", "b", "a"]),
                     (["t[a]", "a", "b"], ["b", "c", "a"])):
        for cl in (False, True):
            out.append(assign_case(ts, srcs, cl))
    # every source kind assigned to a parameter (single target: the compiler stores straight into the register)
    for tgt in ("a", "b", "c"):
        for src in SOURCES:
            out.append(assign_case([tgt], [src], "params"))
        out.append(assign_case([tgt, "ga"], ["(f())", tgt], "params"))
        out.append(assign_case(["t.x", tgt], [tgt, "(f())"], "params"))
    # more values than targets: the surplus expressions are still evaluated, and before any store
    for last in ("a", "b", "c", "ga", "t.x", "ua"):
        for first in ("a", "b", "t[1]", "ga"):
            if first == last:
                continue
            for extra in (["obs()"], ["ident(%s)" % (last if last in ("a", "b") else "a")], ["obs()", "obs()"], ["f()"], ["(...)"], ["..."]):
                for cl in (False, True):
                    out.append(assign_case([first, last], ["k", "K300"] + extra, cl))
        out.append(assign_case([last], ["k", "obs()"], False))
        out.append(assign_case([last], ["obs()", "obs()", "k"], True))
    while len(out) < n:
        nt = rng.choice([1, 2, 2, 3, 3])
        ts = rng.sample(TARGETS, nt)
        if _aliases(ts):
            continue
        ns = rng.choice([nt, nt, nt, max(1, nt - 1), nt + 1])
        srcs = [rng.choice(SOURCES) for _ in range(ns)]
        out.append(assign_case(ts, srcs, rng.random() < 0.4))
    return out


BINOPS = ["+", "-", "*", "/", "%", "^", "..", "==", "~=", "<", "<=", ">", ">=", "and", "or"]
OPERANDS = ["k", "K300", "local", "upval", "global", "field", "call", "paren", "folded", "nstr", "str"]
DESTS = ["newlocal", "local", "upval", "global", "field", "index", "arg", "return", "cond", "item", "concat"]


def _operand(p, kind, side):
    v = 6 if side == 0 else 3
    if kind == "k":
        return p.num(v)
    if kind == "K300":
        return p.num(70000 + v)
    if kind == "local":
        return p.id("a" if side == 0 else "b")
    if kind == "upval":
        return p.id("ua" if side == 0 else "ub")
    if kind == "global":
        return p.id("ga" if side == 0 else "gb")
    if kind == "field":
        return p.field(p.id("t"), "x" if side == 0 else "y")
    if kind == "call":
        return p.call(p.id("f"), [])
    if kind == "paren":
        return p.paren(p.bin("+", p.id("a"), p.num(v)))
    if kind == "folded":
        return p.bin("*", p.num(2), p.num(v))
    if kind == "nstr":
        return p.str("10" if side == 0 else "4")
    if kind == "str":
        return p.str("x" if side == 0 else "y")
    raise ValueError(kind)


def expr_case(op, k1, k2, dest, in_closure, un=None):
    p = Prog()
    ss = _prelude(p)

    def mk():          # a fresh copy of the expression per use (nodes carry their own lines)
        if op in ("and", "or"):
            x = (p.and_ if op == "and" else p.or_)(_operand(p, k1, 0), _operand(p, k2, 1))
        else:
            x = p.bin(op, _operand(p, k1, 0), _operand(p, k2, 1))
        return p.un(un, x) if un else x
    e = mk()
    body = []
    if dest == "newlocal":
        body += [p.local(["r"], [e]), p.emit([p.id("r")])]
    elif dest == "local":
        body += [p.assign([p.id("c")], [e])]
    elif dest == "upval":
        body += [p.assign([p.id("ub")], [e])]
    elif dest == "global":
        body += [p.assign([p.id("gc")], [e])]
    elif dest == "field":
        body += [p.assign([p.field(p.id("t"), "x")], [e])]
    elif dest == "index":
        body += [p.assign([p.index(p.id("t"), p.bin("+", p.id("a"), p.num(1)))], [e])]
    elif dest == "arg":
        body += [p.emit([p.num(0), e, p.num(1)])]
    elif dest == "return":
        fb = p.block([p.ret([e])])
        body += [p.emit([p.call(p.func([], fb), [])])]
    elif dest == "cond":
        body += [p.if_([e], [p.block([p.emit([p.str("T")])])], p.block([p.emit([p.str("F")])])),
                 p.local(["w"], [p.num(0)]),
                 p.while_(p.and_(p.bin("<", p.id("w"), p.num(2)), mk()), p.block([p.assign([p.id("w")], [p.bin("+", p.id("w"), p.num(1))])])),
                 p.emit([p.id("w")])]
    elif dest == "item":
        body += [p.local(["r"], [p.table([("p", p.num(0)), ("p", e), ("k", p.add("str", s=[122], name=True), mk())])]),
                 p.emit([p.index(p.id("r"), p.num(2)), p.field(p.id("r"), "z")])]
    elif dest == "concat":
        body += [p.emit([p.bin("..", p.str("<"), p.bin("..", p.call(p.id("tostring"), [e]), p.str(">")))])]
    if in_closure:
        blk = p.block(body + [p.ret([p.id("c")])])
        ss.append(p.localfunction("run", p.func([], blk)))
        ss.append(p.emit([p.call(p.id("run"), [])]))
    else:
        ss.extend(body)
    ss.append(_dump(p))
    return p, p.block(ss)


def gen_expr(rng, n):
    out = []
    while len(out) < n:
        op = rng.choice(BINOPS)
        k1, k2 = rng.choice(OPERANDS), rng.choice(OPERANDS)
        dest = rng.choice(DESTS)
        un = rng.choice([None, None, None, "not", "-"])
        out.append(expr_case(op, k1, k2, dest, rng.random() < 0.3, un))
    return out


def pad(p, root, nlocals, nconsts):
    """G-pad: the same program embedded among unrelated locals and constants
    (register pressure, constant indices beyond 255 / 511)."""
    ss = []
    for i in range(0, nlocals, 10):
        names = ["pad%d" % j for j in range(i, min(i + 10, nlocals))]
        ss.append(p.local(names, [p.num(5000 + j) for j in range(i, min(i + 10, nlocals))]))
    for i in range(0, nconsts, 50):
        # alternate numeric and string constants (field names and string operands go through the same pool)
        mk = (lambda j: p.num(900000 + j)) if (i // 50) % 2 == 0 else (lambda j: p.str("pad%d" % j))
        ss.append(p.local(["padc"], [p.table([("p", mk(j)) for j in range(i, min(i + 50, nconsts))])]))
        ss.append(p.emit([p.un("#", p.id("padc"))]))
    old = p.nodes[root]["ss"]
    return p, p.block(ss + old)


def tabcons_cases(rng, n):
    """table constructors: positional items around the flush boundary (FieldsPerFlush = 50),
    keyed fields whose values are calls, trailing multi-valued call / vararg, in every order"""
    out = []
    sizes = [0, 1, 2, 3, 48, 49, 50, 51, 52, 99, 100, 101, 150]
    for _ in range(n):
        p = Prog()
        ss = [p.localfunction("f", p.func([], p.block([p.ret([p.num(901), p.num(902), p.num(903)])]))),
              p.localfunction("g", p.func(["a"], p.block([p.ret([p.id("a"), p.bin("+", p.id("a"), p.num(1))])]))),
              p.localfunction("none", p.func([], p.block([p.ret([])])))]
        npos = rng.choice(sizes)
        items = [("p", p.num(i)) for i in range(1, npos + 1)]
        # sprinkle keyed fields (constant, call-valued, expression keys) among the positional ones
        for _ in range(rng.randint(0, 3)):
            kind = rng.random()
            pos = rng.randint(0, len(items))
            if kind < 0.4:
                items.insert(pos, ("k", p.add("str", s=[120 + rng.randint(0, 2)], name=True), p.call(p.id("f"), [])))
            elif kind < 0.6:
                items.insert(pos, ("k", p.add("str", s=[120 + rng.randint(0, 2)], name=True), p.num(77)))
            elif kind < 0.8:
                items.insert(pos, ("k", p.num(rng.choice([0, -1, 1000])), p.call(p.id("g"), [p.num(5)])))
            else:
                items.insert(pos, ("k", p.bin("..", p.str("k"), p.num(1)), p.paren(p.call(p.id("f"), []))))
        tail = rng.random()
        if tail < 0.3:
            items.append(("p", p.call(p.id("f"), [])))
        elif tail < 0.45:
            items.append(("p", p.call(p.id("g"), [p.num(npos + 1)])))
        elif tail < 0.55:
            items.append(("p", p.call(p.id("none"), [])))
        elif tail < 0.65:
            items.append(("p", p.paren(p.call(p.id("f"), []))))
        elif tail < 0.75:
            items.append(("p", p.dots()))
        build = p.func([], p.block([p.local(["t"], [p.table(items)]), p.ret([p.id("t")])]), va=True, ud=True)
        ss.append(p.local(["t"], [p.call(p.paren(build), [p.num(801), p.num(802)])]))
        lo = max(1, npos - 2)
        ss.append(p.emit([p.index(p.id("t"), p.num(i)) for i in range(lo, npos + 5)]))
        ss.append(p.emit([p.index(p.id("t"), p.num(1)), p.index(p.id("t"), p.num(2)), p.field(p.id("t"), "x"), p.field(p.id("t"), "y"), p.field(p.id("t"), "z"),
                          p.field(p.id("t"), "k1"), p.index(p.id("t"), p.num(0)), p.index(p.id("t"), p.num(-1)), p.index(p.id("t"), p.num(1000))]))
        ss.append(p.local(["cnt"], [p.num(0)]))
        ss.append(p.forin(["k", "v"], [p.call(p.id("pairs"), [p.id("t")])], p.block([p.assign([p.id("cnt")], [p.bin("+", p.id("cnt"), p.num(1))])])))
        ss.append(p.emit([p.str("count"), p.id("cnt")]))
        out.append((p, p.block(ss)))
    return out


def forin_cases(rng, n):
    """generic for: explists of 1..4 values (adjusted to exactly three), 1..3 loop variables,
    stale registers left by an earlier block, custom iterators observing state and control"""
    out = []
    for _ in range(n):
        p = Prog()
        it = p.func(["s", "c"], p.block([p.emit([p.str("iter"), p.id("s"), p.id("c")]),
                                         p.assign([p.id("cnt")], [p.bin("+", p.id("cnt"), p.num(1))]),
                                         p.if_([p.bin(">", p.id("cnt"), p.num(2))], [p.block([p.ret([p.nil()])])]),
                                         p.ret([p.id("cnt"), p.bin("*", p.id("cnt"), p.num(10)), p.str("third")])]))
        ss = [p.local(["cnt"], [p.num(0)]), p.localfunction("it", it),
              p.do(p.block([p.local(["s1", "s2", "s3", "s4", "s5"], [p.str("stale1"), p.str("stale2"), p.str("stale3"), p.str("stale4"), p.str("stale5")])]))]
        nvals = rng.randint(1, 4)
        kind = rng.random()
        if kind < 0.15:
            # an iterator whose first result is false on some step: only nil ends the loop
            itf = p.func(["s", "c"], p.block([p.assign([p.id("cnt")], [p.bin("+", p.id("cnt"), p.num(1))]),
                                              p.if_([p.bin("==", p.id("cnt"), p.num(1))], [p.block([p.ret([p.false(), p.str("first-is-false")])])]),
                                              p.if_([p.bin("==", p.id("cnt"), p.num(2))], [p.block([p.ret([p.num(0), p.str("zero")])])]),
                                              p.ret([p.nil()])]))
            exprs = [itf]
        elif kind < 0.25:
            exprs = [p.call(p.id("pairs"), [p.table([("k", p.false(), p.str("f")), ("k", p.num(0), p.str("z"))])])]
        elif kind < 0.5:
            exprs = [p.id("it"), p.str("S"), p.num(0), p.str("extra")][:nvals]
        elif kind < 0.75:
            exprs = [p.id("next"), p.table([("p", p.num(7)), ("p", p.num(8))]), p.nil(), p.num(1)][:max(2, nvals)]
        else:
            three = p.func([], p.block([p.ret([p.id("it"), p.str("S3")] + ([p.num(0)] if rng.random() < 0.5 else []))]))
            exprs = [p.call(p.paren(three), [])]
        nnames = rng.randint(1, 3)
        names = ["k", "v", "w"][:nnames]
        body = [p.emit([p.str("body")] + [p.id(x) for x in names])]
        ss.append(p.forin(names, exprs, p.block(body)))
        ss.append(p.emit([p.str("end"), p.id("cnt")]))
        out.append((p, p.block(ss)))
    return out


def fresh_local_cases():
    """a local declared WITHOUT an initialiser is nil every time its declaration executes: first statement
    of every loop body form / after a label jumped back to, next to other nil-initialised locals"""
    out = []
    for loop, ndecl, pre, depth in itertools.product(["while", "repeat", "fornum", "forin", "goto", "nested_repeat", "repeat_in_func"], [1, 2, 3], ["none", "nil_local", "two_nil_locals", "value_local"], [0, 1]):
        p = Prog()
        names = ["v%d" % i for i in range(ndecl)]
        decl = lambda: p.local(names, [])
        see = lambda: p.emit([p.str("fresh")] + [p.id(n) for n in names])
        setv = lambda: p.assign([p.id(n) for n in names], [p.bin("+", p.id("i"), p.num(10 * (k + 1))) for k, n in enumerate(names)])
        prelude = {"none": [], "nil_local": [p.local(["acc"], [])], "two_nil_locals": [p.local(["acc"], []), p.local(["acc2"], [])],
                   "value_local": [p.local(["acc"], [p.num(5)])]}[pre]
        body = [decl(), see(), setv(), see()]
        if depth:
            body = [p.do(p.block(body))] if loop not in ("goto",) else body
        cnt = [p.assign([p.id("i")], [p.bin("+", p.id("i"), p.num(1))])]
        if loop == "while":
            ss = [p.local(["i"], [p.num(0)])] + prelude + [p.while_(p.bin("<", p.id("i"), p.num(3)), p.block(body + cnt))]
        elif loop == "repeat":
            ss = [p.local(["i"], [p.num(0)])] + prelude + [p.repeat(p.block(body + cnt), p.bin(">=", p.id("i"), p.num(3)))]
        elif loop == "nested_repeat":
            inner = p.repeat(p.block(body + cnt), p.bin(">=", p.bin("%", p.id("i"), p.num(2)), p.num(0)))
            ss = [p.local(["i"], [p.num(0)])] + prelude + [p.repeat(p.block([p.local(["outer"], []), p.emit([p.str("outer"), p.id("outer")]), p.assign([p.id("outer")], [p.id("i")]), inner]),
                                                                    p.bin(">=", p.id("i"), p.num(3)))]
        elif loop == "repeat_in_func":
            f = p.func([], p.block(prelude + [p.repeat(p.block(body + cnt), p.bin(">=", p.id("i"), p.num(3)))]))
            ss = [p.local(["i"], [p.num(0)]), p.callstat(p.call(p.paren(f), []))]
        elif loop == "fornum":
            ss = prelude + [p.fornum("i", p.num(1), p.num(3), 0, p.block(body))]
        elif loop == "forin":
            ss = prelude + [p.forin(["i", "x"], [p.call(p.id("ipairs"), [p.table([("p", p.num(7)), ("p", p.num(8)), ("p", p.num(9))])])], p.block(body))]
        else:   # goto: the declaration follows a label that is jumped back to
            ss = [p.local(["i"], [p.num(0)])] + prelude + [p.do(p.block([p.label("top")] + body + cnt + [p.if_([p.bin("<", p.id("i"), p.num(3))], [p.block([p.goto("top")])])]))]
        out.append((p, p.block(ss)))
    return out


def fornum_coercion_cases():
    """numeric for: init / limit / step as numbers, numeric strings (blanks, hex), non-numeric strings and other types,
    as constants and in locals; the control variable is always a number"""
    out = []
    vals = {"n": lambda p, v: p.num(v), "s": lambda p, v: p.str(str(v)), "sb": lambda p, v: p.str(" %d " % v), "sx": lambda p, v: p.str("0x%x" % v if v >= 0 else str(v)),
            "bad": lambda p, v: p.str("abc"), "nil": lambda p, v: p.nil(), "tab": lambda p, v: p.table([]), "bool": lambda p, v: p.true(), "empty": lambda p, v: p.str("")}
    for ki, kl, ks, inlocal in itertools.product(["n", "s", "sb", "sx", "bad", "nil"], ["n", "s", "sx", "bad", "tab", "empty"], ["none", "n", "s", "bad", "bool"], [False, True]):
        if (ki, kl, ks) == ("n", "n", "none") or (ki, kl, ks) == ("n", "n", "n"):
            continue
        p = Prog()
        a, b = vals[ki](p, 2), vals[kl](p, 5)
        c = None if ks == "none" else vals[ks](p, 2)
        body = p.block([p.emit([p.id("i"), p.call(p.id("type"), [p.id("i")]), p.bin("+", p.id("i"), p.num(1))])])
        if inlocal:
            ss = [p.local(["a", "b", "c"], [a, b, c if c else p.num(1)])]
            loop = p.fornum("i", p.id("a"), p.id("b"), p.id("c") if c else 0, body)
        else:
            ss = []
            loop = p.fornum("i", a, b, c or 0, body)
        ss.append(p.emit([p.str("r"), p.call(p.id("pcall"), [p.func([], p.block([loop, p.ret([p.str("done")])]))])]))
        if inlocal:
            ss.append(p.emit([p.str("kept"), p.call(p.id("type"), [p.id("a")]), p.call(p.id("type"), [p.id("b")])]))   # the variables themselves keep their strings
        out.append((p, p.block(ss)))
    return out


def same_label_cases(rng, n):
    """labels of one name in nested and sibling blocks (the usual ::continue:: at the end of every loop body): a goto
    binds to the label of the innermost ENCLOSING block that declares the name, never to one inside a block it is not
    in - whatever other gotos of the function were resolved before it"""
    out = []
    while len(out) < n:
        p = Prog()
        depth = rng.randint(2, 3)
        names = ["i", "j", "k"]
        lab = rng.choice(["continue", "next", "L"])

        def loop(d):
            v = names[d]
            body = []
            if rng.random() < 0.6:          # a goto that is resolved at once (its label is already known / in its own block)
                body.append(p.do(p.block([p.goto("near%d" % d), p.emit([p.str("skipped")]), p.label("near%d" % d)])))
            cond = p.bin("==", p.bin("%", p.id(v), p.num(2)), p.num(rng.randint(0, 1)))
            jump = p.block([p.emit([p.str("skip-" + v), p.id(v)]), p.goto(lab)])
            for _ in range(rng.randint(0, 2)):
                jump = p.block([p.do(jump)])
            body.append(p.if_([cond], [jump]))
            if d + 1 < depth:
                body.append(loop(d + 1))
                if rng.random() < 0.5:      # a second sibling loop with its own label of the same name
                    body.append(loop(d + 1))
            body.append(p.emit([p.str("tail-" + v), p.id(v)]))
            body.append(p.label(lab))
            kind = rng.choice(["fornum", "while", "repeat"])
            if kind == "fornum":
                return p.fornum(v, p.num(1), p.num(rng.randint(2, 3)), 0, p.block(body))
            cnt = "c%d_%d" % (d, len(p.nodes))
            if kind == "while":
                return p.do(p.block([p.local([cnt], [p.num(0)]), p.while_(p.bin("<", p.id(cnt), p.num(2)), p.block(
                    [p.assign([p.id(cnt)], [p.bin("+", p.id(cnt), p.num(1))]), p.local([v], [p.id(cnt)])] + body))]))
            return p.do(p.block([p.local([cnt], [p.num(0)]), p.repeat(p.block(
                [p.assign([p.id(cnt)], [p.bin("+", p.id(cnt), p.num(1))]), p.local([v], [p.id(cnt)])] + body), p.bin(">=", p.id(cnt), p.num(2)))]))
        ss = [loop(0), p.emit([p.str("done")])]
        if rng.random() < 0.5:
            ss = [p.localfunction("run", p.func([], p.block(ss))), p.callstat(p.call(p.id("run"), []))]
        out.append((p, p.block(ss)))
    return out
