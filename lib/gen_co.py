"""C06 families: coroutine scripts (bodies over yield/resume/return/error/status,
main over resume/wrap-call/status, payloads of 0..2 values), generators driving
for-in, yield across nested calls, shared closures."""
import random
from luagen import Prog


def _name(p, s):
    return p.add("str", s=list(s.encode()), name=True)


def _co(p, name):
    return p.field(p.id("coroutine"), name)


def script_program(rng, ncos=None, wrap_prob=0.25):
    p = Prog()
    n = ncos or rng.randint(1, 3)
    wrapped = [rng.random() < wrap_prob for _ in range(n)]
    ss = [p.local(["co"], [p.table([])]), p.local(["shared"], [p.num(0)])]
    if any(wrapped):
        # a wrap function's coroutine is an ordinary thread once its body has published coroutine.running(): it can be
        # driven through coroutine.resume and through the wrap function in any order, each answering in its own way
        ss.append(p.local(["pub"], [p.table([])]))
        ss.append(p.localfunction("rw", p.func(["k"], p.block([
            p.if_([p.index(p.id("pub"), p.id("k"))], [p.block([p.ret([p.str("thread"), p.call(_co(p, "resume"), [p.index(p.id("pub"), p.id("k")), p.dots()])])])]),
            p.ret([p.str("wrap"), p.call(p.id("pcall"), [p.index(p.id("co"), p.id("k")), p.dots()])])]), va=True, ud=True)))
    # status reporter (created coroutines only)
    st_args = [p.str("st")]
    for k in range(n):
        if not wrapped[k]:
            st_args.append(p.call(_co(p, "status"), [p.index(p.id("co"), p.num(k + 1))]))
    ss.append(p.localfunction("st", p.func([], p.block([p.emit(st_args)]))))
    counter = [0]

    def vals(maxn=2):
        out = []
        for _ in range(rng.randint(0, maxn)):
            counter[0] += 1
            out.append(p.num(counter[0]))
        return out

    def resume_expr(i, args):
        target = p.index(p.id("co"), p.num(i + 1))
        if wrapped[i]:
            if rng.random() < 0.5:
                return p.call(p.id("rw"), [p.num(i + 1)] + args)
            return p.call(p.id("pcall"), [target] + args)
        return p.call(_co(p, "resume"), [target] + args)

    def body_ops(k, depth):
        ops = []
        tag = "b%d" % (k + 1)
        nops = rng.randint(1, 4)
        for j in range(nops):
            c = rng.random()
            if c < 0.22:
                ops.append(p.emit([p.str(tag + "-y"), p.call(_co(p, "yield"), vals())]))
            elif c < 0.35:
                # yield results in a fixed-count context: more or fewer values than the resume passes
                nv = rng.randint(1, 3)
                names = ["y%d_%d" % (j, q) for q in range(nv)]
                form = rng.random()
                if form < 0.5:
                    ops.append(p.local(names, [p.call(_co(p, "yield"), vals())]))
                elif form < 0.75:
                    ops.append(p.local(names, []))
                    ops.append(p.assign([p.id(x) for x in names], [p.call(_co(p, "yield"), vals())]))
                else:
                    ops.append(p.local(names, [p.num(0)] * (nv - 1) + [p.paren(p.call(_co(p, "yield"), vals()))]))
                ops.append(p.emit([p.str(tag + "-yf")] + [p.id(x) for x in names]))
            elif c < 0.5:
                i = rng.randrange(n)
                ops.append(p.emit([p.str(tag + "-r%d" % (i + 1)), resume_expr(i, vals())]))
                if not wrapped[k]:
                    ops.append(p.emit([p.str(tag + "-still-me"), p.bin("==", p.call(_co(p, "running"), []), p.index(p.id("co"), p.num(k + 1))),
                                       p.call(_co(p, "status"), [p.index(p.id("co"), p.num(k + 1))])]))
            elif c < 0.6:
                ops.append(p.callstat(p.call(p.id("st"), [])))
                if wrapped[k]:
                    ops.append(p.emit([p.str(tag + "-running-is-thread"), p.call(p.id("type"), [p.call(_co(p, "running"), [])])]))
                if not wrapped[k]:
                    ops.append(p.emit([p.str(tag + "-self"), p.bin("==", p.call(_co(p, "running"), []), p.index(p.id("co"), p.num(k + 1)))]))
            elif c < 0.68:
                deep = p.func(["d"], p.block([p.if_([p.bin("==", p.id("d"), p.num(0))], [p.block([p.ret([p.call(_co(p, "yield"), vals())])])]),
                                              p.ret([p.call(p.id("deep"), [p.bin("-", p.id("d"), p.num(1))])])]))
                ops.append(p.localfunction("deep", deep))
                ops.append(p.emit([p.str(tag + "-deep"), p.call(p.id("deep"), [p.num(rng.randint(0, 3))])]))
            elif c < 0.72:
                ops.append(p.emit([p.str(tag + "-pc"), p.call(p.id("pcall"), [p.id("error"), p.str("inner")])]))
            elif c < 0.75:
                # a yield below pcall cannot suspend the host function: an error at the yield, caught by that pcall; the
                # coroutine goes on and its later yields work
                form = rng.choice(["middle", "tail", "tail-deep", "xpcall-tail"])
                if form == "middle":
                    yielding = [p.local(["r"], [p.call(_co(p, "yield"), vals())]), p.ret([p.str("not-reached"), p.id("r")])]
                elif form == "tail-deep":      # the yield is the tail call of a function that the protected function tail-calls
                    yielding = [p.ret([p.call(p.paren(p.func([], p.block([p.ret([p.call(_co(p, "yield"), vals())])]))), [])])]
                else:                          # a yield in tail position: the frame that would be suspended is already gone
                    yielding = [p.ret([p.call(_co(p, "yield"), vals())])]
                inner = p.func([], p.block([p.local(["keep"], [p.str("kept")]), p.assign([p.id("kfn")], [p.func([], p.block([p.ret([p.id("keep")])]))])] + yielding))
                if form == "xpcall-tail":
                    ops.append(p.emit([p.str(tag + "-ypc"), p.call(p.id("select"), [p.num(1), p.call(p.id("xpcall"), [inner, p.func(["m"], p.block([p.ret([p.str("handled")])]))])]), p.call(p.id("kfn"), [])]))
                else:
                    ops.append(p.emit([p.str(tag + "-ypc"), p.call(p.id("pcall"), [inner]), p.call(p.id("kfn"), [])]))
            elif c < 0.78:
                # an error raised below one more host boundary than the pcall that catches it (a metamethod handler, a
                # for-in iterator, a nested pcall): the calls it went through are gone, later yields of this coroutine work
                via = rng.choice(["index", "add", "iter", "nested"])
                boom = lambda: p.callstat(p.call(p.id("error"), [p.str("below-" + via)]))
                if via == "index":
                    body = [p.ret([p.field(p.call(p.id("setmetatable"), [p.table([]), p.table([("k", _name(p, "__index"), p.func(["t", "k"], p.block([boom()])))])]), "missing")])]
                elif via == "add":
                    body = [p.ret([p.bin("+", p.call(p.id("setmetatable"), [p.table([]), p.table([("k", _name(p, "__add"), p.func(["a", "b"], p.block([boom()])))])]), p.num(1))])]
                elif via == "iter":
                    body = [p.forin(["q"], [p.func([], p.block([boom()]))], p.block([p.emit([p.str("not-reached")])]))]
                else:
                    body = [p.ret([p.call(p.id("pcall"), [p.func([], p.block([p.callstat(p.call(p.id("pcall"), [p.id("error"), p.str("innermost")])), boom()]))])])]
                ops.append(p.emit([p.str(tag + "-ebb"), p.call(p.id("select"), [p.num(1), p.call(p.id("pcall"), [p.func([], p.block(body))])])]))
                ops.append(p.emit([p.str(tag + "-ebb-yield"), p.call(_co(p, "yield"), vals())]))
            elif c < 0.83:
                x = "x%d" % j
                ops.append(p.fornum("i", p.num(1), p.num(2), 0, p.block([
                    p.local([x], [p.bin("*", p.id("i"), p.num(10))]),
                    p.assign([p.id("shared")], [p.bin("+", p.id("shared"), p.num(1))]),
                    p.emit([p.str(tag + "-loop"), p.id("i"), p.id(x), p.id("shared"), p.call(_co(p, "yield"), [p.id(x)])])])))
            elif c < 0.90:
                ops.append(p.ret(vals(3)))
                break
            elif c < 0.96:
                ops.append(p.callstat(p.call(p.id("error"), [rng.choice([lambda: p.str("e"), lambda: p.table([]), lambda: p.num(7)])()])))
                break
            else:
                ops.append(p.ret([p.call(_co(p, "yield"), vals())]))    # tail-called yield
                break
        return ops

    for k in range(n):
        tag = "b%d" % (k + 1)
        body = [p.emit([p.str(tag + "-start"), p.dots()])]
        if wrapped[k] and rng.random() < 0.7:
            body.append(p.assign([p.index(p.id("pub"), p.num(k + 1))], [p.call(_co(p, "running"), [])]))
        body += body_ops(k, 0)
        f = p.func([], p.block(body), va=True, ud=True)
        ctor = "wrap" if wrapped[k] else "create"
        ss.append(p.assign([p.index(p.id("co"), p.num(k + 1))], [p.call(_co(p, ctor), [f])]))
    # main script
    for _ in range(rng.randint(2, 6)):
        c = rng.random()
        if c < 0.55:
            i = rng.randrange(n)
            ss.append(p.emit([p.str("m-r%d" % (i + 1)), resume_expr(i, vals())]))
        elif c < 0.75:
            i = rng.randrange(n)
            nv = rng.randint(1, 4)
            names = ["m%d_%d" % (counter[0], q) for q in range(nv)]
            counter[0] += 1
            ss.append(p.local(names, [resume_expr(i, vals(3))]))       # resume results in a fixed-count context
            ss.append(p.emit([p.str("m-rf%d" % (i + 1))] + [p.id(x) for x in names]))
        else:
            ss.append(p.callstat(p.call(p.id("st"), [])))
    ss.append(p.callstat(p.call(p.id("st"), [])))
    ss.append(p.emit([p.str("main-running"), p.call(_co(p, "running"), []), p.id("shared")]))
    return p, p.block(ss)


def fixed_programs():
    out = []

    def mk(build):
        p = Prog()
        out.append((p, p.block(build(p))))

    def generator_forin(p):
        gen = p.func(["n"], p.block([p.ret([p.call(_co(p, "wrap"), [p.func([], p.block([
            p.fornum("i", p.num(1), p.id("n"), 0, p.block([p.callstat(p.call(_co(p, "yield"), [p.id("i"), p.bin("*", p.id("i"), p.id("i"))]))]))]))])])]))
        return [p.localfunction("gen", gen),
                p.forin(["a", "b"], [p.call(p.id("gen"), [p.num(4)])], p.block([p.emit([p.id("a"), p.id("b")])])),
                p.emit([p.str("done")])]
    mk(generator_forin)

    def mutual_resume(p):      # B resumes its own resumer A: refused, not a crash
        a = p.func([], p.block([p.emit([p.str("A-resumes-B"), p.call(_co(p, "resume"), [p.id("B")])]), p.ret([p.str("A-done")])]))
        b = p.func([], p.block([p.emit([p.str("B-sees-A"), p.call(_co(p, "status"), [p.id("A")])]),
                                p.emit([p.str("B-resumes-A"), p.call(_co(p, "resume"), [p.id("A")])]),
                                p.emit([p.str("B-resumes-self"), p.call(_co(p, "resume"), [p.call(_co(p, "running"), [])])]),
                                p.ret([p.str("B-done")])]))
        return [p.local(["A", "B"], []), p.assign([p.id("A")], [p.call(_co(p, "create"), [a])]), p.assign([p.id("B")], [p.call(_co(p, "create"), [b])]),
                p.emit([p.call(_co(p, "resume"), [p.id("A")])]),
                p.emit([p.call(_co(p, "status"), [p.id("A")]), p.call(_co(p, "status"), [p.id("B")])]),
                p.emit([p.call(_co(p, "resume"), [p.id("A")])])]
    mk(mutual_resume)

    def depth3(p):
        c3 = p.func(["x"], p.block([p.emit([p.str("c3"), p.id("x"), p.call(_co(p, "status"), [p.id("c1")]), p.call(_co(p, "status"), [p.id("c2")])]),
                                    p.local(["y"], [p.call(_co(p, "yield"), [p.bin("+", p.id("x"), p.num(1))])]), p.ret([p.bin("*", p.id("y"), p.num(2))])]))
        c2 = p.func(["x"], p.block([p.assign([p.id("c3")], [p.call(_co(p, "create"), [c3])]),
                                    p.emit([p.str("c2-1"), p.call(_co(p, "resume"), [p.id("c3"), p.id("x")])]),
                                    p.local(["z"], [p.call(_co(p, "yield"), [p.str("c2-yield")])]),
                                    p.emit([p.str("c2-2"), p.call(_co(p, "resume"), [p.id("c3"), p.id("z")])]),
                                    p.ret([p.call(_co(p, "status"), [p.id("c3")])])]))
        c1 = p.func([], p.block([p.assign([p.id("c2")], [p.call(_co(p, "create"), [c2])]),
                                 p.emit([p.str("c1-1"), p.call(_co(p, "resume"), [p.id("c2"), p.num(5)])]),
                                 p.emit([p.str("c1-2"), p.call(_co(p, "resume"), [p.id("c2"), p.num(9)])]),
                                 p.emit([p.str("c1-3"), p.call(_co(p, "resume"), [p.id("c2")])])]))
        return [p.local(["c1", "c2", "c3"], []), p.assign([p.id("c1")], [p.call(_co(p, "create"), [c1])]),
                p.emit([p.call(_co(p, "resume"), [p.id("c1")])]),
                p.emit([p.call(_co(p, "status"), [p.id("c1")]), p.call(_co(p, "status"), [p.id("c2")]), p.call(_co(p, "status"), [p.id("c3")])])]
    mk(depth3)

    def wrap_errors(p):
        f = p.func([], p.block([p.callstat(p.call(_co(p, "yield"), [p.num(1)])), p.callstat(p.call(p.id("error"), [p.table([("k", p.add("str", s=list(b"code"), name=True), p.num(3))])]))]))
        return [p.local(["w"], [p.call(_co(p, "wrap"), [f])]),
                p.emit([p.call(p.id("pcall"), [p.id("w")])]),
                p.local(["ok", "e"], [p.call(p.id("pcall"), [p.id("w")])]),
                p.emit([p.id("ok"), p.call(p.id("type"), [p.id("e")]), p.and_(p.bin("==", p.call(p.id("type"), [p.id("e")]), p.str("table")), p.field(p.id("e"), "code"))]),
                p.emit([p.call(p.id("pcall"), [p.id("w")])]),
                p.emit([p.str("main-running"), p.call(_co(p, "running"), [])]),
                p.local(["c"], [p.call(_co(p, "create"), [p.func([], p.block([p.ret([p.num(1)])]))])]),
                p.emit([p.call(_co(p, "resume"), [p.id("c")])]), p.emit([p.call(_co(p, "resume"), [p.id("c")])])]
    mk(wrap_errors)

    def yield_outside(p):
        return [p.emit([p.call(p.id("pcall"), [_co(p, "yield"), p.num(1)])]),
                p.emit([p.call(p.id("pcall"), [_co(p, "resume"), p.num(1)])]),
                p.emit([p.call(p.id("pcall"), [_co(p, "create"), p.num(1)])]),
                p.emit([p.call(p.id("pcall"), [_co(p, "status"), p.num(1)])])]
    mk(yield_outside)

    def locals_survive(p):
        body = p.func(["a", "b"], p.block([
            p.local(["t"], [p.table([])]),
            p.fornum("i", p.num(1), p.num(3), 0, p.block([
                p.local(["sq"], [p.bin("*", p.id("i"), p.id("i"))]),
                p.assign([p.index(p.id("t"), p.id("i"))], [p.func([], p.block([p.assign([p.id("sq")], [p.bin("+", p.id("sq"), p.id("a"))]), p.ret([p.id("sq")])]))]),
                p.assign([p.id("b")], [p.bin("+", p.id("b"), p.call(_co(p, "yield"), [p.id("i"), p.id("sq"), p.id("b")]))])])),
            p.ret([p.id("a"), p.id("b"), p.call(p.index(p.id("t"), p.num(1)), []), p.call(p.index(p.id("t"), p.num(2)), []), p.call(p.index(p.id("t"), p.num(3)), [])])]))
        return [p.local(["c"], [p.call(_co(p, "create"), [body])]),
                p.emit([p.call(_co(p, "resume"), [p.id("c"), p.num(100), p.num(1)])]),
                p.emit([p.call(_co(p, "resume"), [p.id("c"), p.num(10)])]),
                p.emit([p.call(_co(p, "resume"), [p.id("c"), p.num(20)])]),
                p.emit([p.call(_co(p, "resume"), [p.id("c"), p.num(30)])]),
                p.emit([p.call(_co(p, "resume"), [p.id("c"), p.num(40)])])]
    mk(locals_survive)
    # host functions as coroutine bodies (accepted by gopher-lua as by Lua 5.2): results, errors, status afterwards
    def host_body(body, args, via):
        def build(p):
            fn = {"select": lambda: p.id("select"), "gret": lambda: p.id("gret"), "type": lambda: p.id("type"), "error": lambda: p.id("error"),
                  "pcall": lambda: p.id("pcall"), "yield": lambda: _co(p, "yield"), "tostring": lambda: p.id("tostring"),
                  "wrapfn": lambda: p.call(_co(p, "wrap"), [p.func(["a"], p.block([p.local(["b"], [p.call(_co(p, "yield"), [p.bin("+", p.id("a"), p.num(1))])]), p.ret([p.id("b"), p.str("inner-done")])]))])}[body]()
            A = lambda: [p.num(x) if isinstance(x, int) else (p.str(x) if x != "F" else p.func([], p.block([p.ret([p.str("from-F")])], ))) for x in args]
            if via == "create":
                ss = [p.local(["c"], [p.call(_co(p, "create"), [fn])]),
                      p.emit([p.str("r1"), p.call(_co(p, "resume"), [p.id("c")] + A())]),
                      p.emit([p.str("st"), p.call(_co(p, "status"), [p.id("c")]), p.call(_co(p, "running"), [])]),
                      p.emit([p.str("r2"), p.call(_co(p, "resume"), [p.id("c"), p.num(41), p.num(42)])]),
                      p.emit([p.str("st"), p.call(_co(p, "status"), [p.id("c")])]),
                      p.emit([p.str("r3"), p.call(_co(p, "resume"), [p.id("c")])])]
            else:
                ss = [p.local(["w"], [p.call(_co(p, "wrap"), [fn])]),
                      p.emit([p.str("w1"), p.call(p.id("pcall"), [p.id("w")] + A())]),
                      p.emit([p.str("run"), p.call(_co(p, "running"), [])]),
                      p.emit([p.str("w2"), p.call(p.id("pcall"), [p.id("w"), p.num(41), p.num(42)])]),
                      p.emit([p.str("w3"), p.call(p.id("pcall"), [p.id("w")])])]
            # the same from inside a Lua coroutine (the resumer is not the main thread)
            return ss + [p.emit([p.str("nested"), p.call(_co(p, "resume"), [p.call(_co(p, "create"), [p.func([], p.block(
                [p.local(["c2"], [p.call(_co(p, "create"), [fn])]),
                 p.emit([p.str("in"), p.call(_co(p, "resume"), [p.id("c2")] + A()), p.call(_co(p, "status"), [p.id("c2")])]),
                 p.ret([p.call(_co(p, "status"), [p.call(_co(p, "running"), [])])])]))])])])]
        mk(build)
    for body, args in (("select", [2, "a", "b", "c"]), ("select", ["#", 1, 2]), ("gret", [2, 7, 8, 9]), ("gret", [0]), ("type", [5]), ("type", []),
                       ("error", ["boom"]), ("error", []), ("pcall", ["F", 1]), ("yield", [5, 6]), ("yield", []), ("tostring", [12]), ("wrapfn", [10])):
        for via in ("create", "wrap"):
            host_body(body, args, via)
    # bodies with named parameters and '...', first resumed with fewer / exactly / more values than parameters
    def param_body(ps, va, nargs, via):
        def build(p):
            inside = [p.id(x) for x in ps] + ([p.call(p.id("select"), [p.str("#"), p.dots()]), p.dots()] if va else [])
            body = p.func(ps, p.block([p.emit([p.str("in")] + inside),
                                       p.local(["y"], [p.call(_co(p, "yield"), [p.str("y1")])]),
                                       p.emit([p.str("again"), p.id("y")] + [p.id(x) for x in ps] + ([p.call(p.id("select"), [p.str("#"), p.dots()])] if va else [])),
                                       p.ret([p.id(x) for x in ps][::-1])]), va=va, ud=va)
            args = [p.num(100 + i) for i in range(nargs)]
            if via == "create":
                return [p.local(["c"], [p.call(_co(p, "create"), [body])]),
                        p.emit([p.str("r1"), p.call(_co(p, "resume"), [p.id("c")] + args)]),
                        p.emit([p.str("r2"), p.call(_co(p, "resume"), [p.id("c"), p.str("Y")])]),
                        p.emit([p.str("st"), p.call(_co(p, "status"), [p.id("c")])])]
            return [p.local(["w"], [p.call(_co(p, "wrap"), [body])]),
                    p.emit([p.str("w1"), p.call(p.id("w"), args)]),
                    p.emit([p.str("w2"), p.call(p.id("w"), [p.str("Y")])])]
        mk(build)
    for ps in ([], ["a"], ["a", "b"], ["a", "b", "c"]):
        for va in (False, True):
            for nargs in range(0, len(ps) + 3):
                for via in ("create", "wrap"):
                    param_body(ps, va, nargs, via)
    # a coroutine created inside another coroutine outlives its creator (which returns, fails, or is abandoned suspended)
    def outlives(end, via):
        def build(p):
            inner_body = p.func([], p.block([p.local(["n"], [p.num(0)]), p.while_(p.true(), p.block([p.assign([p.id("n")], [p.bin("+", p.id("n"), p.num(1))]),
                                                                                                     p.callstat(p.call(_co(p, "yield"), [p.id("n")]))]))]))
            mk_inner = p.assign([p.id("inner")], [p.call(_co(p, "create"), [inner_body])])
            first = p.emit([p.str("inside"), p.call(_co(p, "resume"), [p.id("inner")])])
            tail = {"return": [p.ret([p.str("outer-done")])], "error": [p.callstat(p.call(p.id("error"), [p.str("outer-fails")]))],
                    "suspend": [p.callstat(p.call(_co(p, "yield"), [p.str("outer-parked")])), p.ret([p.str("never")])]}[end]
            outer_body = p.func([], p.block([mk_inner, first] + tail))
            ss = [p.local(["inner"], [])]
            if via == "create":
                ss += [p.local(["outer"], [p.call(_co(p, "create"), [outer_body])]), p.emit([p.str("outer"), p.call(_co(p, "resume"), [p.id("outer")])]),
                       p.emit([p.str("status"), p.call(_co(p, "status"), [p.id("outer")]), p.call(_co(p, "status"), [p.id("inner")])])]
            else:
                ss += [p.emit([p.str("outer"), p.call(p.id("pcall"), [p.call(_co(p, "wrap"), [outer_body])])]),
                       p.emit([p.str("status"), p.call(_co(p, "status"), [p.id("inner")])])]
            ss += [p.emit([p.str("later"), p.call(_co(p, "resume"), [p.id("inner")])]), p.emit([p.str("later"), p.call(_co(p, "resume"), [p.id("inner")])]),
                   p.emit([p.str("end"), p.call(_co(p, "status"), [p.id("inner")])])]
            return ss
        mk(build)
    for end in ("return", "error", "suspend"):
        for via in ("create", "wrap"):
            outlives(end, via)
    return out
