"""C13 helper: generated channel scenarios (one Lua script per process) and the
conversion of the per-process logs written by `vharness c13-chan` into the
records ChannelTrace.tla validates.  Only data movement: which behaviour is
admissible is decided by TLC."""
import random

PRELUDE = r'''
local C, log, ud, yield = C, c13log, c13ud, c13yield
local unpack, pcall, select = unpack, pcall, select
local function SEND(c, v)
  log("call", "send", c, v)
  local ok = pcall(C[c].send, C[c], v)
  log("ret", ok)
  return ok
end
local function RECV(c)
  log("call", "recv", c)
  local ok, a, b = pcall(C[c].receive, C[c])
  log("ret", ok, a, b)
  return ok, a, b
end
local function CLOSE(c)
  log("call", "close", c)
  local ok = pcall(C[c].close, C[c])
  log("ret", ok)
  return ok
end
local function SEL(spec)
  local n = #spec
  local cases = {}
  log("call", "select", n)
  for i = 1, n do
    local s = spec[i]
    log("case", s.d, s.c or 0, s.v, s.h and true or false)
    local h = nil
    if s.h then h = function(...) log("h", i, ...) end end
    if s.d == "recv" then cases[i] = {"|<-", C[s.c], h}
    elseif s.d == "send" then
      if h then cases[i] = {"<-|", C[s.c], s.v, h} else cases[i] = {"<-|", C[s.c], s.v} end
    else cases[i] = {"default", h} end
  end
  log("go")
  local ok, idx, v, rok = pcall(channel.select, unpack(cases, 1, n))
  log("ret", ok, idx, v, rok)
  return ok, idx, v, rok
end
local function RECVALL(c, n)
  for i = 1, n do
    local pok, rok = RECV(c)
    if not pok or not rok then break end
  end
end
'''

BAD = {"fn": "function() end", "ud": "ud()", "th": "coroutine.create(function() end)",
       "tm": "setmetatable({}, {})"}


def lit(v):
    """Lua source of a payload token"""
    t = v[0]
    if t == "n":
        return str(v[1])
    if t == "s":
        return '"%s"' % v[1]
    if t == "T":
        return "{%d}" % v[1]
    if t == "nil":
        return "nil"
    if t == "b":
        return "true" if v[1] else "false"
    return BAD[t]


class Scen:
    """builder for one scenario: per-process statement lists"""

    def __init__(self, rng, nproc, caps):
        self.rng = rng
        self.caps = caps
        self.body = [[] for _ in range(nproc)]
        self.nval = [0] * nproc
        self.nsend = 0

    def val(self, p, plain=False):
        """a fresh distinguishable payload of process p (1-based in the value)"""
        self.nval[p] += 1
        n = 100 * (p + 1) + self.nval[p]
        self.nsend += 1
        r = self.rng.random()
        if plain or r < 0.5:
            return ["n", n]
        if r < 0.75:
            return ["s", "v%d" % n]
        return ["T", n]

    def dull(self):
        self.nsend += 1
        return self.rng.choice([["nil"], ["b", True], ["b", False]])

    def bad(self):
        return [self.rng.choice(sorted(BAD))]

    def y(self, p, prob=0.3):
        if self.rng.random() < prob:
            self.body[p].append("yield(%d)" % self.rng.choice([0, 0, 1, 2, 5]))

    def send(self, p, c, v):
        self.y(p)
        self.body[p].append("SEND(%d, %s)" % (c, lit(v)))

    def recv(self, p, c):
        self.y(p)
        self.body[p].append("RECV(%d)" % c)

    def recvall(self, p, c, n):
        self.y(p)
        self.body[p].append("RECVALL(%d, %d)" % (c, n))

    def close(self, p, c):
        self.y(p)
        self.body[p].append("CLOSE(%d)" % c)

    def sel(self, p, cases):
        """cases: list of (d, c, v, h)"""
        self.y(p)
        parts = []
        for d, c, v, h in cases:
            f = ['d="%s"' % d]
            if d != "default":
                f.append("c=%d" % c)
            if d == "send":
                f.append("v=%s" % lit(v))
            if h:
                f.append("h=true")
            parts.append("{" + ", ".join(f) + "}")
        self.body[p].append("SEL({" + ", ".join(parts) + "})")

    def rand_cases(self, p, allow_bad=True):
        rng = self.rng
        nc = len(self.caps)
        k = rng.choice([1, 2, 2, 3])
        cases = []
        for _ in range(k):
            c = rng.randint(1, nc)
            if rng.random() < 0.5:
                cases.append(("recv", c, None, rng.random() < 0.3))
            else:
                r = rng.random()
                if allow_bad and r < 0.06:
                    v = self.bad()
                    cases.append(("send", c, v, False))
                elif r < 0.12:
                    cases.append(("send", c, self.dull(), False))    # no handler with dull payloads (nil)
                else:
                    cases.append(("send", c, self.val(p), rng.random() < 0.3))
        if rng.random() < 0.5:
            cases.insert(rng.randint(0, len(cases)), ("default", 0, None, rng.random() < 0.3))
        return cases

    def scripts(self):
        return [PRELUDE + "\n".join(b) + "\n" for b in self.body]

    def drain(self):
        lines = []
        for c in range(1, len(self.caps) + 1):
            lines.append("for i = 1, %d do local ok, idx, v, rok = SEL({{d=\"recv\", c=%d}, {d=\"default\"}}) "
                         "if not ok or idx ~= 1 or not rok then break end end" % (self.nsend + 2, c))
        return PRELUDE + "\n".join(lines) + "\n"


# ---- scenario families --------------------------------------------------------

def _caps(rng, nc):
    return [rng.choice([0, 0, 1, 2]) for _ in range(nc)]


def fam_pc(rng, nproc):
    """producers / consumers on channel 1, closed by the producer side"""
    caps = _caps(rng, 2)
    s = Scen(rng, nproc, caps)
    nprod = rng.randint(1, max(1, nproc - 1))
    prods, cons = list(range(nprod)), list(range(nprod, nproc))
    mode = rng.choice(["single-closer", "coordinated", "reckless"]) if nprod > 1 else "single-closer"
    per = rng.randint(1, 3 if nproc <= 4 else 2)
    total = 0
    for p in prods:
        for _ in range(per):
            s.send(p, 1, s.val(p))
            total += 1
    if mode == "single-closer":
        # exactly one producer closes; with several producers the others may hit a closed channel
        s.close(prods[-1], 1)
    elif mode == "coordinated":
        # every producer reports on channel 2, the last process closes channel 1 after all reports
        coord = cons[-1] if cons else prods[0]
        for p in prods:
            if p != coord:
                s.send(p, 2, s.val(p, plain=True))
        for p in prods:
            if p != coord:
                s.recv(coord, 2)
        s.close(coord, 1)
    else:
        for p in prods:
            if rng.random() < 0.5:
                s.close(p, 1)
    for p in cons:
        if rng.random() < 0.7:
            s.recvall(p, 1, total + 1)
        else:
            for _ in range(rng.randint(1, 2)):
                s.recv(p, 1)
    return s


def fam_rand(rng, nproc):
    """unstructured: every process gets a random list of operations (may block for good)"""
    nc = rng.choice([1, 2, 2, 3])
    caps = _caps(rng, nc)
    s = Scen(rng, nproc, caps)
    budget = 18 if nproc <= 5 else 16
    nops = max(1, min(5, budget // nproc))
    for p in range(nproc):
        for _ in range(rng.randint(1, nops)):
            r = rng.random()
            c = rng.randint(1, nc)
            if r < 0.30:
                s.send(p, c, s.val(p))
            elif r < 0.34:
                s.send(p, c, s.dull())
            elif r < 0.40:
                s.send(p, c, s.bad())
            elif r < 0.65:
                s.recv(p, c)
            elif r < 0.72:
                s.close(p, c)
            else:
                s.sel(p, s.rand_cases(p))
    return s


def fam_sel(rng, nproc):
    """select-heavy: senders offer on several channels at once, receivers listen on several,
    some poll with a default case"""
    nc = rng.choice([2, 2, 3])
    caps = _caps(rng, nc)
    s = Scen(rng, nproc, caps)
    half = max(1, nproc // 2)
    rounds = rng.randint(1, 3 if nproc <= 4 else 2)
    for p in range(nproc):
        for _ in range(rounds):
            cs = rng.sample(range(1, nc + 1), rng.randint(1, nc))
            if p < half:
                cases = [("send", c, s.val(p), rng.random() < 0.3) for c in cs]
            else:
                cases = [("recv", c, None, rng.random() < 0.3) for c in cs]
            if rng.random() < 0.35:
                cases.append(("default", 0, None, rng.random() < 0.3))
            rng.shuffle(cases)
            s.sel(p, cases)
    if rng.random() < 0.4:
        s.close(rng.randrange(nproc), rng.randint(1, nc))
    return s


def fam_bad(rng, nproc):
    """payload admissibility: every refused kind through send and through a select case, next
    to admissible payloads of every kind; a listener checks that nothing refused travels"""
    caps = [rng.choice([1, 2, 2]), rng.choice([0, 1])]
    s = Scen(rng, nproc, caps)
    kinds = sorted(BAD)
    rng.shuffle(kinds)
    for i, k in enumerate(kinds):
        p = i % max(1, nproc - 1)
        if rng.random() < 0.5:
            s.send(p, 1, [k])
        else:
            s.sel(p, [("send", 1, [k], False), ("default", 0, None, rng.random() < 0.5)])
        if rng.random() < 0.5:
            s.sel(p, [("recv", 2, None, False), ("send", rng.randint(1, 2), [rng.choice(kinds)], False)])
    p = rng.randrange(max(1, nproc - 1))
    for kind in ("T", "nil", "b"):
        if rng.random() < 0.6:
            if kind == "T":
                s.send(p, 1, ["T", s.val(p, plain=True)[1]])
            else:
                s.send(p, 1, s.dull())
    last = nproc - 1
    for _ in range(rng.randint(1, 3)):
        s.sel(last, [("recv", 1, None, rng.random() < 0.4), ("default", 0, None, False)])
    return s


FAMILIES = [("pc", fam_pc, 0.35), ("rand", fam_rand, 0.30), ("sel", fam_sel, 0.25), ("bad", fam_bad, 0.10)]


def gen_scenario(seed, sid, big=False):
    rng = random.Random(seed)
    r = rng.random()
    acc = 0.0
    for name, f, w in FAMILIES:
        acc += w
        if r < acc:
            break
    if big:
        nproc = rng.choice([6, 7, 8])
    else:
        nproc = rng.choice([2, 2, 3, 3, 3, 4, 4, 5])
    s = f(rng, nproc)
    return {"id": sid, "fam": name, "nproc": nproc, "caps": s.caps, "ctx": rng.random() < 0.5,
            "mklua": rng.random() < 0.5, "scripts": s.scripts(), "drain": s.drain(), "seed": seed}


# ---- logs -> ChannelTrace records ----------------------------------------------

NIL = ["nil"]


def _res(r="ok", idx=0, ok=False, v=None):
    return {"r": r, "idx": idx, "ok": ok, "v": v if v is not None else NIL}


def _isbool(t):
    return isinstance(t, list) and len(t) == 2 and t[0] == "b" and isinstance(t[1], bool)


def ops_of_log(entries):
    """one process log -> list of op records (uniform shape).  Raises ValueError on a log
    that is not call/case*/go/h*/ret shaped (harness problem, not a verdict)."""
    ops = []
    cur = None
    for e in entries:
        k, a = e["k"], e["a"]
        if k == "call":
            if cur is not None and not cur["done"]:
                raise ValueError("call while an operation is pending")
            name = a[0][1]
            cur = {"op": name, "c": 0, "v": NIL, "cases": [], "done": False, "res": _res(), "hs": []}
            if name == "send":
                cur["c"], cur["v"] = a[1][1], a[2]
            elif name in ("recv", "close"):
                cur["c"] = a[1][1]
            elif name != "select":
                raise ValueError("unknown op " + str(name))
            ops.append(cur)
        elif k == "case":
            cur["cases"].append({"d": a[0][1], "c": a[1][1], "v": a[2], "h": a[3][1]})
        elif k == "go":
            cur["go"] = True
        elif k == "h":
            cur["hs"].append({"i": a[0][1], "a": a[1:]})
        elif k == "ret":
            cur["done"] = True
            pok = a[0]
            if not _isbool(pok):
                raise ValueError("ret without pcall status")
            if not pok[1]:
                cur["res"] = _res("err")
            elif cur["op"] in ("send", "close"):
                cur["res"] = _res("ok")
            elif cur["op"] == "recv":
                if len(a) >= 3 and _isbool(a[1]):
                    cur["res"] = _res("ok", 0, a[1][1], a[2])
                else:
                    cur["res"] = _res("malformed")
            else:
                if len(a) >= 4 and a[1][0] == "n" and _isbool(a[3]):
                    cur["res"] = _res("ok", a[1][1], a[3][1], a[2])
                else:
                    cur["res"] = _res("malformed")
        else:
            raise ValueError("unknown log entry " + str(k))
    # a select whose "go" entry is missing was never issued: the log call that follows raises
    # once the logs are frozen, so the script stopped before calling channel.select
    if ops and ops[-1]["op"] == "select" and not ops[-1]["done"] and not ops[-1].get("go"):
        ops.pop()
    for o in ops:
        o.pop("go", None)
    return ops


def record_of(scen, out):
    """scenario + harness output -> ChannelTrace record"""
    procs = [{"after": False, "ops": ops_of_log(l)} for l in out["logs"]]
    procs.append({"after": True, "ops": ops_of_log(out["drain"])})
    return {"id": scen["id"], "caps": scen["caps"], "procs": procs}
