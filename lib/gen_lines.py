"""C17 families: one failing construct in every statement kind under several
layouts; debug.getinfo lines; debug.getlocal/getupvalue enumeration and set."""
import random
from luagen import Prog

FAILS = ["arith_nil", "concat_nil", "cmp_mixed", "call_nil", "index_nil", "unm_str", "error1", "error2", "error_tab", "method_nil", "callfield_nil"]
PLACES = ["local", "assign", "assign_field", "callarg", "return", "if_cond", "elseif_cond", "while_cond", "repeat_cond",
          "fornum_bound", "forin_exp", "table_item", "index_key", "andor", "nested_call", "forin_iter", "forin_iter2"]


def _fail_expr(p, kind):
    if kind == "arith_nil":
        return p.bin("+", p.id("nilv"), p.num(1))
    if kind == "concat_nil":
        return p.bin("..", p.str("s"), p.id("nilv"))
    if kind == "cmp_mixed":
        return p.bin("<", p.num(1), p.str("x"))
    if kind == "call_nil":
        return p.call(p.id("nilv"), [p.num(1)])
    if kind == "index_nil":
        return p.index(p.id("nilv"), p.num(1))
    if kind == "unm_str":
        return p.un("-", p.str("abc"))
    if kind == "error1":
        return p.call(p.id("error"), [p.str("E1")])
    if kind == "error2":
        return p.call(p.id("thrower2"), [])
    if kind == "error_tab":
        return p.call(p.id("error"), [p.id("errtab")])
    if kind == "method_nil":
        return p.method(p.id("obj"), "nomethod", [p.num(1)])
    if kind == "callfield_nil":
        return p.call(p.field(p.id("obj"), "nofield"), [])


def line_case(rng, fail, place, npre):
    """the failing construct sits in statement `place` of a function run under pcall,
    after npre unrelated statements (so the line varies)"""
    p = Prog()
    ss = [p.local(["nilv", "errtab", "obj"], [p.nil(), p.table([]), p.table([("k", p.add("str", s=[118], name=True), p.num(1))])]),
          p.emit([p.id("errtab")]),
          p.localfunction("thrower2", p.func([], p.block([p.callstat(p.call(p.id("error"), [p.str("E2"), p.num(2)]))])))]
    body = []
    if rng.random() < 0.5:
        # the operands of the failing construct are registers of this very function (not upvalues):
        # the construct's first instruction is then the one that fails
        body.append(p.local(["nilv", "errtab", "obj", "thrower2"], [p.id("nilv"), p.id("errtab"), p.id("obj"), p.id("thrower2")]))
    for i in range(npre):
        c = rng.random()
        if c < 0.2:
            body.append(p.local(["pre%d" % i], [p.num(i)]))
        elif c < 0.35:
            body.append(p.emit([p.str("pre"), p.num(i)]))
        elif c < 0.45:
            body.append(p.do(p.block([p.local(["q"], [p.num(i)]), p.emit([p.id("q")])])))
        elif c < 0.6:       # statements ending in and/or, folded constants, concatenations, comparisons: the code
            body.append(p.local(["pre%d" % i], [p.or_(p.field(p.id("obj"), "v"), p.num(10))]))       # generator pops / merges
        elif c < 0.68:      # instructions at their end
            body.append(p.local(["pre%d" % i], [p.and_(p.id("nilv"), p.num(1))]))
        elif c < 0.76:
            body.append(p.assign([p.id("gpre")], [p.or_(p.id("gpre"), p.bin("+", p.num(2), p.num(3)))]))
        elif c < 0.84:
            body.append(p.local(["pre%d" % i], [p.bin("..", p.str("a"), p.bin("..", p.str("b"), p.num(i)))]))
        elif c < 0.92:
            body.append(p.local(["pre%d" % i], [p.bin("==", p.field(p.id("obj"), "v"), p.num(1))]))
        else:
            body.append(p.if_([p.un("not", p.id("obj"))], [p.block([p.emit([p.str("never")])])]))
    e = lambda: _fail_expr(p, fail)
    ok_tail = p.emit([p.str("not reached")])
    if place == "local":
        body.append(p.local(["x", "y"], [p.num(1), e()]))
    elif place == "assign":
        body += [p.local(["x"], [p.num(0)]), p.assign([p.id("x"), p.id("gq")], [e(), p.num(2)])]
    elif place == "assign_field":
        body.append(p.assign([p.field(p.id("obj"), "w")], [e()]))
    elif place == "callarg":
        body.append(p.emit([p.num(1), e(), p.num(2)]))
    elif place == "return":
        body.append(p.ret([p.num(1), e()]))
    elif place == "if_cond":
        body.append(p.if_([e()], [p.block([p.emit([p.str("T")])])], p.block([p.emit([p.str("F")])])))
    elif place == "elseif_cond":
        body.append(p.if_([p.false(), e()], [p.block([p.emit([p.str("A")])]), p.block([p.emit([p.str("B")])])]))
    elif place == "while_cond":
        body.append(p.while_(e(), p.block([p.brk()])))
    elif place == "repeat_cond":
        body.append(p.repeat(p.block([p.emit([p.str("body")])]), e()))
    elif place == "fornum_bound":
        body.append(p.fornum("i", p.num(1), e(), 0, p.block([p.emit([p.id("i")])])))
    elif place == "forin_exp":
        body.append(p.forin(["k", "v"], [p.call(p.id("pairs"), [e()])], p.block([p.emit([p.id("k")])])))
    elif place in ("forin_iter", "forin_iter2"):
        # the failure happens in the ITERATOR CALL the loop makes (first call / second call), the loop body spans lines
        if fail == "call_nil":
            it = p.id("nilv") if place == "forin_iter" else p.func(["s", "c"], p.block([p.ret([p.num(1)])]))
            loop = p.forin(["k", "v"], [it] + ([] if place == "forin_iter" else [p.nil(), p.nil()]), p.block([p.emit([p.str("body"), p.id("k")]), p.assign([p.id("gq")], [p.id("nilv")]), p.callstat(p.call(p.id("gq"), []))]))
        else:
            first = [] if place == "forin_iter" else [p.if_([p.bin("==", p.id("c"), p.nil())], [p.block([p.ret([p.num(1)])])])]
            thrower = p.func(["s", "c"], p.block(first + ([p.callstat(p.call(p.id("error"), [p.str("E2"), p.num(2)]))] if fail == "error2" else [p.ret([e()])])))
            body.append(p.local(["iterf"], [thrower]))
            loop = p.forin(["k", "v"], [p.id("iterf")], p.block([p.emit([p.str("body"), p.id("k")]), p.local(["pad"], [p.num(0)]), p.emit([p.id("pad")])]))
        body.append(loop)
    elif place == "table_item":
        body.append(p.local(["tt"], [p.table([("p", p.num(1)), ("p", e()), ("k", p.add("str", s=[122], name=True), p.num(3))])]))
    elif place == "index_key":
        body.append(p.local(["x"], [p.index(p.id("obj"), e())]))
    elif place == "andor":
        body.append(p.local(["x"], [p.or_(p.and_(p.true(), e()), p.num(3))]))
    elif place == "nested_call":
        body.append(p.emit([p.call(p.id("tostring"), [p.call(p.id("type"), [e()])])]))
    if place != "return":          # a return must be the last statement of its block
        body.append(ok_tail)
    ss.append(p.localfunction("run", p.func([], p.block(body))))
    ss.append(p.emit([p.str("r"), p.call(p.id("pcall"), [p.id("run")])]))
    ss.append(p.emit([p.str("x"), p.call(p.id("xpcall"), [p.id("run"), p.func(["m"], p.block([p.ret([p.id("m")])]))])]))
    return p, p.block(ss)


def _dbg(p, name):
    return p.field(p.id("debug"), name)


def helpers(p):
    """Lua helpers: named locals of a level (temporaries filtered), upvalues by name, set by name"""
    S = p.str
    # locals(level): name1, val1, name2, val2, ...
    loop_body = p.block([
        p.local(["name", "val"], [p.call(_dbg(p, "getlocal"), [p.bin("+", p.id("level"), p.num(1)), p.id("i")])]),
        p.if_([p.bin("==", p.id("name"), p.nil())], [p.block([p.brk()])]),
        p.if_([p.bin("~=", p.call(p.field(p.id("string"), "sub"), [p.id("name"), p.num(1), p.num(1)]), S("("))], [p.block([
            p.assign([p.id("n")], [p.bin("+", p.id("n"), p.num(1))]), p.assign([p.index(p.id("out"), p.id("n"))], [p.id("name")]),
            p.assign([p.id("n")], [p.bin("+", p.id("n"), p.num(1))]), p.assign([p.index(p.id("out"), p.id("n"))], [p.or_(p.and_(p.bin("==", p.id("val"), p.nil()), S("<nil>")), p.id("val"))])])]),
        p.assign([p.id("i")], [p.bin("+", p.id("i"), p.num(1))])])
    locals_fn = p.func(["level"], p.block([p.local(["out", "n", "i"], [p.table([]), p.num(0), p.num(1)]),
                                           p.while_(p.bin("<", p.id("i"), p.num(60)), loop_body),
                                           p.ret([p.call(p.id("unpack"), [p.id("out"), p.num(1), p.id("n")])])]))
    # setl(level, name, v): sets the LAST local with that name (the visible one); returns its index or nil
    setl_body = p.block([
        p.local(["nm"], [p.call(_dbg(p, "getlocal"), [p.bin("+", p.id("level"), p.num(1)), p.id("i")])]),
        p.if_([p.bin("==", p.id("nm"), p.nil())], [p.block([p.brk()])]),
        p.if_([p.bin("==", p.id("nm"), p.id("name"))], [p.block([p.assign([p.id("found")], [p.id("i")])])]),
        p.assign([p.id("i")], [p.bin("+", p.id("i"), p.num(1))])])
    setl_fn = p.func(["level", "name", "v"], p.block([p.local(["i", "found"], [p.num(1), p.nil()]),
                                                      p.while_(p.bin("<", p.id("i"), p.num(60)), setl_body),
                                                      p.if_([p.id("found")], [p.block([p.local(["r"], [p.call(_dbg(p, "setlocal"), [p.bin("+", p.id("level"), p.num(1)), p.id("found"), p.id("v")])]), p.ret([p.id("r")])])]),
                                                      p.ret([p.nil()])]))
    # ups(f): table name -> value ; setup(f, name, v)
    ups_body = p.block([p.local(["nm", "val"], [p.call(_dbg(p, "getupvalue"), [p.id("f"), p.id("i")])]),
                        p.if_([p.bin("==", p.id("nm"), p.nil())], [p.block([p.brk()])]),
                        p.assign([p.index(p.id("out"), p.id("nm"))], [p.or_(p.and_(p.bin("==", p.id("val"), p.nil()), S("<nil>")), p.id("val"))]),
                        p.assign([p.id("cnt")], [p.bin("+", p.id("cnt"), p.num(1))]),
                        p.assign([p.id("i")], [p.bin("+", p.id("i"), p.num(1))])])
    ups_fn = p.func(["f"], p.block([p.local(["out", "i", "cnt"], [p.table([]), p.num(1), p.num(0)]),
                                    p.while_(p.bin("<", p.id("i"), p.num(60)), ups_body),
                                    p.assign([p.field(p.id("out"), "COUNT")], [p.id("cnt")]),
                                    p.ret([p.id("out")])]))
    setup_body = p.block([p.local(["nm"], [p.call(_dbg(p, "getupvalue"), [p.id("f"), p.id("i")])]),
                          p.if_([p.bin("==", p.id("nm"), p.nil())], [p.block([p.brk()])]),
                          p.if_([p.bin("==", p.id("nm"), p.id("name"))], [p.block([p.local(["r"], [p.call(_dbg(p, "setupvalue"), [p.id("f"), p.id("i"), p.id("v")])]), p.ret([p.id("r")])])]),
                          p.assign([p.id("i")], [p.bin("+", p.id("i"), p.num(1))])])
    setup_fn = p.func(["f", "name", "v"], p.block([p.local(["i"], [p.num(1)]), p.while_(p.bin("<", p.id("i"), p.num(60)), setup_body), p.ret([p.nil()])]))
    # probe(level): stores the locals of `level` in the global `probed`; used as a call STATEMENT so that
    # the call can be the very last instruction of a block (scope end boundary)
    probe_fn = p.func(["level"], p.block([p.assign([p.id("probed")], [p.table([("p", p.call(p.id("locals"), [p.bin("+", p.id("level"), p.num(1))]))])]),
                                          p.assign([p.id("nprobed")], [p.call(p.id("select"), [p.str("#"), p.call(p.id("locals"), [p.bin("+", p.id("level"), p.num(1))])])])]))
    return [p.localfunction("locals", locals_fn), p.localfunction("setl", setl_fn),
            p.localfunction("ups", ups_fn), p.localfunction("setup", setup_fn), p.localfunction("probe", probe_fn)]


def scope_case(rng):
    """random nesting of blocks/loops/functions declaring locals (with shadowing);
    at random points: emit(locals(1)), setl(1, name, v), and closures queried with ups()"""
    p = Prog()
    ss = helpers(p)
    counter = [0]
    names_pool = ["a", "b", "c", "x", "y"]
    mm_ok = [False]

    def gen_block(depth, visible):
        out = []
        vis = list(visible)
        for _ in range(rng.randint(2, 4)):
            c = rng.random()
            if c < 0.35:
                nm = rng.choice(names_pool)
                counter[0] += 1
                out.append(p.local([nm], [p.num(counter[0])]))
                vis.append(nm)
            elif c < 0.55:
                out.append(p.emit([p.str("L")] + [p.call(p.id("locals"), [p.num(1)])]))
            elif c < 0.65 and vis:
                nm = rng.choice(vis)
                counter[0] += 1
                out.append(p.emit([p.str("set"), p.call(p.id("setl"), [p.num(1), p.str(nm), p.num(1000 + counter[0])]), p.id(nm)]))
            elif c < 0.75 and depth > 0:
                out.append(p.assign([p.id("probed"), p.id("nprobed")], [p.table([]), p.num(0)]))
                out.append(p.do(p.block(gen_block(depth - 1, vis))))
                out.append(p.emit([p.str("P"), p.id("nprobed"), p.call(p.id("unpack"), [p.id("probed"), p.num(1), p.id("nprobed")])]))
                if mm_ok[0] and rng.random() < 0.6:
                    # the FIRST instruction after the block calls out by itself (operands already in registers):
                    # an arithmetic / unary / index event on the local mm, whose handler looks at this frame
                    ev = rng.choice(["add", "unm", "index", "concat"])
                    e = {"add": lambda: p.bin("+", p.id("mm"), p.id("mm")), "unm": lambda: p.un("-", p.id("mm")),
                         "index": lambda: p.index(p.id("mm"), p.id("mm")), "concat": lambda: p.bin("..", p.id("mm"), p.id("mm"))}[ev]()
                    out.insert(len(out) - 1, p.assign([p.id("gsink")], [e]))
            elif c < 0.82 and depth > 0:
                out.append(p.fornum("i", p.num(1), p.num(2), 0, p.block(gen_block(depth - 1, vis + ["i"]))))
            elif c < 0.88 and depth > 0:
                out.append(p.forin(["k", "v"], [p.call(p.id("ipairs"), [p.table([("p", p.num(7))])])], p.block(gen_block(depth - 1, vis + ["k", "v"]))))
            elif c < 0.95 and depth > 0 and vis:
                # closure over some visible locals: query and set its upvalues by name
                used = rng.sample(vis, min(len(vis), rng.randint(1, 2)))
                fn = p.func(["p1"], p.block([p.emit([p.str("Lf")] + [p.call(p.id("locals"), [p.num(1)])]),
                                             p.emit([p.str("L2")] + [p.call(p.id("locals"), [p.num(2)])]),
                                             p.ret([p.id(used[0])] + [p.id(u) for u in used[1:]])]))
                fname = "f%d" % counter[0]
                counter[0] += 1
                out.append(p.local([fname], [fn]))
                vis.append(fname)
                out.append(p.local(["u"], [p.call(p.id("ups"), [p.id(fname)])]))
                vis.append("u")
                out.append(p.emit([p.str("U"), p.field(p.id("u"), "COUNT")] + [p.index(p.id("u"), p.str(x)) for x in sorted(set(used))]))
                out.append(p.emit([p.str("setup"), p.call(p.id("setup"), [p.id(fname), p.str(used[0]), p.num(5000 + counter[0])]), p.id(used[0]), p.call(p.id(fname), [p.num(1)])]))
            else:
                out.append(p.emit([p.str("v")] + [p.id(v) for v in vis[-2:]]))
        if rng.random() < 0.5:
            out.append(p.callstat(p.call(p.id("probe"), [p.num(1)])))      # last instruction of this block
        return out

    def after_probe():
        return p.emit([p.str("P"), p.id("nprobed"), p.call(p.id("unpack"), [p.id("probed"), p.num(1), p.id("nprobed")])])
    mm_ok[0] = True
    h = lambda: p.func([], p.block([p.callstat(p.call(p.id("probe"), [p.num(2)])), p.ret([p.num(0)])]))
    mmdecl = p.local(["mm"], [p.call(p.id("setmetatable"), [p.table([]), p.table([("k", p.add("str", s=list(b"__add"), name=True), h()), ("k", p.add("str", s=list(b"__unm"), name=True), h()),
                                                                                 ("k", p.add("str", s=list(b"__index"), name=True), h()), ("k", p.add("str", s=list(b"__concat"), name=True), h())])])])
    # variables are numbered from 1: index 0 and negative indexes name nothing, reading them gives nil and setting them
    # changes nothing (the slots under a frame hold its function and its caller's values)
    nonpos = lambda tag: [p.emit([p.str(tag), p.call(_dbg(p, "getlocal"), [p.num(1), p.num(0)]), p.call(_dbg(p, "getlocal"), [p.num(1), p.num(-1)]),
                                  p.call(_dbg(p, "setlocal"), [p.num(1), p.num(0), p.str("bad")]), p.call(_dbg(p, "setlocal"), [p.num(1), p.num(-rng.randint(1, 3)), p.str("bad")]),
                                  p.call(_dbg(p, "getupvalue"), [p.id("probe"), p.num(0)]), p.call(_dbg(p, "setupvalue"), [p.id("probe"), p.num(-1), p.str("bad")])]),
                          p.emit([p.str(tag + "-intact"), p.id("pa"), p.id("pb"), p.call(p.id("type"), [p.id("probe")])])]
    body = [mmdecl] + nonpos("nonpos-entry") + gen_block(2, ["mm"]) + nonpos("nonpos-exit")
    main_fn = p.func(["pa", "pb"], p.block(body), va=rng.random() < 0.3, ud=False)
    ss.append(p.localfunction("main", main_fn))
    ss.append(p.callstat(p.call(p.id("main"), [p.num(11), p.num(22), p.num(33)])))
    return p, p.block(ss)


def info_case(rng):
    """debug.getinfo: currentline at levels 1 and 2, linedefined/lastlinedefined of functions"""
    p = Prog()
    ss = []
    nfun = rng.randint(2, 4)
    for i in range(nfun):
        pad = [p.local(["z%d" % j], [p.num(j)]) for j in range(rng.randint(0, 3))]
        inner = pad + [p.emit([p.str("cur%d" % i), p.field(p.call(_dbg(p, "getinfo"), [p.num(1), p.str("l")]), "currentline"),
                               p.field(p.call(_dbg(p, "getinfo"), [p.num(2), p.str("l")]), "currentline")]),
                       p.local(["info"], [p.call(_dbg(p, "getinfo"), [p.num(1), p.str("S")])]),
                       p.emit([p.str("def%d" % i), p.field(p.id("info"), "linedefined"), p.field(p.id("info"), "lastlinedefined")])]
        if i > 0 and rng.random() < 0.6:
            inner.append(p.callstat(p.call(p.id("fn%d" % (i - 1)), [])))
        # every way of writing a function: parameter lists (which the 'end' line must not depend on), statement sugar
        ps = rng.choice([[], [], ["a"], ["a", "b", "c"]])
        va = rng.random() < 0.3
        form = rng.random()
        f = p.func(ps, p.block(inner), va=va, ud=va)
        if form < 0.4:
            ss.append(p.localfunction("fn%d" % i, f))
        elif form < 0.55:
            ss.append(p.local(["fn%d" % i], [f]))
        elif form < 0.7:
            ss += [p.local(["fn%d" % i], []), p.assign([p.id("fn%d" % i)], [f])]
        elif form < 0.85:
            ss += [p.local(["fn%d" % i], []), p.funcstat(p.id("fn%d" % i), f)]          # function fnN(...) on a local name
        else:
            f = p.func(["self"] + ps, p.block(inner), va=va, ud=va)
            ss += [p.local(["holder%d" % i], [p.table([])]), p.funcstat(p.field(p.id("holder%d" % i), "m"), f, method=True),
                   p.local(["fn%d" % i], [p.field(p.id("holder%d" % i), "m")])]
        if rng.random() < 0.5:
            ss.append(p.emit([p.str("gap")]))
    for i in range(nfun):
        if rng.random() < 0.4:      # the same function as the body of a coroutine: its description does not depend on who runs it
            ctor = rng.choice(["wrap", "create"])
            # the body describes itself (the bottom frame of its thread) and calls fnN, which looks at it from level 2
            bodyf = p.func([], p.block([p.local(["me"], [p.call(_dbg(p, "getinfo"), [p.num(1), p.str("S")])]),
                                        p.emit([p.str("body"), p.field(p.id("me"), "linedefined"), p.field(p.id("me"), "lastlinedefined"),
                                                p.field(p.call(_dbg(p, "getinfo"), [p.num(1), p.str("l")]), "currentline")]),
                                        p.callstat(p.call(p.id("fn%d" % i), [])),
                                        p.emit([p.str("body-after"), p.field(p.call(_dbg(p, "getinfo"), [p.num(1), p.str("S")]), "linedefined")])]))
            if ctor == "wrap":
                ss.append(p.callstat(p.call(p.call(p.field(p.id("coroutine"), "wrap"), [bodyf]), [])))
            else:
                ss.append(p.emit([p.str("co"), p.call(p.field(p.id("coroutine"), "resume"), [p.call(p.field(p.id("coroutine"), "create"), [bodyf])])]))
        ss.append(p.callstat(p.call(p.id("fn%d" % i), [])))
        ss.append(p.local(["fi"], [p.call(_dbg(p, "getinfo"), [p.id("fn%d" % i), p.str("S")])]))
        ss.append(p.emit([p.str("of%d" % i), p.field(p.id("fi"), "linedefined"), p.field(p.id("fi"), "lastlinedefined")]))
    # the line of the loop statement as seen from the iterator it calls (generic for) and from a __lt handler of its bounds
    ss.append(p.localfunction("liter", p.func(["s", "c"], p.block([p.emit([p.str("iter-sees"), p.field(p.call(_dbg(p, "getinfo"), [p.num(2), p.str("l")]), "currentline")]),
                                                                   p.if_([p.bin("<", p.or_(p.id("c"), p.num(0)), p.num(2))], [p.block([p.ret([p.bin("+", p.or_(p.id("c"), p.num(0)), p.num(1))])])]),
                                                                   p.ret([p.nil()])]))))
    ss.append(p.forin(["k"], [p.id("liter")], p.block([p.emit([p.str("in-loop"), p.id("k")]), p.local(["zz"], [p.id("k")]), p.emit([p.id("zz")])])))
    ss.append(p.emit([p.str("main"), p.field(p.call(_dbg(p, "getinfo"), [p.num(1), p.str("l")]), "currentline")]))
    # the chunk itself is a function defined "on line 0", wherever its first statement is; seen from level 1 and from a callee
    ss.append(p.emit([p.str("chunk-defined"), p.field(p.call(_dbg(p, "getinfo"), [p.num(1), p.str("S")]), "linedefined")]))
    ss.append(p.localfunction("up", p.func([], p.block([p.emit([p.str("chunk-defined-from-callee"), p.field(p.call(_dbg(p, "getinfo"), [p.num(2), p.str("S")]), "linedefined")])]))))
    ss.append(p.callstat(p.call(p.id("up"), [])))
    return p, p.block(ss)


def xthread_case(variant):
    """debug.setupvalue / getupvalue / setlocal on variables that live in ANOTHER thread's registers (still open there)"""
    p = Prog()
    co = lambda n: p.field(p.id("coroutine"), n)
    ss = helpers(p)
    ss += [p.local(["pad1", "pad2"], [p.num(901), p.num(902)]),
           p.local(["x"], [p.num(1)]),
           p.localfunction("f", p.func([], p.block([p.ret([p.id("x")])]))),
           p.local(["pad3", "pad4", "pad5"], [p.num(903), p.num(904), p.num(905)])]
    body = [p.local(["q1", "q2", "q3", "q4", "q5", "q6"], [p.num(801), p.num(802), p.num(803), p.num(804), p.num(805), p.num(806)]),
            p.local(["y"], [p.num(10)]),
            p.localfunction("g", p.func([], p.block([p.ret([p.id("y")])]))),
            # from inside the coroutine: change the main thread's open upvalue
            p.emit([p.str("co-setup"), p.call(p.id("setup"), [p.id("f"), p.str("x"), p.num(2)]), p.call(p.id("f"), []), p.field(p.call(p.id("ups"), [p.id("f")]), "x")]),
            p.emit([p.str("co-locals"), p.id("q1"), p.id("q2"), p.id("q3"), p.id("q4"), p.id("q5"), p.id("q6"), p.id("y")]),
            p.local(["back"], [p.call(co("yield"), [p.id("g")])]),
            p.emit([p.str("co-after"), p.id("y"), p.call(p.id("g"), []), p.id("back"), p.id("q1"), p.id("q2"), p.id("q3"), p.id("q4"), p.id("q5"), p.id("q6")])]
    if variant == "closed":
        body.append(p.ret([p.id("g")]))
    ss += [p.local(["c"], [p.call(co("create"), [p.func([], p.block(body))])]),
           p.local(["ok", "g"], [p.call(co("resume"), [p.id("c")])]),
           p.emit([p.str("main-1"), p.id("ok"), p.id("x"), p.call(p.id("f"), []), p.id("pad1"), p.id("pad2"), p.id("pad3"), p.id("pad4"), p.id("pad5")]),
           # from the main thread: change the suspended coroutine's open upvalue
           p.emit([p.str("main-setup"), p.call(p.id("setup"), [p.id("g"), p.str("y"), p.num(20)]), p.call(p.id("g"), []), p.field(p.call(p.id("ups"), [p.id("g")]), "y")]),
           p.emit([p.str("main-2"), p.id("x"), p.id("pad1"), p.id("pad2"), p.id("pad3"), p.id("pad4"), p.id("pad5")])]
    if variant == "closed":
        ss += [p.local(["ok2", "g2"], [p.call(co("resume"), [p.id("c"), p.str("B")])]),
               p.emit([p.str("dead"), p.call(co("status"), [p.id("c")]), p.call(p.id("setup"), [p.id("g2"), p.str("y"), p.num(30)]), p.call(p.id("g2"), []), p.call(p.id("g"), [])])]
    else:
        ss += [p.emit([p.str("main-3"), p.call(co("resume"), [p.id("c"), p.str("B")])])]
    ss.append(p.emit([p.str("end"), p.id("x"), p.call(p.id("f"), []), p.id("pad1"), p.id("pad5")]))
    return p, p.block(ss)


def taillevel_case(ntail, query, rng, beyond=None):
    """levels beyond activations lost to proper tail calls: outer calls f, f calls the first link, ntail links tail-call on
    to k, k asks about level 1, the level of f (2 + ntail) and the level of outer (3 + ntail)"""
    p = Prog()
    ss = []
    levels = [1, 2 + ntail, 3 + ntail]
    if query == "info":
        kbody = [p.local(["i"], [p.call(_dbg(p, "getinfo"), [p.id("L"), p.str("l")])]), p.local(["s"], [p.call(_dbg(p, "getinfo"), [p.id("L"), p.str("S")])]),
                 p.emit([p.str("k"), p.id("L"), p.field(p.id("i"), "currentline"), p.field(p.id("s"), "linedefined"), p.field(p.id("s"), "lastlinedefined")]),
                 p.ret([p.str("k-done")])]
    elif query == "local":
        kbody = [p.local(["kown"], [p.str("k-local")]), p.emit([p.str("k"), p.id("L"), p.call(_dbg(p, "getlocal"), [p.id("L"), p.num(1)]), p.call(_dbg(p, "getlocal"), [p.id("L"), p.num(2)])]),
                 p.ret([p.str("k-done")])]
    else:
        kbody = [p.callstat(p.call(p.id("error"), [p.str("E"), p.id("L")])), p.ret([p.str("not-reached")])]
    ss.append(p.localfunction("k", p.func(["L"], p.block(kbody))))
    prev = "k"
    for j in range(ntail):
        nm = "t%d" % j
        pad = [p.local(["pad%d" % j], [p.num(j)])] if rng.random() < 0.5 else []
        ss.append(p.localfunction(nm, p.func(["L"], p.block(pad + [p.ret([p.call(p.id(prev), [p.id("L")])])]))))
        prev = nm
    ss.append(p.localfunction("f", p.func(["L"], p.block([p.local(["marker"], [p.str("in-f")]), p.local(["r"], [p.call(p.id(prev), [p.id("L")])]),
                                                          p.emit([p.str("f-after"), p.id("r"), p.id("marker")]), p.ret([p.id("r")])]))))
    ss.append(p.localfunction("outer", p.func(["L"], p.block([p.local(["om"], [p.str("in-outer")]), p.local(["r2"], [p.call(p.id("f"), [p.id("L")])]), p.ret([p.id("r2"), p.id("om")])]))))
    for L in levels:
        ss.append(p.emit([p.str("run"), p.num(L), p.call(p.id("pcall"), [p.id("outer"), p.num(L)])]))
    if beyond == "thread":        # outer is the body of a coroutine: level 4 + ntail has no activation in that thread
        for L in (3 + ntail, 4 + ntail, 5 + ntail):
            ss.append(p.emit([p.str("co"), p.num(L), p.call(p.field(p.id("coroutine"), "resume"), [p.call(p.field(p.id("coroutine"), "create"), [p.id("outer")]), p.num(L)])]))
    elif beyond == "chunk":       # the chunk is level 4 + ntail; one further there is nothing: the message is raised as it is
        ss.append(p.callstat(p.call(p.id("outer"), [p.num(5 + ntail)])))
    elif beyond == "chunk-level": # the chunk's own level: the position of this call statement
        ss.append(p.callstat(p.call(p.id("outer"), [p.num(4 + ntail)])))
    return p, p.block(ss)


def forprep_case(which, bad, nbody, rng):
    """a numeric for whose init / limit / step is not a number at run time and whose body spans several lines: the error
    names the line of the loop header (the statement being executed), not a line of the body it never entered"""
    p = Prog()
    badv = {"table": lambda: p.table([]), "nil": lambda: p.nil(), "word": lambda: p.str("x"), "bool": lambda: p.true(), "func": lambda: p.id("emit")}[bad]
    ss = [p.local(["lo", "hi", "st"], [p.num(1), p.num(3), p.num(1)]), p.emit([p.str("start")])]
    for _ in range(rng.randint(0, 3)):
        ss.append(p.local(["pre%d" % len(ss)], [p.num(len(ss))]))
    ss.append(p.assign([p.id({"init": "lo", "limit": "hi", "step": "st"}[which])], [badv()]))
    body = [p.emit([p.str("body"), p.id("i")])] + [p.local(["b%d" % k], [p.bin("+", p.id("i"), p.num(k))]) for k in range(nbody)] + [p.emit([p.str("body-end")])]
    loop = p.fornum("i", p.id("lo"), p.id("hi"), p.id("st"), p.block(body))
    where = rng.choice(["chunk", "function", "pcall"])
    if where == "chunk":
        ss.append(loop)
    elif where == "function":
        ss += [p.localfunction("run", p.func([], p.block([p.local(["pad"], [p.num(0)]), loop, p.emit([p.str("not-reached")])]))), p.callstat(p.call(p.id("run"), []))]
    else:
        ss.append(p.emit([p.str("caught"), p.call(p.id("pcall"), [p.func([], p.block([loop]))])]))
        ss.append(p.emit([p.str("after")]))
    return p, p.block(ss)
