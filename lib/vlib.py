"""Shared plumbing for the /verif checks: harness build, TLC runs, verdict
protocol, findings, evidence.  Standard library only."""
import atexit, hashlib, json, os, re, shutil, subprocess, sys, tempfile, time

ROOT = os.path.dirname(os.path.dirname(os.path.abspath(__file__)))
REPO = os.environ.get("VERIF_REPO", "/repo")
SPECS = os.path.join(ROOT, "specs")
HARNESS = os.path.join(ROOT, "harness")
# evidence and replay files describe /repo; a run pointed at another tree (VERIF_REPO, used to try
# seeded changes) keeps its output away from them
_ALT = os.path.abspath(REPO) != "/repo"
_ALTDIR = os.path.join(tempfile.gettempdir(), "verif-alt-" + hashlib.sha1(os.path.abspath(REPO).encode()).hexdigest()[:10])
EVIDENCE = os.environ.get("VERIF_EVIDENCE_DIR") or (os.path.join(_ALTDIR, "evidence") if _ALT else os.path.join(ROOT, "evidence"))
REPLAYS = os.environ.get("VERIF_REPLAY_DIR") or (os.path.join(_ALTDIR, "replays") if _ALT else os.path.join(ROOT, "replays"))
TLA_CP = "/opt/veriftools/tla/tla2tools.jar:/opt/veriftools/tla/CommunityModules-deps.jar"
NCPU = os.cpu_count() or 4

GOENV = dict(os.environ, GOFLAGS="-mod=mod", GOPROXY="off", GOSUMDB="off", GOTOOLCHAIN="local")


class Infra(Exception):
    """Infrastructure failure (exit 2): never a verdict about the property."""


_scratch = None


def scratch():
    global _scratch
    if _scratch is None:
        _scratch = tempfile.mkdtemp(prefix="verif-")
        atexit.register(lambda: shutil.rmtree(_scratch, ignore_errors=True))
    return _scratch


def subdir(name):
    d = os.path.join(scratch(), name)
    os.makedirs(d, exist_ok=True)
    return d


def seed():
    try:
        return int(os.environ.get("VERIF_SEED", "1"))
    except ValueError:
        return 1


def log(*a):
    print(*a, flush=True)


# --------------------------------------------------------------------------
# harness build

_harness_bin = {}


def build_harness(race=False):
    """Build /verif/harness against the current /repo working tree, hooks on."""
    key = "race" if race else "plain"
    if key in _harness_bin:
        return _harness_bin[key]
    out = os.path.join(scratch(), "vharness-" + key)
    gosum = os.path.join(REPO, "go.sum")
    if os.path.exists(gosum):
        shutil.copy(gosum, os.path.join(HARNESS, "go.sum"))
    cmd = ["go", "build", "-tags", "verif"]
    if os.path.abspath(REPO) != "/repo":
        # checks can be pointed at another tree (VERIF_REPO): derived go.mod with the replace redirected
        mf = os.path.join(scratch(), "alt.mod")
        with open(mf, "w") as f:
            f.write(open(os.path.join(HARNESS, "go.mod")).read().replace("=> /repo", "=> " + os.path.abspath(REPO)))
        if os.path.exists(gosum):
            shutil.copy(gosum, os.path.join(scratch(), "alt.sum"))
        cmd.append("-modfile=" + mf)
    if race:
        cmd.append("-race")
    cmd += ["-o", out, "./cmd/vharness"]
    t0 = time.time()
    p = subprocess.run(cmd, cwd=HARNESS, env=GOENV, capture_output=True, text=True, timeout=900)
    if p.returncode != 0:
        raise Infra("harness build failed:\n" + p.stdout + p.stderr)
    log("[build] harness (%s) built from %s in %.1fs" % (key, REPO, time.time() - t0))
    _harness_bin[key] = out
    return out


def run_harness(args, stdin=None, timeout=1200, race=False, env=None, check=True):
    """Run a harness subcommand; returns (returncode, stdout, stderr)."""
    binp = build_harness(race=race)
    e = dict(os.environ)
    if env:
        e.update(env)
    try:
        p = subprocess.run([binp] + list(args), input=stdin, capture_output=True, text=True,
                           timeout=timeout, env=e)
    except subprocess.TimeoutExpired:
        raise Infra("harness %s timed out after %ss" % (args[:1], timeout))
    if check and p.returncode != 0:
        raise Infra("harness %s failed (rc=%d):\n%s\n%s" % (args, p.returncode, p.stdout[-3000:], p.stderr[-3000:]))
    return p.returncode, p.stdout, p.stderr


# --------------------------------------------------------------------------
# TLC

_specdir = None


def specdir():
    """Scratch copy of the spec suite (TLC litters its working directory)."""
    global _specdir
    if _specdir is None:
        _specdir = os.path.join(scratch(), "specs")
        shutil.copytree(SPECS, _specdir)
    return _specdir


class TlcResult:
    def __init__(self):
        self.generated = 0
        self.distinct = 0
        self.depth = 0
        self.ok = False
        self.lines = []
        self.tagged = {}
        self.error = ""
        self.wall = 0.0
        self.raw = ""

    def tag(self, t):
        return self.tagged.get(t, [])


_tlc_counter = [0]
import threading
_tlc_lock = threading.Lock()

_TAG_RE = re.compile(r'^"([A-Z]+) (.*)"$')


def _unquote_tla(s):
    # TLC prints strings with \" and \\ escapes
    out = []
    i = 0
    while i < len(s):
        c = s[i]
        if c == "\\" and i + 1 < len(s):
            n = s[i + 1]
            if n == "n":
                out.append("\n")
            elif n == "t":
                out.append("\t")
            else:
                out.append(n)
            i += 2
        else:
            out.append(c)
            i += 1
    return "".join(out)


def run_tlc(module, cfg, workers=None, timeout=600, heap="6g", simulate=None, depth=None,
            tlc_seed=None, extra=None, allow_violation=False, consts=None, cwd=None):
    """Run TLC on specs/<module>.tla with <cfg>.  Lines printed by PrintT of the
    form "TAG json" are collected in result.tagged[TAG] (decoded JSON)."""
    d = cwd or specdir()
    with _tlc_lock:
        _tlc_counter[0] += 1
        myid = _tlc_counter[0]
    meta = os.path.join(scratch(), "meta%d" % myid)
    cfgpath = cfg if cfg.endswith(".cfg") else cfg + ".cfg"
    if consts:
        # write a derived cfg with extra CONSTANT lines appended
        base = open(os.path.join(d, cfgpath)).read()
        cfgpath = "gen%d_%s" % (myid, os.path.basename(cfgpath))
        with open(os.path.join(d, cfgpath), "w") as f:
            f.write(base + "\nCONSTANTS\n" + "\n".join("  %s = %s" % kv for kv in consts.items()) + "\n")
    cmd = ["java", "-Xss512m", "-Xmx" + heap, "-XX:+UseParallelGC", "-cp", TLA_CP, "tlc2.TLC",
           "-workers", str(workers or NCPU), "-metadir", meta, "-config", cfgpath]
    if simulate:
        cmd += ["-simulate", simulate]
    if depth:
        cmd += ["-depth", str(depth)]
    if tlc_seed is not None:
        cmd += ["-seed", str(tlc_seed)]
    if extra:
        cmd += list(extra)
    cmd.append(module + ".tla")
    r = TlcResult()
    t0 = time.time()
    try:
        p = subprocess.run(cmd, cwd=d, capture_output=True, text=True, timeout=timeout)
    except subprocess.TimeoutExpired:
        raise Infra("TLC %s/%s timed out after %ss" % (module, cfg, timeout))
    finally:
        shutil.rmtree(meta, ignore_errors=True)
    r.wall = time.time() - t0
    r.raw = p.stdout + p.stderr
    for line in p.stdout.splitlines():
        m = _TAG_RE.match(line)
        if m:
            try:
                r.tagged.setdefault(m.group(1), []).append(json.loads(_unquote_tla(m.group(2))))
            except Exception as ex:  # noqa
                raise Infra("cannot decode TLC output line: %r (%s)" % (line[:300], ex))
            continue
        r.lines.append(line)
        m = re.match(r"(\d+) states generated, (\d+) distinct states found", line)
        if m:
            r.generated, r.distinct = int(m.group(1)), int(m.group(2))
        m = re.search(r"The depth of the complete state graph search is (\d+)", line)
        if m:
            r.depth = int(m.group(1))
    r.ok = ("Model checking completed. No error has been found." in p.stdout) or \
           (simulate is not None and p.returncode == 0)
    if not r.ok:
        errs = [l for l in r.lines if "Error" in l or "error" in l or "violated" in l]
        r.error = "\n".join(errs[:20])
        if not allow_violation:
            tail = "\n".join(r.lines[-60:])
            raise Infra("TLC %s/%s failed (rc=%d):\n%s" % (module, cfg, p.returncode, tail))
    return r


def validate_batches(module, cfg, records, prefix, batch=4000, parallel=4, timeout=900, heap="3g",
                     const="File", extra_consts=None):
    """Write records in ndjson batches and run the trace spec on each batch,
    several TLC processes side by side.  Returns the list of TlcResult."""
    from concurrent.futures import ThreadPoolExecutor
    d = specdir()
    jobs = []
    for b in range(0, len(records), batch):
        fn = "%s_%d.ndjson" % (prefix, b)
        write_ndjson(os.path.join(d, fn), records[b:b + batch])
        jobs.append((fn, len(records[b:b + batch])))
    workers = max(2, NCPU // max(1, min(parallel, len(jobs))))

    def one(job):
        fn, n = job
        c = {const: '"%s"' % fn}
        if extra_consts:
            c.update(extra_consts)
        r = run_tlc(module, cfg, consts=c, timeout=timeout, workers=workers, heap=heap)
        os.remove(os.path.join(d, fn))
        r.nrecords = n
        return r
    with ThreadPoolExecutor(max_workers=parallel) as ex:
        return list(ex.map(one, jobs))


def sany(module):
    p = subprocess.run(["java", "-cp", TLA_CP, "tla2sany.SANY", module + ".tla"], cwd=specdir(),
                       capture_output=True, text=True, timeout=120)
    if p.returncode != 0 or "Semantic errors" in p.stdout or "***Parse Error***" in p.stdout \
            or "Fatal errors" in p.stdout or "Could not" in p.stdout:
        raise Infra("SANY failed on %s:\n%s" % (module, p.stdout[-3000:]))
    return True


# --------------------------------------------------------------------------
# findings

def load_findings():
    p = os.path.join(ROOT, "known_findings.json")
    if not os.path.exists(p):
        return []
    return json.load(open(p))["findings"]


ALL_VERDICTS = []      # every collector of this process (the driver reports what they hold if a later stage fails)


class Verdicts:
    """Collects candidate violations, matches them against the known-findings
    file, writes replay files and produces the exit code."""

    def __init__(self, prop):
        self.prop = prop
        # replay files of earlier runs of this property are stale: remove them
        if os.path.isdir(REPLAYS) and not os.environ.get("VERIF_REPLAYING"):
            for fn in os.listdir(REPLAYS):
                if fn.startswith(prop + "-"):
                    try:
                        os.remove(os.path.join(REPLAYS, fn))
                    except OSError:
                        pass
        self.findings = [f for f in load_findings() if f["property"] == prop]
        self.finished = False
        ALL_VERDICTS.append(self)
        self.known_hit = {}
        self.violations = []
        self.nviol = {}
        self.infra = []

    def candidate(self, key, what, replay):
        """key: narrow case key; replay: JSON-serialisable description."""
        for f in self.findings:
            if f.get("status", "open") == "open" and f["key"] == key:
                self.known_hit.setdefault(key, {"what": f["what"], "n": 0})["n"] += 1
                return False
        self.nviol[key] = self.nviol.get(key, 0) + 1
        if self.nviol[key] > 2:
            return True          # at most two replay files per case key
        os.makedirs(REPLAYS, exist_ok=True)
        h = hashlib.sha1(json.dumps(replay, sort_keys=True, default=str).encode()).hexdigest()[:12]
        path = os.path.join(REPLAYS, "%s-%s.json" % (self.prop, h))
        with open(path, "w") as f:
            json.dump({"property": self.prop, "key": key, "what": what, "replay": replay}, f, indent=1, default=str)
        self.violations.append((key, what, path))
        return True

    def finish(self):
        self.finished = True
        for key, v in sorted(self.known_hit.items()):
            log("KNOWN-FINDING: property=%s %s [key=%s, %d case(s)]" % (self.prop, v["what"], key, v["n"]))
        shown = set()
        for key, what, path in self.violations:
            if key in shown:
                continue
            shown.add(key)
            log("VIOLATION property=%s replay=%s" % (self.prop, path))
            log("  key=%s (%d case(s)): %s" % (key, self.nviol[key], what))
        return 1 if self.violations else 0


# --------------------------------------------------------------------------
# evidence

def write_evidence(prop, tier, level, coverage, wall_s, violations, assumptions=None):
    os.makedirs(EVIDENCE, exist_ok=True)
    ev = {
        "property_id": prop,
        "tier": tier,
        "seed": seed(),
        "level": level,
        "coverage": coverage,
        "assumptions": assumptions or [],
        "wall_s": round(wall_s, 2),
        "violations": violations,
    }
    with open(os.path.join(EVIDENCE, prop + ".json"), "w") as f:
        json.dump(ev, f, indent=1, default=str)


def canon_hash(obj):
    return hashlib.sha1(json.dumps(obj, sort_keys=True, default=str).encode()).hexdigest()


def write_ndjson(path, records):
    with open(path, "w") as f:
        for r in records:
            f.write(json.dumps(r, separators=(",", ":")) + "\n")


def read_ndjson(text):
    return [json.loads(l) for l in text.splitlines() if l.strip()]
