"""C08 - loading arbitrary bytes ends in a function or a syntax error, never a crash.
(a) acceptance: token sequences classified by the TLA+ Grammar recogniser (TLC); the
    real loader must accept every text the grammar accepts;
(b) layout independence: programs rendered under many layouts, each validated by
    LuaSemTrace against the same semantics;
(c) robustness: every outcome of loading is {function, syntax error}, identical
    when repeated: truncations at every byte offset, byte mutations, random bytes,
    deep nesting - in child processes with deadlines."""
import base64, itertools, json, os, random, time
import vlib, lsem, gen_core, gen_shapes
from luagen import render, finalize

PROP = "C08"
TOKENS = ["Name", "Number", "String", "nil", "true", "...", "=", ",", ";", "(", ")", "{", "}", "[", "]", ".", ":", "+", "-", "not", "#", "..",
          "==", "and", "local", "function", "end", "return", "break", "if", "then", "else", "elseif", "do", "while", "repeat", "until", "for", "in"]
TEXT = {"Name": "a", "Number": "1", "String": '"s"'}
TEMPLATES = [
    "local Name = Number", "local Name , Name = Name ( ) , ...", "Name = Name + Number .. String", "Name . Name [ Number ] = { Name = Number , [ Number ] = Number ; Number }",
    "Name ( Name , ... )", "Name : Name ( Number ) . Name = nil", "do local Name end", "while Name do break end", "repeat Name ( ) until not Name",
    "if Name then Name ( ) elseif Name then else Name = Number end", "for Name = Number , Number , - Number do Name ( Name ) end",
    "for Name , Name in Name ( Name ) do break ; end", "function Name . Name : Name ( Name , ... ) return ... end",
    "local function Name ( ) return Name ( ) end", "return function ( ... ) return # Name , - Number end", "return Name and Name == nil",
    "Name String", "Name { }", "( Name ) ( )", "Name , Name . Name = Number , { }", "return ( ... )", "local Name ; Name = ( Name ) ; return ;",
]


def render_tokens(ts):
    return " ".join(TEXT.get(t, t) for t in ts)


UNREPEATED = []


def load_all(cases, tag, timeout=1500, confirm=True):
    """cases: list of (id, bytes) -> {id: outcome}"""
    d = vlib.subdir("c08")
    inp, outp = os.path.join(d, "in_%s.ndjson" % tag), os.path.join(d, "out_%s.ndjson" % tag)
    # small inputs load in milliseconds: 10 s without an answer is a hang; the deep-nesting inputs get the long deadline
    vlib.write_ndjson(inp, [{"id": i, "src": "", "budget": -1, "loadb64": base64.b64encode(b).decode() or "", "deadline_ms": 10000 if len(b) < 100000 else 0} for i, b in cases])
    vlib.run_harness(["lua-run", "--in", inp, "--out", outp, "--deadline", "90s"], timeout=timeout)
    outs = {o["id"]: o["outcome"] for o in vlib.read_ndjson(open(outp).read())}
    os.remove(inp)
    os.remove(outp)
    if confirm:
        # a hang or crash is a verdict about the code only if it happens again with the case alone in a fresh process
        # (the deadline is wall-clock time: a starved machine can miss it); what does not repeat is an observation
        by = dict(cases)
        for i in [i for i, o in outs.items() if o[0] != "load"]:
            again = load_all([(i, by[i])], tag + "_re%d" % i, timeout=timeout, confirm=False)[i]
            if again[0] != outs[i][0]:
                vlib.log("[C08] %s on input %d (%d bytes) did not repeat alone (%s): not a verdict" % (outs[i][0], i, len(by[i]), again[:2]))
                UNREPEATED.append((i, outs[i][0]))
                outs[i] = again
    return outs


def robust_key(o):
    if o[0] != "load":
        return o[0]                     # crash / hang
    if o[1] not in ("ok", "syntax"):
        return o[1]
    if len(o) > 3 and not o[3]:
        return "not-deterministic"
    return None


def run(tier):
    t0 = time.time()
    thorough = tier == "thorough"
    seed = vlib.seed()
    rng = random.Random(seed * 29 + 8)
    verd = vlib.Verdicts(PROP)
    stats = {"states": 0, "transitions": 0}
    vlib.build_harness()
    # ---------------- (a) acceptance
    seqs = []
    for n in range(0, 4):
        for ts in itertools.product(TOKENS, repeat=n):
            seqs.append(list(ts))
    nshort = len(seqs)
    if thorough:
        small = ["Name", "Number", "=", ",", "(", ")", "{", "}", "[", "]", ".", "..", "-", "local", "function", "end", "return", "do", "if", "then", "...", "String", ";", ":"]
        for ts in itertools.product(small, repeat=4):
            seqs.append(list(ts))
    muts = 0
    for tpl in TEMPLATES:
        ts = tpl.split()
        seqs.append(ts)
        for i in range(len(ts)):
            seqs.append(ts[:i] + ts[i + 1:])                       # delete
            for t in (TOKENS if thorough else rng.sample(TOKENS, 12)):
                seqs.append(ts[:i] + [t] + ts[i + 1:])             # replace
                seqs.append(ts[:i] + [t] + ts[i:])                 # insert
                muts += 2
    recs = [{"id": i + 1, "ts": ts} for i, ts in enumerate(seqs)]
    accepted = set()
    for r in vlib.validate_batches("GrammarGen", "GrammarGen", recs, "c08g", batch=20000, parallel=4, timeout=2400, heap="3g"):
        stats["states"] += r.distinct
        stats["transitions"] += r.generated
        for a in r.tag("ACC"):
            accepted.add(a["id"])
    outs = load_all([(r["id"], render_tokens(r["ts"]).encode()) for r in recs], "acc")
    nacc_ok = 0
    extra_accept = 0
    for r in recs:
        o = outs[r["id"]]
        k = robust_key(o)
        txt = render_tokens(r["ts"])
        if k:
            verd.candidate("C08:load:%s" % k, "loading %r: %s" % (txt, o), {"text": txt, "outcome": o})
        elif r["id"] in accepted:
            if o[1] == "ok":
                nacc_ok += 1
            else:
                verd.candidate("C08:grammar-accepts:loader-rejects:%s" % " ".join(r["ts"][:3]),
                               "the Lua 5.1 grammar accepts %r but the loader reports %s" % (txt, o[2][:120]), {"tokens": r["ts"], "text": txt, "outcome": o})
        elif o[1] == "ok":
            extra_accept += 1            # the property is one-directional: information only
    vlib.log("[C08] acceptance: %d token sequences (all of length <= 3 over %d tokens%s, %d one-token mutations of %d valid templates): grammar accepts %d, loader accepts all of them: %d; loader also accepts %d the grammar rejects (not judged)" % (
        len(recs), len(TOKENS), ", length 4 over 24 tokens" if thorough else "", muts, len(TEMPLATES), len(accepted), nacc_ok, extra_accept))
    # ---------------- (b) layout independence
    progs = []
    layouts = [("canon", "\n"), ("shift", "\n"), ("shift", "\r\n"), ("shift", "\r"), ("spread", "\n"), ("spread", "\r\n"), ("oneline", "\n"), ("tokline", "\n"), ("tokline", "\r\n"),
               ("cmtline", "\n"), ("cmtline", "\r\n")]
    nprog = 260 if thorough else 50

    def add(fam, p, root, layout, eol, lrng):
        src = render(p, root, rng=lrng, layout=layout, eol=eol, extra_parens=0.25, semicolons=0.3)
        finalize(p, root)
        progs.append({"id": len(progs) + 1, "fam": "layout:" + layout, "root": root, "nodes": [dict(n) for n in p.nodes[1:]], "src": src})
    for i in range(nprog):
        for layout, eol in layouts:
            g = gen_core.RandGen(random.Random(seed * 5000 + i), size=10, err_rate=0.15)
            root = g.program()
            add("rand", g.p, root, layout, eol, random.Random(i * 31 + len(layout)))
    # two-byte line ends (CR LF, LF CR) straddling the loader's read-buffer boundaries: a long comment in front of the
    # first token moves the text byte by byte without changing any line; the programs end in errors whose line is judged
    for i in range(40 if thorough else 10):
        for eol in ("\r\n", "\n\r"):
            g = gen_core.RandGen(random.Random(seed * 5100 + i), size=8, err_rate=1.0)
            root = g.program()
            base = render(g.p, root, rng=random.Random(i * 37 + 1), layout="shift", eol=eol, extra_parens=0.0, semicolons=0.0)
            finalize(g.p, root)
            ends = [m for m in range(len(base) - 1) if base[m:m + 2] == eol]
            picks = ends[:2] + ends[len(ends) // 2: len(ends) // 2 + 1] + ends[-2:]
            for e in sorted(set(picks)):
                for boundary in (4096, 8192):
                    n = boundary - 1 - e - 6          # "--[[" + n x + "]]" puts the first byte of this line end on the last byte of a buffer
                    if n < 0:
                        continue
                    progs.append({"id": len(progs) + 1, "fam": "layout:bufedge", "root": root, "nodes": [dict(nd) for nd in g.p.nodes[1:]],
                                  "src": "--[[" + "x" * n + "]]" + base})
    verd2, cov, allv, allo, st2 = lsem.run_families(
        PROP, tier, progs,
        "(b) every program rendered under 11 layouts (canonical; blank/comment lines of every form; line breaks inside statements; everything on one line; one token per line; long comments between the tokens of a line) x {LF, CRLF, CR}, optional semicolons and grouping-neutral parentheses, each validated against LuaSem; two-byte line ends moved across the loader's 4096-byte read boundaries; (a) token sequences classified by the Grammar spec; (c) loader robustness inputs",
        [], t0, max_steps=30000)
    for key, what, path in verd2.violations:
        verd.violations.append((key, what, path))
        verd.nviol[key] = verd2.nviol[key]
    verd.known_hit.update(verd2.known_hit)
    stats["states"] += st2["states"]
    stats["transitions"] += st2["transitions"]
    # ---------------- (c) robustness
    cases = []
    srcs = [p["src"].encode() for p in progs[:: max(1, len(progs) // (40 if thorough else 10))]]
    for s in srcs:
        for off in range(0, len(s) + 1):
            cases.append(s[:off])                                        # truncation at EVERY byte offset
        for _ in range(300 if thorough else 60):
            b = bytearray(s)
            op = rng.random()
            pos = rng.randrange(len(b))
            if op < 0.4:
                b[pos] = rng.randrange(256)
            elif op < 0.6:
                del b[pos]
            elif op < 0.8:
                b.insert(pos, rng.choice([0, 10, 13, 34, 39, 40, 41, 45, 91, 92, 93, 255, rng.randrange(256)]))
            else:
                q = rng.randrange(len(b))
                b[pos], b[q] = b[q], b[pos]
            cases.append(bytes(b))
    for _ in range(4000 if thorough else 600):
        n = rng.choice([1, 2, 3, 5, 8, 20, 60, 200])
        cases.append(bytes(rng.randrange(256) for _ in range(n)))
    alphabet = [b"--[[", b"]]", b"[==[", b"]==]", b'"', b"'", b"\\", b"\n", b"\r", b"0x", b"1e", b"..", b"...", b"(", b")", b"{", b"}", b"function", b"end", b"\0", b"\xff", b"a", b"=", b" "]
    for _ in range(6000 if thorough else 900):
        cases.append(b"".join(rng.choice(alphabet) for _ in range(rng.randint(1, 14))))
    # nesting depth: loading nested blocks costs more than linear time in gopher-lua (40 000 nested
    # do-blocks take 10 s; it terminates), so depth stays where a generous deadline is meaningful
    for depth in ([200, 2000, 20000, 30000] if thorough else [200, 2000, 20000]):
        cases += [b"return " + b"(" * depth + b"1" + b")" * depth, b"x=" + b"{" * depth + b"}" * depth, b"do " * depth + b"end " * depth,
                  b"return " + b"-" * depth + b"1", b"return " + b"not " * depth + b"1", b"x=" + b"1+" * depth + b"1", b"return " + b"function() " * depth + b"end " * depth,
                  b"x=" + b"a." * depth + b"a", b"--[" + b"=" * depth + b"[", b'x="' + b"\\" * depth, b"x=" + b"f" + b"()" * depth]
    # far deeper than any goroutine stack allows a recursive compiler to go: the loader has to bound the nesting itself
    # (a Go stack overflow is a fatal error: the child process dies, seen here as 'crash')
    for depth in ([3000000] if thorough else [1500000]):
        cases += [b"return " + b"#" * depth + b"x", b"x=" + b"a." * depth + b"a", b"x=f" + b"()" * depth, b"x=" + b"{" * depth + b"}" * depth,
                  b"x=" + b"a[" * depth + b"1" + b"]" * depth, b"return " + b"not " * depth + b"x", b"x=a" + b":m()" * depth]
    # goto / label programs, valid and semantically wrong (jump into the scope of a local, missing or
    # duplicate label, across functions), in nested blocks and below functions with parameters
    wrappers = ["%s", "do %s end", "local a do %s end", "local a, b, c do do %s end end", "for i = 1, 2 do %s end", "while x do local q %s end",
                "function f(p1, p2) %s end", "local function f(p1, p2, p3) local a do %s end end", "if x then %s else %s end", "repeat local z %s until z",
                "return function(...) local a, b = ... for k, v in pairs(a) do %s end end"]
    bodies = ["goto l local b ::l:: print(b)", "goto l local b ::l::", "goto l ::l:: ::l::", "goto missing", "::l:: goto l", "do goto l end local b ::l:: print(b)",
              "goto l local b, c, d ::l:: print(d)", "local b goto l local c ::l:: print(b, c)", "::a:: local b ::c:: goto a", "goto l do ::l:: end",
              "local b ::l:: local c goto l", "goto continue local b ::continue::", "do local u goto e end ::e::", "goto f1 function g() ::f1:: end"]
    for w in wrappers:
        for b in bodies:
            cases.append((w.replace("%s", b)).encode())
    # several unresolved gotos at once: which one is reported is a function of the text (each text is loaded twice)
    for k in range(24):
        labs = ["zeta", "alpha", "mid", "omega", "beta", "q%d" % k]
        cases.append((" ".join("goto %s" % labs[(k + j) % len(labs)] for j in range(2 + k % 4)) + " local x = %d" % k).encode())
        cases.append(("do %s end" % " ".join("if x then goto %s end" % labs[(k * 3 + j) % len(labs)] for j in range(3 + k % 3))).encode())
    # constant expressions (the compiler folds them while loading): every operator over boundary
    # literals; all of them are valid chunks, so the loader must return a function
    lits = ["0", "-0", "1", "-1", "2", "0.5", "7", "1e308", "1e-320", "2^53", "2^1024", "(3-3)", "(0/0)", "(1/0)", "(-1/0)", "0x7fffffff", "0xffffffffffff",
            "1e5000", "nil", "true", "false", '"a"', '"10"', '""', "{}", "x"]
    binops = ["+", "-", "*", "/", "%", "^", "..", "==", "~=", "<", "<=", ">", ">=", "and", "or"]
    valid = []
    for a, op, b in itertools.product(lits, binops, lits):
        valid.append("return %s %s %s" % (a, op, b))
    for a, op, b in itertools.product(lits[:17], ["%", "/", "^", "*", "-"], lits[:17]):
        valid += ["local x = %s %s %s" % (a, op, b), "if %s %s %s then end" % (a, op, b), "do return end local dead = %s %s %s" % (a, op, b),
                  "return (%s %s %s) %s 2, -(%s %s %s)" % (a, op, b, op, a, op, b), "return {[1] = %s %s %s}" % (a, op, b), "while %s %s %s do break end" % (a, op, b)]
    for a in lits:
        valid += ["return -%s" % a, "return not %s" % a, "return #%s" % a, "return - - %s" % a, "return not not %s" % a]
    # unary minus over unary minus / not over not over non-constants (redundant parentheses, blanks between the signs)
    for x in ("x", "t.a", "f()", "(x)", "#t", "x.y.z", "...", "(...)"):
        valid += ["return - -%s" % x, "return -(-%s)" % x, "return -(-(%s))" % x, "return 1 + - -%s" % x, "return - - -%s" % x, "return not not %s" % x,
                  "return not (not %s)" % x, "return -(not %s)" % x, "return #(-%s)" % x, "local y = - -%s" % x, "if - -%s then end" % x]
    # every numeral form of Lua 5.1: decimal, fraction, exponent, hexadecimal up to 64 bits
    for num in ("0", "00", "007", "1", "3.", ".5", "3.14", "1e2", "1E2", "1e+2", "1e-2", "1E+02", ".5e1", "5.e1", "1e308", "1e309", "1e-400", "9007199254740993",
                "18446744073709551616", "0x0", "0X0", "0xA", "0xa", "0XaF", "0x10", "0xff", "0x7fffffff", "0x80000000", "0xffffffff", "0x100000000", "0x7fffffffffffffff",
                "0x8000000000000000", "0xFFFFFFFFFFFFFFFF", "0Xffffffffffffffff", "0x00000000000000001"):
        valid += ["return %s" % num, "local x = %s" % num, "return -%s" % num, "return %s + 1" % num, "t = {[%s] = %s}" % (num, num), "return %s .. ''" % num,
                  "if x == %s then end" % num, "for i = %s, %s do end" % (num, num)]
    # empty loops (a jump to itself) in every position another jump can land on
    loops = ["while true do end", "while 1 do end", "repeat until false", "repeat until nil", "while true do local q end", "repeat local q until false",
             "while x do end", "repeat until x", "for i = 1, 2 do end", "::l:: goto l"]
    ctxs = ["%s", "if x then y = 1 else %s end", "if a or b then %s end", "if a and b then %s end", "local ok = x or y; %s", "local ok = x and y; %s", "if x then %s else %s end",
            "while x do %s end", "do %s end", "if x then y = 1 end %s", "function f() %s end", "for i = 1, 3 do if x then break end %s end", "if x then elseif y then %s else %s end",
            "repeat %s until x", "if not x then %s end", "while x do if y then %s end end", "local function g() if x then return end %s end", "if x then return end %s"]
    for l1, c1 in itertools.product(loops, ctxs):
        valid.append(c1.replace("%s", l1) if "::l::" not in l1 or c1.count("%s") == 1 else c1.replace("%s", "while true do end"))
    nvalid0 = len(cases)
    cases += [v.encode() for v in valid]
    rob = load_all(list(enumerate(cases, 1)), "rob", timeout=2400)
    for i in range(nvalid0 + 1, len(cases) + 1):
        if not robust_key(rob[i]) and rob[i][1] != "ok":
            verd.candidate("C08:valid-constant-expression-rejected", "valid chunk %r is rejected: %s" % (cases[i - 1].decode(), rob[i]), {"text": cases[i - 1].decode(), "tokens": ["valid"], "outcome": rob[i]})
    nrob = {"ok": 0, "syntax": 0}
    for i, b in enumerate(cases, 1):
        o = rob[i]
        k = robust_key(o)
        if k:
            verd.candidate("C08:load:%s" % k, "loading %d bytes %r...: %s" % (len(b), b[:60], o), {"b64": base64.b64encode(b[:4000]).decode(), "len": len(b), "outcome": o})
        else:
            nrob[o[1]] += 1
    vlib.log("[C08] robustness: %d inputs (truncation at every byte offset of %d programs, byte mutations, random bytes, token soup, deep nesting, %d constant-expression chunks): %s" % (len(cases), len(srcs), len(valid), json.dumps(nrob)))
    rc = verd.finish()
    cov["states"], cov["transitions"] = stats["states"], stats["transitions"]
    cov["evaluations"] += len(recs) + len(cases)
    cov["distinct_nontrivial"] += len(accepted)
    cov["acceptance"] = {"token_sequences": len(recs), "exhaustive_up_to_length": 3, "grammar_accepts": len(accepted), "loader_accepts_those": nacc_ok,
                         "loader_accepts_more_not_judged": extra_accept}
    cov["robustness"] = {"inputs": len(cases), "outcomes": nrob, "hangs_or_crashes_that_did_not_repeat_alone": len(UNREPEATED)}
    cov["known_findings_hit"] = sorted(verd.known_hit)
    vlib.write_evidence(PROP, tier, "model_checking", cov, time.time() - t0, len(verd.violations), assumptions=[
        "acceptance is one-directional (loader may accept more than the grammar); goto/labels are not classified by the recogniser",
        "for arbitrary bytes the specification contributes only the outcome relation {function, syntax error}; that part is a robustness sweep",
        "never a newline between a prefix expression and its '(' (Lua 5.1 rejects it as ambiguous)"])
    return rc


def replay(path):
    rec = json.load(open(path))
    r = rec["replay"]
    if "program" in r:
        verd = vlib.Verdicts(PROP)
        verd.findings = []
        lsem.decide(PROP, [r["program"]], "replay", verd, {"states": 0, "transitions": 0}, {}, [], max_steps=30000)
        return verd.finish()
    b = r["text"].encode() if "text" in r else base64.b64decode(r["b64"])
    o = load_all([(1, b)], "replay")[1]
    print(o)
    return 1 if robust_key(o) or (r.get("tokens") and o[1] != "ok") else 0
