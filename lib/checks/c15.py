"""C15 - string and math functions match their definitions.

MC    : StrMathMC.tla - laws relating every operator of StrLib / MathLib to an
        independent characterisation, on every case of a small scope (TLC).
GEN   : StrMathGen.tla enumerates bounded families of calls completely and
        exports each call with the result the specification defines; the
        harness makes the same calls on the real library (CallByParam) and the
        observed results are compared with the exported expectation.
TRACE : irregular hand-listed calls, seeded random calls (longer strings, all
        byte values, multi-directive formats, wider numbers) and math.random
        are executed first and judged by StrMathTrace.tla.
Every candidate from GEN is re-executed on a fresh interpreter and re-judged
by TLC (StrMathTrace) before it counts.  Python only moves data and labels
rejected cases with a narrow key."""
import json, os, random, time
from concurrent.futures import ThreadPoolExecutor
import vlib

PROP = "C15"
NIL = ["nil"]


def S(b):
    if isinstance(b, str):
        b = b.encode("latin-1")
    return ["s", list(b)]


def N(i):
    return ["n", i]


def Q(m, e):
    """token of m * 2^e (normalised as MathLib!Tok does)"""
    if m == 0:
        return ["n", 0]
    while m % 2 == 0:
        m //= 2
        e += 1
    if e >= 0 and abs(m) << e <= 1073741823:
        return ["n", m << e]
    return ["q", m, e]


# --------------------------------------------------------------------------
# GEN families (constants of StrMathGen)

FAMILIES = ["sub", "byte", "unary", "char", "findp", "findl", "fmtd", "fmtx", "fmtc", "fmts", "math1", "math2", "maxmin",
            "fmtgrid", "ldexpw", "powsp", "arith", "consts", "logs", "fmtbad"]


def gen_runs(tier):
    """TLC runs of StrMathGen: (family names, constants).  quick: one run; thorough: three."""
    th = tier == "thorough"
    consts = {
        "Win": "2",
        "AlphaIdx": "{0, 65, 97, 122, 128, 255}", "LenIdx": "4" if th else "3",
        "Extra": '"pairs"' if th else '"bytes"',
        "AlphaFindP": "{0, 97, 46, 255}" if th else "{0, 97, 46}", "AlphaFindL": "{97, 98, 255}",
        "LenFind": "4" if th else "3", "PatP": "2", "PatL": "3" if th else "2",
        "AlphaFmtS": "{97, 195, 169, 255}" if th else "{97, 195, 169}", "LenFmtS": "3",
        "FmtFull": "TRUE" if th else "FALSE",
        "G1M": "40" if th else "12", "G1Neg": "4" if th else "3", "G1Hi": "3" if th else "2",
        "G2M": "12" if th else "8", "G2Neg": "3", "G2Hi": "2" if th else "1",
    }
    split = [["sub", "byte"], ["findp", "findl", "unary"],
             ["char", "fmtd", "fmtx", "fmtc", "fmts", "math1", "math2", "maxmin"], ["fmtgrid", "ldexpw", "powsp", "arith", "consts", "logs", "fmtbad"]] if th else [FAMILIES]
    out = []
    for fams in split:
        c = dict(consts)
        c["Fams"] = "{" + ", ".join('"%s"' % f for f in fams) + "}"
        out.append((fams, c))
    return out


# --------------------------------------------------------------------------
# labelling of rejected cases (no verdict is taken here)

def _tok_str(t):
    return bytes(t[1]) if t and t[0] == "s" else None


def _tok_int(t):
    return t[1] if t and t[0] == "n" else None


def _pos_class(i, l):
    """where an index argument lies relative to a string of length l"""
    if i is None:
        return "omitted"
    if i < -l:
        return "<-len"
    if i < 0:
        return "-len..-1"
    if i == 0:
        return "0"
    if i <= l:
        return "1..len"
    if i == l + 1:
        return "len+1"
    return ">len+1"


def _idx_arg(args, k):
    if k >= len(args) or args[k] == NIL:
        return None
    return _tok_int(args[k])


def parse_format(fmt):
    """directives of a format string (for labelling only)"""
    out = []
    i = 0
    pct = 0
    while i < len(fmt):
        if fmt[i] != 37:
            i += 1
            continue
        if i + 1 < len(fmt) and fmt[i + 1] == 37:
            pct += 1
            i += 2
            continue
        j = i + 1
        flags = ""
        while j < len(fmt) and chr(fmt[j]) in "-+ #0":
            flags += chr(fmt[j])
            j += 1
        w = ""
        while j < len(fmt) and chr(fmt[j]).isdigit():
            w += chr(fmt[j])
            j += 1
        p = None
        if j < len(fmt) and fmt[j] == 46:
            j += 1
            p = ""
            while j < len(fmt) and chr(fmt[j]).isdigit():
                p += chr(fmt[j])
                j += 1
        conv = chr(fmt[j]) if j < len(fmt) else ""
        out.append({"flags": flags, "width": w, "prec": p, "conv": conv, "text": list(fmt[i:j + 1])})
        i = j + 1
    return out, pct


def _sp_class(t):
    """class of a pow / operator argument: the special values by name, the rest by sign and integrality"""
    if t[0] == "nz":
        return "-0"
    if t[0] == "inf":
        return "+inf" if t[1] > 0 else "-inf"
    if t[0] == "nan":
        return "nan"
    if t[0] == "n" and t[1] in (0, 1, -1):
        return "+0" if t[1] == 0 else str(t[1])
    if t[0] == "n":
        return ("neg" if t[1] < 0 else "pos") + ("-odd" if t[1] % 2 else "-even")
    if t[0] == "q":
        return ("neg" if t[1] < 0 else "pos") + ("-fraction" if t[2] < 0 else "-even")
    return t[0]


def _num_sign_class(t):
    if t[0] == "inf":
        return "+inf" if t[1] > 0 else "-inf"
    if t[0] == "nan":
        return "nan"
    if t[0] == "s":
        return "string"
    if t[0] not in ("n", "q"):
        return t[0]
    m = t[1]
    kind = "int" if t[0] == "n" else "frac"
    return ("neg-" if m < 0 else "zero" if m == 0 else "pos-") + (kind if m != 0 else "")


INT_PARAMS = {"sub": (1, 2), "byte": (1, 2), "rep": (1,), "find": (2,), "ldexp": (1,), "random": (0, 1),
              "char": tuple(range(0, 8))}


def case_key(f, args, exp, obs):
    """Narrow key of a rejected call: one defect class = one key."""
    # an integer parameter given as a numeric string (lauxlib accepts it)
    for k in INT_PARAMS.get(f, ()):
        if k < len(args) and args[k][0] == "s" and exp[0] in ("ok", "random") and obs[0] == "err":
            return "C15:integer-argument:numeric-string-rejected"
    if obs[0] == "mutated":
        return "C15:%s:argument-string-modified" % f
    if f in ("upper", "lower", "reverse", "len"):
        s = _tok_str(args[0]) if args else None
        if s is not None and any(b >= 128 for b in s):
            return "C15:%s:byte>=128" % f
        return "C15:%s:%s" % (f, "ascii" if s is not None else "argument-conversion")
    if f == "byte":
        s = _tok_str(args[0]) if args else None
        if s is None:
            return "C15:byte:argument-conversion"
        i, j = _idx_arg(args, 1), _idx_arg(args, 2)
        if j is None and len(args) != 2 and exp[0] == "ok" and obs[0] == "ok" and len(obs[1]) > len(exp[1]):
            return "C15:byte:default-j-is-end-of-string"
        if i == 0 and j is not None:
            return "C15:byte:i=0-with-explicit-j"
        return "C15:byte:i@%s,j@%s" % (_pos_class(i, len(s)), _pos_class(j, len(s)))
    if f == "sub":
        s = _tok_str(args[0]) if args else None
        if s is None:
            return "C15:sub:argument-conversion"
        return "C15:sub:i@%s,j@%s" % (_pos_class(_idx_arg(args, 1), len(s)), _pos_class(_idx_arg(args, 2), len(s)))
    if f == "char":
        if any(a[0] == "n" and not (0 <= a[1] <= 255) for a in args):
            return "C15:char:value-outside-0..255-accepted"
        return "C15:char:%d-arguments" % len(args)
    if f == "rep":
        n = _idx_arg(args, 1)
        return "C15:rep:n%s" % ("<=0" if n is not None and n <= 0 else ">0")
    if f == "find":
        s, p = _tok_str(args[0]), _tok_str(args[1]) if len(args) > 1 else None
        if s is None or p is None:
            return "C15:find:argument-conversion"
        init = _idx_arg(args, 2)
        plain = len(args) > 3 and args[3] not in (NIL, ["b", False])
        mode = "plain" if plain else "literal-pattern"
        if plain and len(args) > 4:
            return "C15:find:plain-flag-ignored-with-surplus-arguments"
        if len(p) == 0 and init is not None and obs[0] == "ok":
            return "C15:find:empty-pattern-ignores-init"
        pc = _pos_class(init, len(s))
        if pc == ">len+1" and obs[0] == "err":
            return "C15:find:%s:init-beyond-end-raises" % mode
        if plain and args[3][0] != "b":
            mode = "plain(non-boolean-truthy)"
        return "C15:find:%s:init@%s" % (mode, pc)
    if f == "format":
        fmt = _tok_str(args[0]) if args else None
        if fmt is None:
            return "C15:format:argument-conversion"
        ds, pct = parse_format(fmt)
        nargs = len(args) - 1
        if exp[0] == "err" and obs[0] == "ok" and any(d["conv"] not in list("cdiouxXeEfgGqs") for d in ds):
            return "C15:format:invalid-option-accepted"
        if nargs < len(ds) and exp[0] == "err":
            return "C15:format:missing-argument-not-an-error"
        if nargs > len(ds) and pct > 0:
            return "C15:format:%%-with-surplus-arguments"
        if nargs > len(ds):
            return "C15:format:surplus-arguments"
        if len(ds) != 1:
            return "C15:format:%d-directives" % len(ds)
        d = ds[0]
        a = args[1]
        c = d["conv"]
        fl = d["flags"]
        if a[0] == "s" and c in "diuxXoceEfgG":
            return "C15:format:numeric-directive:string-argument-not-converted"
        if c in "eEfgG" and a[0] == "inf":
            return "C15:format:float-conversion:infinity"
        if c in "eEfgG" and a[0] in ("n", "q"):
            if c in "gG" and d["prec"] is None and not fl:
                return "C15:format:%g:default-precision"
            return "C15:format:%%%s:flags=%s,w=%d,p=%d" % (c, "".join(sorted(fl)), bool(d["width"]), d["prec"] is not None)
        if c == "u" and a[0] in ("n", "q"):
            return "C15:format:%u"
        if a[0] not in ("n", "q", "s") and c in "diuxXoceEfgG":
            return "C15:format:numeric-directive:non-number-argument-not-an-error"
        if a[0] not in ("n", "q", "s"):
            return "C15:format:%%%s:%s-argument" % (c, a[0])
        if c == "c":
            v = (a[1] if a[0] == "n" else 0) % 256
            return "C15:format:%%c:%s" % ("value>=128" if (v >= 128 or a[1] > 255 or a[1] < 0) else "ascii")
        if c == "s":
            s = _tok_str(a)
            if s is not None and any(b >= 128 for b in s) and (d["width"] or d["prec"] is not None):
                return "C15:format:%s:width/precision-with-bytes>=128"
            return "C15:format:%%s:%s" % ("number-argument" if s is None else "flags=%s,w=%d,p=%d" % (
                fl, bool(d["width"]), d["prec"] is not None))
        zero = a == ["n", 0] or (a[0] == "q" and abs(a[1]) < 2 ** -a[2])
        if c in "xXo":
            if "+" in fl or " " in fl:
                return "C15:format:unsigned-conversion:sign-flag-honoured"
            if "#" in fl and zero and c in "xX":
                return "C15:format:%#x:zero-gets-prefix"
            if "#" in fl and c == "o" and zero and d["prec"] in ("", "0"):
                return "C15:format:%#.0o:zero-prints-nothing"
            if "#" in fl and "0" in fl and "-" not in fl and d["width"] and d["prec"] is None and c in "xX":
                return "C15:format:%#0Nx:zero-padding-ignores-prefix"
            return "C15:format:%%%s:flags=%s,w=%d,p=%d" % (c, "".join(sorted(fl)), bool(d["width"]), d["prec"] is not None)
        if c in "di":
            if zero and d["prec"] in ("", "0") and ("+" in fl or " " in fl):
                return "C15:format:%+.0d:zero-loses-sign"
            return "C15:format:%%%s:flags=%s,w=%d,p=%d" % (c, "".join(sorted(fl)), bool(d["width"]), d["prec"] is not None)
        return "C15:format:%%%s" % c
    if f in ("huge", "pi"):
        return "C15:constant:math.%s" % f
    if f == "log10" and args and args[0][0] == "p10":
        return "C15:log10:power-of-ten-inexact"
    if f in ("deg", "rad"):
        if obs[0] == "ok" and obs[1] and obs[1][0][0] in ("inf", "nan") and args and args[0][0] in ("n", "q"):
            return "C15:%s:intermediate-overflow" % f
        return "C15:%s:not-the-correctly-rounded-%s" % (f, "x/(PI/180)" if f == "deg" else "x*(PI/180)")
    if f == "mod" and exp[0] == "ok" and obs[0] == "ok" and not any(a[0] == "nz" for a in args):
        return "C15:mod:differs-from-fmod"
    if f in ("pow", "op^") and len(args) == 2 and (args[0][0] in ("nz", "inf", "nan") or args[1][0] in ("nz", "inf", "nan")
                                                  or args[0] in (["n", 0], ["n", 1], ["n", -1]) or args[1] == ["n", 0]):
        return "C15:%s:special-case:base=%s,exponent=%s" % ("pow" if f == "pow" else "operator^", _sp_class(args[0]), _sp_class(args[1]))
    if f.startswith("op") or f in ("fmod", "mod", "floor", "ceil", "abs", "modf", "sqrt", "frexp", "ldexp", "max", "min"):
        zin = any(a[0] == "nz" for a in args)
        zout = (exp[0] == "ok" and any(v in (["nz"], ["n", 0]) for v in exp[1])) or (obs[0] == "ok" and any(v in (["nz"], ["n", 0]) for v in obs[1]))
        if zin or (zout and exp[0] == "ok" and obs[0] == "ok" and [v if v != ["nz"] else ["n", 0] for v in exp[1]] == [v if v != ["nz"] else ["n", 0] for v in obs[1]]):
            return "C15:%s:sign-of-zero" % ("operator" + f[2:] if f.startswith("op") else f)
        if f.startswith("op"):
            return "C15:operator%s:%s" % (f[2:], ",".join(_sp_class(a) for a in args[:2]))
    if f == "ldexp" and len(args) > 1 and args[1][0] == "n" and abs(args[1][1]) > 1024:
        return "C15:ldexp:exponent-beyond-1024"
    if f in ("ldexp", "frexp") and args and args[0][0] == "q" and args[0][2] < -1022:
        return "C15:%s:subnormal-argument" % f
    if f == "modf" and args and args[0][0] == "inf":
        return "C15:modf:infinite-argument"
    if f == "pow" and len(args) > 1 and args[1][0] == "q" and args[1][2] == -1 and abs(args[1][1]) > 1:
        return "C15:pow:half-integer-exponent-inexact"
    if f == "random":
        return "C15:random:%d-arguments:%s" % (len(args), obs[0])
    if f in ("max", "min"):
        if exp[0] == "ok" and exp[1] and exp[1][0] in args:
            return "C15:%s:%d-arguments:answer-is-argument-%d" % (f, len(args), args.index(exp[1][0]) + 1)
        return "C15:%s:%d-arguments:%s-expected" % (f, len(args), exp[0])
    if len(args) == 1:
        return "C15:%s:%s" % (f, _num_sign_class(args[0]))
    return "C15:%s:%s" % (f, ",".join(_num_sign_class(a).split("-")[0] if a[0] in ("n", "q") else _num_sign_class(a) for a in args[:2]))


def lua_literal(t):
    if t[0] == "s":
        return '"' + "".join(chr(b) if 32 <= b < 127 and b not in (34, 92) else "\\%d" % b for b in t[1]) + '"'
    if t[0] == "n":
        return str(t[1])
    if t[0] == "q":
        return "%d*2^%d" % (t[1], t[2])
    if t[0] == "inf":
        return "1/0" if t[1] > 0 else "-1/0"
    if t[0] == "nan":
        return "0/0"
    if t[0] == "nz":
        return "-0"
    if t[0] == "p10":
        return "1e%d" % t[1]
    if t[0] == "w":
        return repr((-1 if t[1] else 1) * sum(l << (13 * i) for i, l in enumerate(t[2])) * 2.0 ** t[3])
    if t[0] == "b":
        return "true" if t[1] else "false"
    return t[0]


def lua_call(f, args):
    if f.startswith("op"):
        if f == "opneg":
            return "(-(%s))" % ", ".join(lua_literal(a) for a in args)
        return "(" + (" " + f[2:] + " ").join("(%s)" % lua_literal(a) for a in args) + ")"
    if f in ("huge", "pi"):
        return "math." + f
    lib = "string" if f in ("sub", "byte", "char", "len", "rep", "reverse", "upper", "lower", "find", "format") else "math"
    return "%s.%s(%s)" % (lib, f, ", ".join(lua_literal(a) for a in args))


def show(res):
    if res[0] == "degrad":
        return "the correctly rounded " + ("x/(PI/180)" if res[1] else "x*(PI/180)")
    if res[0] != "ok":
        return res[0]
    return "(" + ", ".join(lua_literal(v) if v[0] not in ("x", "o") else str(v[1]) for v in res[1]) + ")"


# --------------------------------------------------------------------------
# running calls on the real library

_run_no = [0]


def run_calls(groups, tag):
    """groups: list of lists of [f, args]; returns records {id, cs:[[f,args,obs]], msgs}"""
    sd = vlib.subdir("c15")
    _run_no[0] += 1
    inp = os.path.join(sd, "in_%s_%d.json" % (tag, _run_no[0]))
    outp = os.path.join(sd, "out_%s_%d.ndjson" % (tag, _run_no[0]))
    with open(inp, "w") as fh:
        json.dump({"G": [{"id": i + 1, "cs": g} for i, g in enumerate(groups)]}, fh, separators=(",", ":"))
    vlib.run_harness(["c15-run", "--in", inp, "--out", outp, "--seed", str(vlib.seed())], timeout=600)
    recs = vlib.read_ndjson(open(outp).read())
    os.remove(inp)
    os.remove(outp)
    if len(recs) != len(groups) or any(len(r["cs"]) != len(g) for r, g in zip(recs, groups)):
        raise vlib.Infra("c15-run (%s): output does not match the input groups" % tag)
    return recs


_judge_no = [0]
_judge_lock = __import__("threading").Lock()


def judge_submit(pool, recs, tag, batch=300):
    """StrMathTrace on records, one TLC process per batch of groups; returns futures"""
    d = vlib.specdir()
    futs = []

    def one(fn, n):
        r = vlib.run_tlc("StrMathTrace", "StrMathTrace", consts={"File": '"%s"' % fn}, workers=4, heap="3g", timeout=900)
        os.remove(os.path.join(d, fn))
        return r, n
    for b0 in range(0, len(recs), batch):
        with _judge_lock:
            _judge_no[0] += 1
            fn = "c15_%s_%d.ndjson" % (tag, _judge_no[0])
        part = [{"id": r["id"], "cs": r["cs"]} for r in recs[b0:b0 + batch]]
        vlib.write_ndjson(os.path.join(d, fn), part)
        futs.append(pool.submit(one, fn, len(part)))
    return futs


def judge_collect(futs, tag, stats):
    out = {}
    for fu in futs:
        r, n = fu.result()
        stats["states"] += r.distinct
        stats["transitions"] += r.generated
        vs = r.tag("VERDICT")
        if len(vs) != n:
            raise vlib.Infra("StrMathTrace: %d verdicts for %d groups (%s)" % (len(vs), n, tag))
        for v in vs:
            out[v["id"]] = v
    return out


def judge(recs, tag, stats, batch=300):
    """returns {id: verdict}"""
    with ThreadPoolExecutor(max_workers=3) as pool:
        return judge_collect(judge_submit(pool, recs, tag, batch), tag, stats)


def nontrivial(args):
    """a call is non-trivial when some argument is a non-empty string or a non-zero number"""
    return any((a[0] == "s" and a[1]) or (a[0] in ("n", "q") and a[1] != 0) or a[0] in ("inf", "nz", "nan") for a in args)


def chunks(xs, n):
    return [xs[i:i + n] for i in range(0, len(xs), n)]


# --------------------------------------------------------------------------
# TRACE direction: hand-listed irregular calls and seeded random calls

def listed_calls():
    F = lambda s, *a: ["format", [S(s)] + list(a)]
    cs = [
        # several directives, literal text, %%
        F("%d%%", N(5)), F("%%"), F("%%%%"), F("100%% of %d", N(7)), F("a%db%sc", N(1), S("x")),
        F("%s=%d", S("k"), N(3)), F("%5d|%-5d|%05d", N(1), N(2), N(3)), F("%x%X%o", N(255), N(255), N(8)),
        F("\xe9%d\xff", N(1)), F("%c%c%c", N(76), N(117), N(97)), F("[%3s][%-3s]", S("a"), S("b")),
        F(""), F("plain"), F("%d %s", N(1), N(2)), F("%s %s", N(1), Q(5, -1)), F("%s", Q(-3, -2)),
        F("%s", N(0)), F("%s", N(-12)), F("%5s", N(42)), F("%-6s|", Q(1, -3)), F("%.2s", N(12345)),
        # missing / surplus arguments
        F("%d"), F("%s"), F("%c"), F("%x"), F("%d %d", N(1)), F("%s%s", S("a")), F("%d", N(1), N(2)),
        F("%s", S("a"), S("b")), F("%%", N(5)), F("%d%%", N(5), N(6)), F("x", N(1)), F("%d %%", N(1), N(2)),
        # arguments converted to numbers
        F("%d", S("10")), F("%5d", S("10")), F("%+d", S("10")), F("%.3d", S("7")), F("%x", S("255")),
        F("%o", S("8")), F("%c", S("65")), F("%d", S("-7")), F("%d", S("x")), F("%d", S("")), F("%x", S("zz")),
        F("%i", S("12")), F("%-4d|", S("3")),
        F("%d", NIL), F("%d", ["b", True]), F("%x", NIL), F("%c", NIL),
        # flag order and repetition inside the 5-flag limit
        F("%0-5d|", N(3)), F("%-05d|", N(3)), F("%+ d", N(3)), F("% +d", N(3)), F("%--5d|", N(3)),
        F("%00005d", N(3)), F("%#-6x|", N(255)), F("%-#6x|", N(255)), F("%0#6x", N(255)),
        # width / precision with two digits
        F("%12d", N(-5)), F("%-12d|", N(5)), F("%.10d", N(5)), F("%12.10d", N(-5)), F("%20s", S("ab")),
        F("%-20s|", S("ab")), F("%.10s", S("abc")), F("%99d", N(1)), F("%.99d", N(1)), F("%10.4x", N(255)),
        # floating conversions: blank / plus / zero flags, %g styles, infinities; %u %q
        F("% f", Q(3, -1)), F("% .2f", N(0)), F("% e", Q(25, -1)), F("% E", Q(25, -1)), F("% 10.3f", Q(13, -2)),
        F("%- 9.1f|", Q(5, -1)), F("% 08.2f", Q(7, -1)), F("% f", Q(-3, -1)), F("%+f", Q(3, -1)), F("%08.2f", Q(7, -1)),
        F("% g", N(100000)), F("% G", N(1000000)), F("%g", Q(2469135, -1)), F("%g", N(100000)), F("%g", N(1000000)),
        F("%g", Q(1, -13)), F("%g", Q(1, -14)), F("%.3g", Q(1999, -1)), F("%#.3g", N(1)), F("%.0e", Q(5, -1)), F("%.0e", Q(7, -1)),
        F("%.1f", Q(1, -2)), F("%.1f", Q(3, -2)), F("%.0f", Q(1, -1)), F("%.0f", Q(3, -1)), F("%5.0f|", Q(5, -1)),
        F("%f", ["inf", 1]), F("%e", ["inf", -1]), F("%+G", ["inf", 1]), F("%5.1f|", ["inf", 1]), F("%-6g|", ["inf", 1]), F("%06.1f", ["inf", -1]),
        F("%f", S("10")), F("%.1e", S("-7")), F("%g", S("x")), F("%f"), F("%e", NIL), F("%f %d", Q(1, -1), N(2)),
        F("%u", N(42)), F("%05u", N(42)), F("%-5u|", N(7)), F("%.3u", N(7)), F("%q", S("a\"b\\c\nd\re\0f")), F("%q", N(7)), F("%q"),
        # ldexp / frexp far outside +-1024 and in the subnormal range
        ["ldexp", [N(1), N(-1050)]], ["ldexp", [Q(1, -1), N(-1073)]], ["ldexp", [N(1), N(-1075)]], ["ldexp", [Q(1, -1074), N(1100)]],
        ["ldexp", [Q(1, -1074), N(2097)]], ["ldexp", [Q(1, 1023), N(-2097)]], ["ldexp", [N(1), N(1024)]], ["ldexp", [N(1), N(5000)]],
        ["ldexp", [N(1), N(-5000)]], ["ldexp", [Q(1, -1), N(1024)]], ["ldexp", [N(1), N(-1022)]], ["ldexp", [N(3), N(-1075)]],
        ["ldexp", [N(3), N(-1076)]], ["ldexp", [N(-1), N(-1074)]], ["frexp", [Q(1, -1074)]], ["frexp", [Q(3, -1060)]], ["frexp", [Q(1, 1023)]],
        ["frexp", [Q(-1, -1074)]], ["ldexp", [Q(1, -1), N(-1021)]], ["ldexp", [Q(3, -2), N(-1058)]],
        # Go-only directives must be errors, never text with %!(...)
        F("[%v]", N(5)), F("[%[1]d]", N(5)), F("[%*d]", N(5), N(3)), F("[%T]", N(5)), F("[%t]", ["b", True]), F("[%p]", N(5)),
        F("[%b]", N(5)), F("[%U]", N(65)), F("[%F]", N(1)), F("[%a]", N(1)), F("[%n]", N(1)), F("[%5v]", S("a")), F("%d %v", N(1), N(2)),
        F("[%.*f]", N(2), N(1)), F("%", N(1)), F("abc%"), F("%-"), F("%5"), F("%.3"),
        # deg / rad: one rounding of x / c resp. x * c with c = PI/180, also where x*180 or x*PI overflows
        ["deg", [Q(3, 1015)]], ["deg", [Q(-3, 1015)]], ["deg", [Q(1, 1016)]], ["rad", [Q(5, 1021)]], ["rad", [Q(-1, 1023)]], ["rad", [Q(7, 1020)]],
        ["deg", [N(1)]], ["deg", [N(180)]], ["rad", [N(180)]], ["rad", [N(90)]], ["deg", [Q(1, -1)]], ["rad", [N(1)]], ["deg", [N(0)]], ["rad", [["nz"]]],
        ["deg", [["inf", 1]]], ["rad", [["inf", -1]]], ["deg", []], ["rad", [S("x")]], ["deg", [S("180")]],
        # the format string itself given as a number
        ["format", [N(12)]], ["format", [N(12), N(1)]], ["format", []], ["format", [NIL]],
        # subject conversions
        ["len", [N(123)]], ["len", [N(-5)]], ["len", [Q(5, -1)]], ["len", []], ["len", [NIL]], ["len", [["b", True]]],
        ["upper", [N(12)]], ["lower", [Q(-5, -1)]], ["reverse", [N(123)]], ["reverse", [Q(5, -2)]], ["rep", [N(12), N(2)]],
        ["sub", [N(12345), N(2), N(3)]], ["sub", [Q(5, -1), N(2)]], ["byte", [N(12), N(1), N(-1)]], ["find", [N(12345), N(34), N(1), ["b", True]]],
        ["find", [N(12345), S("34")]], ["find", [S("a1b"), N(1)]],
        ["upper", []], ["lower", [NIL]], ["reverse", []], ["rep", [S("a")]], ["rep", [S("a"), NIL]], ["rep", []],
        ["sub", []], ["sub", [NIL, N(1)]], ["byte", []], ["byte", [NIL]], ["find", [S("a")]], ["find", []], ["find", [S("a"), NIL]],
        ["char", [NIL]], ["char", [N(65), NIL]], ["char", [["b", True]]],
        # surplus arguments are ignored
        ["len", [S("ab"), N(1)]], ["upper", [S("ab"), S("x")]], ["reverse", [S("ab"), NIL]], ["rep", [S("ab"), N(2), N(9)]],
        ["sub", [S("abc"), N(2), N(3), N(1)]], ["byte", [S("abc"), N(1), N(2), N(3)]],
        ["find", [S("a.c"), S("."), N(1), ["b", True], N(7)]], ["find", [S("abc"), S("b"), N(1), NIL, N(7)]],
        # integer parameters given as numeric strings (lauxlib converts them)
        ["sub", [S("abc"), S("2")]], ["sub", [S("abc"), N(1), S("2")]], ["byte", [S("abc"), S("2")]],
        ["rep", [S("ab"), S("2")]], ["find", [S("abc"), S("c"), S("2"), ["b", True]]], ["char", [S("65")]],
        ["ldexp", [N(1), S("3")]], ["random", [S("3")]], ["random", [S("2"), S("4")]],
        ["sub", [S("abc"), S("x")]], ["rep", [S("ab"), S("")]], ["char", [S("zz")]],
        # numbers given as numeric strings (luaL_checknumber)
        ["floor", [S("7")]], ["abs", [S("-7")]], ["max", [S("3"), N(2)]], ["min", [N(3), S("2")]], ["fmod", [S("7"), S("3")]],
        ["pow", [S("2"), S("3")]], ["sqrt", [S("16")]], ["modf", [S("5")]], ["frexp", [S("8")]], ["ldexp", [S("3"), N(2)]],
        ["floor", [S("x")]], ["max", [N(1), S("zz")]], ["sqrt", [S("")]], ["abs", [NIL]], ["floor", []], ["ceil", [["b", True]]],
        ["max", []], ["min", []], ["fmod", [N(1)]], ["pow", [N(2)]], ["ldexp", [N(1)]], ["modf", []], ["frexp", []], ["sqrt", []],
        ["max", [N(1), NIL]], ["min", [NIL, N(1)]], ["fmod", [N(1), NIL]],
        # special values
        ["floor", [["inf", 1]]], ["ceil", [["inf", -1]]], ["abs", [["inf", -1]]], ["modf", [["inf", 1]]], ["modf", [["inf", -1]]],
        ["fmod", [N(5), ["inf", 1]]], ["fmod", [N(-5), ["inf", -1]]], ["fmod", [["inf", 1], N(2)]], ["fmod", [N(5), N(0)]], ["fmod", [N(0), N(5)]],
        ["sqrt", [["inf", 1]]], ["sqrt", [["inf", -1]]], ["sqrt", [N(-4)]], ["ldexp", [["inf", 1], N(3)]], ["ldexp", [N(0), N(10)]],
        ["max", [["inf", 1], N(1)]], ["min", [["inf", -1], N(1)]], ["max", [["inf", -1], ["inf", 1]]], ["pow", [N(0), N(-2)]], ["pow", [N(0), N(0)]],
        ["pow", [N(-8), Q(1, -1)]], ["pow", [N(-2), N(3)]], ["pow", [N(-2), N(-2)]], ["pow", [Q(1, -2), Q(-1, -1)]], ["pow", [N(16), Q(-1, -1)]],
        ["ldexp", [N(3), N(40)]], ["ldexp", [N(3), N(-40)]], ["frexp", [Q(3, 40)]], ["floor", [Q(3, 40)]], ["frexp", [Q(-5, -7)]],
        # random: empty intervals are errors, single points are forced
        ["random", [N(0)]], ["random", [N(-1)]], ["random", [N(3), N(1)]], ["random", [N(1), N(0)]], ["random", [N(5), N(5)]],
        ["random", [N(-3), N(-3)]], ["random", [N(1)]], ["random", [NIL]], ["random", [N(1), NIL]], ["random", [["b", True]]],
    ]
    return cs


_POOL = [0, 0, 32, 37, 46, 48, 57, 65, 90, 97, 97, 98, 122, 127, 128, 169, 195, 200, 233, 255, 255]


def rand_string(rng, maxlen=12, nozero=False, allbytes=True):
    n = rng.choice([0, 1, 2, 3, 5, 8, maxlen])
    out = []
    while len(out) < n:
        r = rng.random()
        if r < 0.5:
            b = rng.choice(_POOL)
        elif r < 0.6:
            out.extend(rng.choice([[195, 169], [206, 177], [226, 130, 172], [240, 159, 152, 128]]))
            continue
        else:
            b = rng.randrange(256) if allbytes else rng.choice([97, 98, 99])
        if nozero and b == 0:
            b = 1
        out.append(b)
    return out[:max(n, 0)] if n else []


def rand_index(rng, l):
    r = rng.random()
    if r < 0.8:
        return N(rng.randint(-l - 3, l + 3))
    if r < 0.9:
        return N(rng.choice([-1000000, 1000000, -2147483647, 2147483647 - 4096, 100, -100]))
    return NIL


def rand_dyadic(rng):
    r = rng.random()
    if r < 0.3:
        return N(rng.randint(-40, 40))
    if r < 0.8:
        return Q(rng.randint(-300, 300), rng.randint(-7, 3))
    if r < 0.9:
        return Q(rng.randint(-16384, 16384), rng.randint(-7, 2))
    return rng.choice([["inf", 1], ["inf", -1], N(0), N(1), N(-1)])


def rand_format(rng):
    nd = rng.choice([1, 1, 1, 2, 3])
    fmt = []
    args = []
    for _ in range(nd):
        for _ in range(rng.choice([0, 0, 1, 3])):
            b = rng.choice([32, 58, 97, 120, 200, 233, 255, 10])
            fmt.append(b)
        if rng.random() < 0.15:
            fmt += [37, 37]
        c = rng.choice("ddixXocssueEfgGfg")
        allowed = {"d": "-0+ ", "i": "-0+ ", "x": "-0#+ ", "X": "-0#+ ", "o": "-0#+ ", "c": "-", "s": "-", "u": "-0+ ",
                   "e": "-0#+ ", "E": "-0#+ ", "f": "-0#+ ", "g": "-0#+ ", "G": "-0#+ "}[c]
        fl = [ch for ch in allowed if rng.random() < 0.3]
        rng.shuffle(fl)
        w = rng.choice(["", "", "1", "2", "4", "7", "12"])
        p = rng.choice(["", "", "", ".", ".0", ".1", ".2", ".4", ".11"]) if c != "c" else ""
        fmt += [37] + [ord(ch) for ch in "".join(fl) + w + p + c]
        if c in "di":
            args.append(rng.choice([N(rng.randint(-100000, 100000)), N(0), N(rng.randint(-9, 9)), Q(rng.randint(-99, 99), -2)]))
        elif c in "eEfgG":
            args.append(rng.choice([N(rng.randint(-100000, 100000)), N(0), Q(rng.randint(-4000, 4000), -rng.randint(1, 12)),
                                    Q(rng.randint(1, 999), rng.randint(0, 50)), Q(rng.randint(-99, 99), -1),
                                    rng.choice([["inf", 1], ["inf", -1]])]))
        elif c in "xXou":
            args.append(rng.choice([N(rng.randint(0, 1000000)), N(0), N(rng.randint(0, 20)), Q(rng.randint(1, 99), -1)]))
        elif c == "c":
            args.append(N(rng.randint(1, 255)))
        else:
            args.append(rng.choice([S(rand_string(rng, 6, nozero=True)), S(rand_string(rng, 6, nozero=True)), N(rng.randint(-500, 500)),
                                    Q(rng.randint(-99, 99), -rng.randint(1, 5))]))
    return ["format", [S(fmt)] + args]


def rand_call(rng):
    k = rng.random()
    if k < 0.12:
        s = rand_string(rng)
        a = [S(s), rand_index(rng, len(s))]
        if rng.random() < 0.8:
            a.append(rand_index(rng, len(s)))
        return ["sub", a]
    if k < 0.24:
        s = rand_string(rng)
        a = [S(s)]
        if rng.random() < 0.9:
            a.append(rand_index(rng, len(s)))
            if rng.random() < 0.7:
                a.append(rand_index(rng, len(s)))
        return ["byte", a]
    if k < 0.38:
        s = rand_string(rng)
        if s and rng.random() < 0.6:
            i = rng.randrange(len(s))
            p = s[i:i + rng.choice([1, 1, 2, 3])]
        else:
            p = rand_string(rng, 3)
        if rng.random() < 0.6:
            return ["find", [S(s), S(p), rand_index(rng, len(s)), rng.choice([["b", True], N(1), S("t")])]]
        s2 = [b for b in s if b not in (94, 36, 42, 43, 63, 46, 40, 91, 37, 45, 0)]
        p2 = [b for b in p if b not in (94, 36, 42, 43, 63, 46, 40, 91, 37, 45, 0)]
        a = [S(s2), S(p2)]
        if rng.random() < 0.8:
            a.append(rand_index(rng, len(s2)))
        return ["find", a]
    if k < 0.50:
        s = rand_string(rng, 16)
        f = rng.choice(["upper", "lower", "reverse", "len", "rep"])
        return [f, [S(s)] + ([N(rng.randint(-2, 6))] if f == "rep" else [])]
    if k < 0.55:
        return ["char", [N(rng.choice([rng.randrange(256), rng.randrange(256), rng.randint(-300, 600)])) for _ in range(rng.randint(0, 6))]]
    if k < 0.75:
        return rand_format(rng)
    if rng.random() < 0.25:
        # signed zeros, infinities, NaN through the operators, pow, fmod / mod and the unary functions
        sp = lambda: rng.choice([["nz"], N(0), ["inf", 1], ["inf", -1], ["nan"], N(1), N(-1), N(rng.randint(-9, 9)),
                                 Q(rng.randint(-9, 9), -rng.randint(1, 3)), N(2), N(-3)])
        f = rng.choice(["op+", "op-", "op*", "op/", "op%", "op^", "pow", "fmod", "mod", "opneg", "floor", "ceil", "modf", "sqrt", "abs",
                        "max", "min"])
        if f in ("opneg", "floor", "ceil", "modf", "sqrt", "abs"):
            x = sp()
            return [f, [x if x != ["nan"] or f == "opneg" else ["nz"]]]
        a, b = sp(), sp()
        if f in ("max", "min") and ["nan"] in (a, b):
            a, b = ["nz"], N(0)
        return [f, [a, b]]
    if rng.random() < 0.12:
        m = rng.choice([rng.randint(1, 1000), rng.randint(1, 1000000), 1, 3, 45, 90, 180, 360]) * rng.choice([1, -1])
        e = rng.choice([0, 0, 0, -1, -3, rng.randint(-40, 40), rng.randint(-900, 990), rng.randint(990, 1016 - abs(m).bit_length())])
        return [rng.choice(["deg", "rad"]), [Q(m, e)]]
    f = rng.choice(["floor", "ceil", "abs", "modf", "frexp", "sqrt", "fmod", "pow", "ldexp", "max", "min"])
    if f in ("floor", "ceil", "abs", "modf", "frexp"):
        x = rand_dyadic(rng)
        if f == "frexp" and x[0] == "inf":
            x = N(3)
        if f == "frexp" and rng.random() < 0.5:
            m = rng.choice([1, 3, 7, rng.randint(1, 1000000)]) * rng.choice([1, -1])
            x = Q(m, rng.randint(-1074, 1023 - m.bit_length()))
        return [f, [x]]
    if f == "sqrt":
        r = rng.randint(0, 120)
        return [f, [rng.choice([Q(r * r, 2 * rng.randint(-3, 2)), Q(-rng.randint(1, 50), rng.randint(-3, 2))])]]
    if f == "fmod":
        return [f, [rand_dyadic(rng), rand_dyadic(rng)]]
    if f == "ldexp":
        if rng.random() < 0.5:
            # the whole exponent range: x = m * 2^e representable, shift far outside +-1024
            m = rng.choice([1, 1, 3, 5, 255, rng.randint(1, 1000000)]) * rng.choice([1, -1])
            e = rng.randint(-1074, 1023 - m.bit_length())
            k = rng.choice([rng.randint(-2200, -1020), rng.randint(1020, 2200), -1074 - e, -1075 - e, -1073 - e - m.bit_length(),
                            1023 - e - m.bit_length() + 1, rng.randint(-60, 60)])
            return [f, [Q(m, e), N(k)]]
        x = rand_dyadic(rng)
        return [f, [x, N(rng.randint(-30, 30))]]
    if f == "pow":
        r = rng.random()
        if r < 0.5:
            return [f, [Q(rng.randint(-12, 12), rng.randint(-3, 2)), N(rng.randint(0, 5))]]
        if r < 0.7:
            return [f, [Q(rng.choice([1, -1]), rng.randint(-4, 4)), N(rng.randint(-6, 6))]]
        q = rng.randint(0, 15)
        return [f, [Q(q * q, 2 * rng.randint(-2, 1)), Q(rng.choice([1, 3, 5]), -1)]]
    return [f, [rand_dyadic(rng) for _ in range(rng.randint(1, 6))]]


def random_range_calls(rng, reps):
    cs = []
    for lo in range(-3, 4):
        for hi in range(lo, 4):
            cs += [["random", [N(lo), N(hi)]]] * reps
    for m in range(1, 7):
        cs += [["random", [N(m)]]] * reps
    for lo, hi in ((0, 1000000), (-1000000, 1000000), (999999, 1000000), (-1073741823, -1073741816)):
        cs += [["random", [N(lo), N(hi)]]] * reps
    rng.shuffle(cs)
    return cs


# --------------------------------------------------------------------------

def _register(verd, f, args, exp, obs, msg, direction, extra=None, key=None):
    rep = {"f": f, "args": args, "expected": exp, "observed": obs, "direction": direction, "lua": lua_call(f, args)}
    if f == "random":
        rep["repeat"] = 2000
    if extra:
        rep.update(extra)
    verd.candidate(key or case_key(f, args, exp, obs), "%s returned %s, Lua 5.1 defines %s%s" % (
        lua_call(f, args), show(obs), show(exp) if exp[0] != "random" else "an integer in [%d, %d]" % (exp[1], exp[2]),
        (" [" + msg.split("\n")[0].strip()[:80] + "]") if msg else ""), rep)


def record_candidates(cands, verd, stats):
    """cands: list of (f, args, exp, obs, direction).  Re-execute each on a fresh interpreter, let
    TLC (StrMathTrace) judge, register what is rejected again.  A rejected format call with several
    directives is decomposed into its single directives (each judged by TLC) so that it is
    labelled by the directive that fails.  Returns the number of candidates confirmed."""
    if not cands:
        return 0
    direction = {}
    for f, a, _, _, d in cands:
        direction.setdefault(json.dumps([f, a]), d)
    recs = run_calls(chunks([[f, a] for f, a, _, _, _ in cands], 200), "confirm")
    verdicts = judge(recs, "confirm", stats, batch=400)
    nconf = 0
    multi = []
    flagged = []
    seen = set()
    for rec in recs:
        for k, exp in verdicts[rec["id"]]["bad"]:
            f, args, obs = rec["cs"][k - 1]
            ck = json.dumps([f, args])
            seen.add(ck)
            nconf += 1
            msg = rec.get("msgs", {}).get(str(k), "")
            if f == "format" and args and args[0][0] == "s":
                ds, _ = parse_format(args[0][1])
                if len(ds) > 1 and len(args) - 1 == len(ds):
                    multi.append((args, exp, obs, ds, direction[ck]))
                    continue
            if f == "format" and ":flags=" in case_key(f, args, exp, obs) and ":flags=," not in case_key(f, args, exp, obs):
                flagged.append((args, exp, obs, direction[ck]))
                continue
            _register(verd, f, args, exp, obs, msg, direction[ck])
    # math.random draws differ between executions: a range violation seen once counts
    for f, args, exp, obs, d in cands:
        if f == "random" and json.dumps([f, args]) not in seen:
            nconf += 1
            _register(verd, f, args, exp, obs, "", d)
    if multi:
        subs = {}
        for args, exp, obs, ds, d in multi:
            for k, dd in enumerate(ds):
                subs.setdefault(json.dumps(["format", [["s", dd["text"]], args[1 + k]]]), None)
        order = sorted(subs)
        srecs = run_calls(chunks([json.loads(x) for x in order], 200), "directive")
        sver = judge(srecs, "directive", stats, batch=400)
        for rec in srecs:
            for k, exp in sver[rec["id"]]["bad"]:
                f, a, obs = rec["cs"][k - 1]
                subs[json.dumps([f, a])] = (exp, obs)
        for args, exp, obs, ds, d in multi:
            hit = False
            for k, dd in enumerate(ds):
                a = [["s", dd["text"]], args[1 + k]]
                r = subs[json.dumps(["format", a])]
                if r is not None:
                    hit = True
                    k0 = case_key("format", a, r[0], r[1])
                    if ":flags=" in k0 and ":flags=," not in k0:
                        flagged.append((a, r[0], r[1], d))
                    else:
                        _register(verd, "format", a, r[0], r[1], "", d, {"found_in": lua_call("format", args)})
            if not hit:
                verd.candidate("C15:format:composition-of-correct-directives", "%s returned %s, Lua 5.1 defines %s" % (
                    lua_call("format", args), show(obs), show(exp)),
                    {"f": "format", "args": args, "expected": exp, "observed": obs, "direction": d, "lua": lua_call("format", args)})
    if flagged:
        # a rejected directive with flags: which single flag (or none) is already rejected alone?
        def variant(args, flags, width=True):
            d = parse_format(args[0][1])[0][0]
            txt = "%" + flags + (d["width"] if width else "") + ("" if d["prec"] is None else "." + d["prec"]) + d["conv"]
            return ["format", [S(txt), args[1]]]
        subs = {}
        for args, exp, obs, d in flagged:
            fl = parse_format(args[0][1])[0][0]["flags"]
            for v in [""] + sorted(set(fl)):
                subs.setdefault(json.dumps(variant(args, v)), None)
                subs.setdefault(json.dumps(variant(args, v, False)), None)
        order = sorted(subs)
        srecs = run_calls(chunks([json.loads(x) for x in order], 200), "flags")
        sver = judge(srecs, "flags", stats, batch=400)
        for rec in srecs:
            for k, exp in sver[rec["id"]]["bad"]:
                f, a, obs = rec["cs"][k - 1]
                subs[json.dumps([f, a])] = (exp, obs)
        for args, exp, obs, d in flagged:
            dd = parse_format(args[0][1])[0][0]
            key = None
            if subs[json.dumps(variant(args, ""))] is not None:
                key = "C15:format:%%%s:no-flags,w=%d,p=%d" % (dd["conv"], bool(dd["width"]), dd["prec"] is not None)
                if dd["conv"] in "gG" and dd["prec"] is None:
                    key = "C15:format:%g:default-precision"
            else:
                for v in sorted(set(dd["flags"])):
                    if subs[json.dumps(variant(args, v))] is not None or subs[json.dumps(variant(args, v, False))] is not None:
                        key = "C15:format:%%%s:flag'%s'" % (dd["conv"], v)
                        break
            _register(verd, "format", args, exp, obs, "", d, key=key)
    return nconf


def run(tier):
    t0 = time.time()
    verd = vlib.Verdicts(PROP)
    stats = {"states": 0, "transitions": 0}
    thorough = tier == "thorough"
    vlib.build_harness()
    vlib.specdir()          # create the scratch copy before any thread uses it

    pool = ThreadPoolExecutor(max_workers=3)      # MC, GEN and TRACE side by side
    try:
        return _run(tier, t0, verd, stats, thorough, pool)
    finally:
        pool.shutdown(wait=False, cancel_futures=True)


def _run(tier, t0, verd, stats, thorough, pool):

    # 1. MC: the laws hold on the small scope
    mc_fut = pool.submit(lambda: vlib.run_tlc("StrMathMC", "StrMathMC", workers=4, heap="3g", timeout=900))

    # 2. GEN -> replay -> compare (each TLC run with its replay entirely in its worker thread)
    def gen_one(item):
        fams, consts = item
        r = vlib.run_tlc("StrMathGen", "StrMathGen", consts=consts, workers=4 if thorough else 8, heap="4g", timeout=1500)
        allg = r.tag("GEN")
        r.tagged = {}
        res = []
        for name in fams:
            mine = [g for g in allg if g["fam"] == name]
            undef = sum(g["u"] for g in mine)
            gs = [g for g in mine if g["cs"]]
            # TLC's workers print in any order: fix the order so that a run is reproducible
            gs.sort(key=lambda g: (json.dumps(g["cs"][0][:2]), json.dumps(g["cs"][-1][:2]), len(g["cs"])))
            t1 = time.time()
            recs = run_calls([[[c[0], c[1]] for c in g["cs"]] for g in gs], name)
            n = 0
            cands = []
            dist = set()
            for rec, g in zip(recs, gs):
                for (f, args, obs), c in zip(rec["cs"], g["cs"]):
                    n += 1
                    if nontrivial(args):
                        dist.add(hash((f, repr(args))))
                    if obs != c[2]:
                        cands.append((f, args, c[2], obs))
            sample = None
            if gs:
                g = gs[len(gs) // 2]
                k = len(g["cs"]) // 2
                sample = {"family": name, "call": lua_call(g["cs"][k][0], g["cs"][k][1]), "expected": g["cs"][k][2],
                          "observed": recs[len(gs) // 2]["cs"][k][2]}
            res.append((name, len(gs), n, undef, cands, dist, sample, time.time() - t1))
        return r, res
    gen_futs = [pool.submit(gen_one, item) for item in gen_runs(tier)]

    # 3. TRACE: listed + random calls + math.random, executed first, judged by TLC
    rng = random.Random(vlib.seed() * 104729 + 15)
    calls = listed_calls()
    nlisted = len(calls)
    nrand = 240000 if thorough else 12000
    calls += [rand_call(rng) for _ in range(nrand)]
    rr = random_range_calls(rng, 200 if thorough else 25)
    calls += rr
    trecs = run_calls(chunks(calls, 100), "trace")
    trace_futs = judge_submit(pool, trecs, "trace")

    r = mc_fut.result()
    mc = [("str+find+fmt+num", r.generated, r.distinct)]
    stats["states"] += r.distinct
    stats["transitions"] += r.generated
    vlib.log("[C15] MC: the laws of StrLib / MathLib hold on all %d cases of the small scope (%d states, %.0fs)" % (
        r.distinct // 2, r.distinct, r.wall))

    fam_counts = {}
    distinct = set()
    total_gen = 0
    total_undef = 0
    samples = []
    gen_cands = []
    for fu in gen_futs:
        r, res = fu.result()
        stats["states"] += r.distinct
        stats["transitions"] += r.generated
        vlib.log("[C15] GEN: TLC exported %d groups of calls in %.0fs" % (r.distinct // 2, r.wall))
        for name, ngroups, n, undef, cands, dist, sample, treplay in res:
            fam_counts[name] = {"groups": ngroups, "calls": n, "undecided_not_exported": undef, "differ": len(cands)}
            total_gen += n
            total_undef += undef
            distinct |= dist
            gen_cands += cands
            if sample:
                samples.append(sample)
            vlib.log("[C15] GEN %-6s: %7d calls in %5d groups replayed and compared (%.1fs), %d differ" % (
                name, n, ngroups, treplay, len(cands)))
    if total_undef > 0.05 * (total_gen + total_undef):
        raise vlib.Infra("C15: %d of %d generated calls are not decided by the specification (> 5%%)" % (total_undef, total_gen + total_undef))

    verdicts = judge_collect(trace_futs, "trace", stats)
    ntrace = 0
    nskip = 0
    trace_cands = []
    for rec in trecs:
        v = verdicts[rec["id"]]
        ntrace += v["n"]
        nskip += len(v["skip"])
        skipped = set(v["skip"])
        for k, (f, args, obs) in enumerate(rec["cs"]):
            if (k + 1) not in skipped and nontrivial(args):
                distinct.add(hash((f, repr(args))))
        for k, exp in v["bad"]:
            f, args, obs = rec["cs"][k - 1]
            trace_cands.append((f, args, exp, obs))
    vlib.log("[C15] TRACE: %d calls (%d listed, %d random, %d math.random) judged by TLC, %d not decided, %d rejected" % (
        ntrace, nlisted, nrand, len(rr), nskip, len(trace_cands)))
    if nskip > 0.05 * ntrace:
        raise vlib.Infra("C15: %d of %d recorded calls are not decided by the specification (> 5%%)" % (nskip, ntrace))
    samples.append({"direction": "trace", "call": lua_call(*calls[nlisted + 1]), "observed": trecs[(nlisted + 1) // 100]["cs"][(nlisted + 1) % 100][2]})

    # 4. confirm every candidate on a fresh interpreter, judged by TLC
    ncand = len(gen_cands) + len(trace_cands)
    nconf = record_candidates([c + ("GEN",) for c in gen_cands] + [c + ("TRACE",) for c in trace_cands], verd, stats)
    if nconf != ncand:
        raise vlib.Infra("C15: %d candidates but %d confirmed on re-execution" % (ncand, nconf))

    rc = verd.finish()
    total = total_gen + ntrace
    vlib.write_evidence(PROP, tier, "model_checking", {
        "states": stats["states"], "transitions": stats["transitions"],
        "traces_validated_against_impl": total,
        "evaluations": total,
        "distinct_nontrivial": len(distinct),
        "rule": "one evaluation = one library call with concrete arguments whose real result was compared with / judged by the TLA+ definition "
                "(GEN families enumerated by TLC, listed calls, seeded random calls, repeated math.random draws); distinct = different (function, argument list), "
                "counted with a hash set over all directions; non-trivial = decided by the specification and some argument is a non-empty string, a non-zero number or an infinity",
        "gen_families": fam_counts,
        "gen_calls": total_gen, "trace_calls": ntrace, "trace_not_decided": nskip,
        "candidates": ncand, "candidates_confirmed_by_TLC_on_fresh_interpreter": nconf,
        "distinct_case_keys_rejected": sorted(set(list(verd.nviol) + list(verd.known_hit))),
        "exhaustive": True,
        "exhaustive_scope": "GEN families: every string up to the length bound over the family alphabet x every index in [-len-2, len+2] (and nil/omitted), "
                            "all 256 byte values through upper/lower/reverse/len/rep/char/byte, every flag subset x width x precision x argument of the format grid, "
                            "every pair of the dyadic grid; TRACE part is sampled",
        "samples": samples, "mc_runs": mc,
        "known_findings_hit": sorted(verd.known_hit),
    }, time.time() - t0, len(verd.violations), assumptions=[
        "TLC has no floating point: exp, log, log10, deg, rad, trigonometric/hyperbolic functions, inexact pow/sqrt results, signed zeros, NaN arguments and numbers that are not m*2^e with a small m are not decided; %e %E %f %g %G are decided for dyadic rationals (|m| < 2^30, -16 <= e <= 64) and infinities on the exact decimal expansion with round-half-even, ldexp/frexp for |m| <= 2^20 over the whole exponent range incl. subnormal rounding",
        "format: combinations ISO C leaves undefined (0/# with %s %c, # with %d, precision with %c), negative arguments of %x %X %o, %c of 0, %s of strings with NUL or >= 100 bytes are not decided",
        "non-integral numbers as index / count arguments (platform dependent rounding in lua_number2integer) are not decided; error message texts are not compared",
        "find without the plain flag is decided only for patterns free of magic characters (pattern matching is property C14)",
        "math.random: range membership only (no distribution claim); math.random() without arguments not decided"])
    return rc


def replay(path):
    rec = json.load(open(path))["replay"]
    f, args = rec["f"], rec["args"]
    verd = vlib.Verdicts(PROP)
    verd.findings = []
    stats = {"states": 0, "transitions": 0}
    vlib.build_harness()
    n = int(rec.get("repeat", 1))
    recs = run_calls(chunks([[f, args]] * n, 200), "replay")
    verdicts = judge(recs, "replay", stats)
    for r in recs:
        for k, exp in verdicts[r["id"]]["bad"]:
            _, _, obs = r["cs"][k - 1]
            verd.candidate(case_key(f, args, exp, obs), "%s returned %s, Lua 5.1 defines %s" % (lua_call(f, args), show(obs), show(exp)),
                           {"f": f, "args": args, "expected": exp, "observed": obs, "direction": "replay", "lua": lua_call(f, args)})
    if not verd.violations:
        vlib.log("[C15] replay: %s is admitted by the specification (%d execution(s))" % (lua_call(f, args), n))
    return verd.finish()


def selftest():
    """The binding rejects a corrupted observation and a corrupted expectation."""
    vlib.build_harness()
    stats = {"states": 0, "transitions": 0}
    calls = [["sub", [S("hello"), N(2), N(-2)]], ["format", [S("%5.2d|"), N(7)]], ["fmod", [N(-7), N(3)]], ["random", [N(1), N(3)]]]
    recs = run_calls([calls], "self")
    good = judge(recs, "self", stats)[1]
    if good["bad"]:
        vlib.log("selftest: clean record rejected: %s" % good["bad"])
        return 1
    bad = json.loads(json.dumps(recs))
    bad[0]["cs"][0][2] = ["ok", [S("ello")]]
    bad[0]["cs"][2][2] = ["ok", [N(2)]]
    bad[0]["cs"][3][2] = ["ok", [N(4)]]
    v = judge(bad, "self2", stats)[1]
    hit = sorted(k for k, _ in v["bad"])
    vlib.log("selftest: corrupted observations rejected at calls %s (expected [1, 3, 4])" % hit)
    return 0 if hit == [1, 3, 4] else 1
