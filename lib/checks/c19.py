"""C19 - io handles act as a byte sequence with one cursor.

MC   : IoFileMC.tla - the sparse oracle IoFile is checked by TLC against the
       reference model ByteFile (explicit byte sequence + one cursor, the
       property text) after every operation of every legal history (small
       files), plus cursor/length/tiling invariants and the closed-handle
       guard on 0..4097-byte files, all 12 open modes.
Bind : GEN -> replay.  Histories WITH the expected result of every operation
       come from TLC: (1) one history per transition of IoFileMC's state
       graph for constant slices (open modes, read/write/seek around the
       4096-byte buffer, line layouts, numerals, kept lines() iterators
       called later / after close, seek call forms with buffered writers;
       thorough: all constants),
       (2) seeded random operation proposals evaluated by IoFileEval.tla
       (illegal operations dropped by the spec's Legal).  The Go driver
       performs them on the real io library and reports every disagreement.
Python only moves data and names the rejected cases."""
import json, os, random, time
import vlib

PROP = "C19"

READS = ("read", "readline", "readall", "readnum", "readm", "lines", "calliter")
SEEKS = ("seek", "seek0", "seek1")

# ---------------------------------------------------------------------------
# case keys (naming only; the verdict is the driver's byte comparison against
# the TLC-computed expectation)

NONCORRUPTING = ("C19:closed:", "C19:setvbuf:line-rejected", "C19:line-read:CR-before-LF-stripped")


def _dirclass(mode):
    m = mode.replace("b", "")
    return {"r": "read-only", "w": "write-only", "a": "write-only"}.get(m, "update")


def case_key(h, bad):
    at = bad["at"]
    steps = h["steps"]
    step = steps[at - 1] if at else None
    ek, gk = bad["exp"]["k"], bad["got"]["k"]
    rel = (bad.get("rel") or {}).get("rel", "")
    if step is not None and step["op"] == "calliter" and step["a"] == "arg" and gk == "data" \
            and bad["got"].get("head", "").startswith('"OTHER FILE'):
        return "C19:lines-iterator:argument-used-as-the-file"
    if step is not None and step["pre"]["closed"] and step["op"] not in ("open", "peek"):
        op = "read" if step["op"] in ("read", "readline", "readall", "readnum", "readm") else step["op"]
        dc = _dirclass(step["pre"]["mode"])
        if gk == "fail" and ((op == "read" and dc == "write-only") or (op in ("write", "flush") and dc == "read-only")):
            return "C19:closed:mode-guard-before-closed-guard"
        if op == "lines" and gk in ("iterator", "none"):
            return "C19:closed:lines:no-error-at-call"
        if op in SEEKS:
            return "C19:closed:seek:returns-%s-instead-of-raising" % ("nil" if gk == "fail" else gk)
        if op == "setvbuf":
            return "C19:closed:setvbuf:no-error"
        if op == "calliter":
            return "C19:closed:kept-lines-iterator:returns-%s-instead-of-raising" % gk
        return "C19:closed:%s:%s" % (op, gk)
    if gk == "crash":
        return "C19:read:huge-count:process-crash"
    if step is not None:
        if (step["op"] in ("readline", "readall", "readnum") and step["a"] == "long") or \
                (step["op"] == "readm" and any(f[0] != "c" and f[1] == 1 for f in step.get("fs", []))):
            return "C19:read:long-format-spelling"              # "*line" "*all" "*number": only the first letter counts
        if step["op"] == "setvbuf" and ek == "ok" and gk == "fail" and "only reading" in bad["got"].get("msg", ""):
            return "C19:setvbuf:read-only-handle-refused"
        if step["op"] == "calliter" and step["a"] == "arg":
            return "C19:lines-iterator:argument-used-as-the-file"
        if step["op"] == "read" and step["a"] == "" and ek == "data" and gk == "data" and bad["got"]["len"] > step["n"]:
            return "C19:read:count:returns-more-bytes-than-asked"
        if step["op"] == "read" and step["a"] in ("-1", "-5") and gk == "error":
            return "C19:read:negative-count:raises-instead-of-reading-the-rest"
        if step["op"] == "open" and step["a"] in ("r+b", "w+b", "a+b") and ek in ("ok", "fail") and gk == "error":
            return "C19:open:mode-spelled-x+b-rejected"
        if step["op"] == "setvbuf" and step["a"] == "line" and gk == "error":
            return "C19:setvbuf:line-rejected"
        if step["op"] == "lines" and step["exp"][0] == "lines" and not _triggers(steps[:at]):
            # expected lengths of the lines of this call up to the rejected one
            lens = [sum(d[3] for d in e[1]) for e in step["exp"][1][:bad.get("line", 0)] if e[0] == "data"]
            if any(l >= 4096 for l in lens):
                return "C19:lines:line>=4096-split"
        if step["op"] in ("readline", "lines", "calliter") and rel == "trailing-CR-dropped":
            return "C19:line-read:CR-before-LF-stripped"
        vals = bad.get("values") or bad["got"].get("values") or []
        if (step["op"] == "readnum" and ek in ("eof", "num") and gk == "fail" and "unexpected newline" not in bad["got"].get("msg", "")) or \
                (step["op"] == "readm" and any(f[0] == "n" for f in step.get("fs", [])) and [v["k"] for v in vals] == ["eof", "data", "num"]):
            return "C19:read-number:failed-numeral-returns-error-triple"     # (nil, msg, 1); earlier results of the call are lost
        if step["op"] == "readm" and ek == "multi" and gk == "multi" and bad["got"]["n"] > bad["exp"]["n"]:
            return "C19:read-multi:continues-after-the-first-failing-format"
        if step["op"] == "readnum" and gk == "fail" and "unexpected newline" in bad["got"].get("msg", "") \
                and not _triggers(steps[:at]):
            return "C19:read-number:newline-not-skipped"
        if step["op"] == "read" and step["n"] == 0 and step["pre"]["mode"] in ("a", "ab") and ek == "fail" and gk == "data":
            return "C19:read(0):append-only-handle-returns-empty-string"
    trig = _triggers(steps[:at] if at else steps)
    if trig:
        return trig
    op = step["op"] if step else "disk-after-close"
    dc = _dirclass(step["pre"]["mode"]) if step else "-"
    return "C19:%s:%s:exp-%s:got-%s%s" % (op, dc, ek, gk, (":" + rel) if rel else "")


def _triggers(steps):
    """earliest known corrupting pattern in a history prefix, or None"""
    ra = False          # a read happened since the last reposition
    for s in steps:
        pre, op = s["pre"], s["op"]
        if op == "open" and s["exp"][0] == "ok":
            ra = False
            continue
        if pre["closed"] or op in ("open", "peek", "getiter") or (op == "calliter" and s["exp"][0] == "error"):
            continue
        if op in READS and s["exp"][0] in ("data", "lines", "eof", "num", "multi"):
            ra = True
            if op == "lines" and any(e[0] == "data" and sum(d[3] for d in e[1]) >= 4096 for e in s["exp"][1]):
                return "C19:lines:line>=4096-split"     # even when the pieces happen to compare equal
            if op == "calliter" and s["exp"][0] == "data" and sum(d[3] for d in s["exp"][1]) >= 4096:
                return "C19:lines:line>=4096-split"
        elif op == "setvbuf" and pre["pend"] and s["exp"][0] == "ok":
            return "C19:setvbuf:pending-output-discarded"
        elif op in SEEKS:
            if pre["pend"]:
                return "C19:seek:buffered-writes-not-flushed"
            if s["exp"][0] == "num":
                ra = False
        elif op == "write" and s["exp"][0] == "ok":
            if ra:
                return "C19:write-after-read+flush:read-ahead-not-abandoned"
        elif op == "close":
            ra = False
    return None


# ---------------------------------------------------------------------------

def replay_histories(hists, tag, verd, stats):
    """hists: list of {id, init, steps, final} (expectations from TLC)."""
    t0 = time.time()
    sd = vlib.subdir("c19")
    fd = vlib.subdir("c19files")
    inp = os.path.join(sd, "hist_%s.ndjson" % tag)
    outp = os.path.join(sd, "res_%s.ndjson" % tag)
    # histories with a huge read count could (and once did) make the real code allocate the count and die with
    # Go's fatal out-of-memory error, which nothing can catch: they run in a child of their own that logs
    # begin/result per history, so that a crash becomes an observation of that history
    risky = [h for h in hists if any(s["op"] == "read" and s["a"] in HUGE for s in h["steps"])]
    rids = set(h["id"] for h in risky)
    safe = [h for h in hists if h["id"] not in rids]
    vlib.write_ndjson(inp, safe)
    vlib.run_harness(["c19-run", "--in", inp, "--out", outp, "--dir", fd, "--workers", "8"], timeout=1200)
    res = vlib.read_ndjson(open(outp).read())
    crashes = 0
    while risky:
        vlib.write_ndjson(inp, risky)
        rc, _, err = vlib.run_harness(["c19-run", "--in", inp, "--out", outp, "--dir", fd, "--isolate"], timeout=600, check=False)
        recs = vlib.read_ndjson(open(outp).read())
        done = [r for r in recs if "begin" not in r]
        res.extend(done)
        if rc == 0:
            break
        begun = [r["begin"] for r in recs if "begin" in r]
        finished = set(r["id"] for r in done)
        if not begun or begun[-1] in finished:
            raise vlib.Infra("c19-run --isolate failed (rc=%d) outside a history:\n%s" % (rc, err[-2000:]))
        cul = begun[-1]
        h = [x for x in risky if x["id"] == cul][0]
        at = [i for i, s in enumerate(h["steps"]) if s["op"] == "read" and s["a"] in HUGE][0] + 1
        why = ([l for l in err.splitlines() if l.startswith(("fatal error", "panic", "runtime:"))] or ["process died"])[0]
        res.append({"id": cul, "ok": False, "n": len(h["steps"]),
                    "bad": [{"at": at, "exp": {"k": h["steps"][at - 1]["exp"][0]}, "got": {"k": "crash", "msg": why[:200]}}]})
        crashes += 1
        risky = risky[[x["id"] for x in risky].index(cul) + 1:]
        if crashes >= 3 and risky:          # enough evidence; the rest of this batch is not replayed
            gone = set(x["id"] for x in risky)
            hists = [x for x in hists if x["id"] not in gone]
            stats["not_replayed_after_crashes"] = stats.get("not_replayed_after_crashes", 0) + len(gone)
            break
    res = sorted(res, key=lambda r: r["id"])   # workers finish in any order
    os.remove(inp)
    os.remove(outp)
    if len(res) != len(hists):
        raise vlib.Infra("c19-run returned %d results for %d histories" % (len(res), len(hists)))
    byid = {h["id"]: h for h in hists}
    nbad = 0
    for r in res:
        h = byid[r["id"]]
        stats["histories"] += 1
        stats["ops"] += len(h["steps"])
        compared, final = len(h["steps"]), 1
        if h["steps"]:
            stats["maxlen"] = max(stats["maxlen"], len(h["steps"]))
        for s in h["steps"]:
            k = s["op"] + ("@closed" if s["pre"]["closed"] and s["op"] not in ("open", "peek") else "")
            stats["byop"][k] = stats["byop"].get(k, 0) + 1
            stats["bytag"].setdefault(tag, set()).add(k)
        for bad in r.get("bad", []):
            key = case_key(h, bad)
            nbad += 1
            where = "final file on disk" if bad["at"] == 0 else "step %d (%s %s %s)" % (
                bad["at"], h["steps"][bad["at"] - 1]["op"], h["steps"][bad["at"] - 1]["a"], h["steps"][bad["at"] - 1]["n"])
            what = "%s history #%d size=%s lay=%s: %s expected %s, real io returned %s" % (
                tag, h["id"], h["init"]["size"], json.dumps(h["init"]["lay"]), where,
                json.dumps(bad["exp"]), json.dumps(bad["got"]))
            verd.candidate(key, what, {"source": tag, "history": h, "mismatch": bad,
                                       "lua": render_lua(h, bad["at"])})
            if not key.startswith(NONCORRUPTING):
                if bad["at"]:
                    compared, final = bad["at"], 0
                break           # the real handle is off the model from here on
        stats["ops_compared"] += compared
        stats["finals_compared"] += final
    vlib.log("[C19]   %s: %d histories replayed in %.1fs, %d rejected observations" % (tag, len(hists), time.time() - t0, nbad))
    return res


def render_lua(h, upto):
    """the history as a Lua snippet (documentation inside the replay file)"""
    out = ["-- file: %s bytes, layout %s" % (h["init"]["size"], json.dumps(h["init"]["lay"]))]
    steps = h["steps"][:upto] if upto else h["steps"]
    for s in steps:
        op, a, n = s["op"], s["a"], s["n"]
        long = {"l": "line", "a": "all", "n": "number"}
        fmts = ", ".join(str(f[1]) if f[0] == "c" else '"*%s"' % (long[f[0]] if f[1] == 1 else f[0]) for f in s.get("fs", []))
        c = {"readm": "f:read(%s)  -- io.read(..) when f is the default input" % fmts,
             "open": "f = io.tmpfile()" if a == "tmp" else ("io.output(path) f = io.output()" if a == "out" else ("io.input(path) f = io.input()" if a == "in" else 'f = io.open(path, "%s")' % a)), "peek": 'io.open(path, "r"):read("*a")',
             "read": "f:read(%s)" % (a or n), "readline": 'f:read("*line")' if a == "long" else 'f:read("*l")',
             "readall": 'f:read("*all")' if a == "long" else 'f:read("*a")',
             "readnum": 'f:read("*number")' if a == "long" else 'f:read("*n")',
             "lines": "it = f:lines() -- called %d times" % n, "write": "f:write(payload(%d, %d))" % (s["tag"], n),
             "seek": 'f:seek("%s", %d)' % (a, n), "seek0": "f:seek()", "seek1": 'f:seek("%s")' % a,
             "getiter": "it = f:lines()  -- kept", "calliter": "it(g)  -- g: an open handle on another file" if a == "arg" else "it()", "flush": "f:flush()",
             "setvbuf": ('f:setvbuf("%s", %d)' % (a, n)) if n else 'f:setvbuf("%s")' % a,
             "close": "f:close()"}[op]
        out.append("%s  --> %s" % (c, json.dumps(s["exp"])[:120]))
    return out


def gen_bfs(cfg, depth, timeout=900):
    # one worker: breadth-first order, and with it the exported set, is deterministic
    r = vlib.run_tlc("IoFileMC", cfg, consts={"MaxHist": depth}, timeout=timeout, workers=1)
    hs = r.tag("GEN")
    for i, h in enumerate(hs):
        h["id"] = i + 1
    return hs, r


# ---- seeded random proposals (operations only; TLC decides legality and results)

SIZES = [-1, 0, 1, 2, 10, 100, 4000, 4094, 4095, 4096, 4097, 4098, 5000, 8191, 8192, 8193, 9000,
         65536, 70000, 131073, 200000]       # far beyond every internal buffer / chunk size (4096, 65536)
LAYS = [["num", 4], ["num", 2], ["num", 7], ["num", 10], ["per", 37], ["per", 0], ["per", 1], ["per", 2], ["per", 4096], ["per", 4097], ["per", 1000],
        ["crlf", 37], ["crlf", 2], ["crlf", 4097], ["at", 4095], ["at", 4096], ["at", 4094], ["at", 100], ["at", 0]]
COUNTS = [0, 1, 2, 3, 10, 36, 37, 100, 4000, 4095, 4096, 4097, 5000, 8192, 8193, 65535, 65536, 65537, 70000, 131073]
OFFS = [0, 0, 0, 1, -1, 2, -2, 37, -37, 100, -100, 4095, -4095, 4096, -4096, 4097, 5000, -5000, 9000, 65536, -65536, 70000, -70000]
MODES = ["r", "rb", "w", "wb", "a", "ab", "r+", "rb+", "w+", "wb+", "a+", "ab+", "r+b", "w+b", "a+b"]
UPDATE = ["r+", "w+", "a+", "rb+", "r+", "w+", "tmp", "wb+", "ab+", "r+b", "w+b", "a+b"]
LONGS = ["", "", "long"]        # "*l" / "*line" ...
RESTCOUNTS = ["-1", "-5", "2^31", "2^40", "1e12"]
HUGE = ("2^31", "2^40", "1e12")
VSIZES = [0, 0, 1, 2, 16, 100, 4096]


def op(o, a="", n=0):
    return {"op": o, "a": a, "n": n}


def rand_ops(rng, n):
    ops = [op("open", rng.choice(MODES if rng.random() < 0.4 else UPDATE))]
    for _ in range(n):
        r = rng.random()
        cnt = rng.choice(COUNTS) if rng.random() < 0.8 else rng.randint(1, 9000)
        if r < 0.02:
            ops.append(op("read", rng.choice(RESTCOUNTS), 0))      # negative / huge count: the rest of the file
        elif r < 0.16:
            ops.append(op("read", "", cnt))
        elif r < 0.18:
            ops.append(op("readnum", rng.choice(LONGS)))
        elif r < 0.20:
            k = rng.choice([2, 2, 3])      # f:read(fmt1, fmt2[, fmt3])
            o = op("readm")
            o["fs"] = [rng.choice([["c", rng.choice([0, 1, 2, 37, 4096, cnt])], ["l", rng.choice([0, 0, 1])], ["n", rng.choice([0, 0, 1])], ["a", rng.choice([0, 0, 1])]]) for _ in range(k)]
            ops.append(o)
        elif r < 0.24:
            ops.append(op("readline", rng.choice(LONGS)))
        elif r < 0.28:
            ops.append(op("readall", rng.choice(LONGS)))
        elif r < 0.30:
            ops.append(op("getiter"))
        elif r < 0.34:
            ops.append(op("lines", "", rng.choice([1, 2, 3, 5])))
        elif r < 0.52:
            ops.append(op("write", "", cnt))
        elif r < 0.60:
            q = rng.random()       # the call forms with defaulted arguments
            ops.append(op("seek0") if q < 0.5 else op("seek1", rng.choice(["set", "cur", "end"])))
        elif r < 0.74:
            off = rng.choice(OFFS) if rng.random() < 0.8 else rng.randint(-9000, 9000)
            ops.append(op("seek", rng.choice(["set", "cur", "end"]), off))
        elif r < 0.84:
            ops.append(op("flush"))
        elif r < 0.88:
            ops.append(op("setvbuf", rng.choice(["no", "full", "full", "line"]), rng.choice(VSIZES)))
        elif r < 0.93:
            ops.append(op("peek") if rng.random() < 0.5 else op("calliter", rng.choice(["", "", "arg"])))
        elif r < 0.97:
            ops.append(op("close"))
        else:
            ops.append(op("open", rng.choice(MODES + ["tmp", "out", "in"])))
    if rng.random() < 0.35:
        # motif: small stream buffer, short read (leaves read-ahead), flush, a write around / beyond the buffer size
        b = rng.choice([1, 2, 16, 100, 4096])
        m = [op("seek", "set", rng.choice([0, 0, 1, 50])), op("setvbuf", rng.choice(["full", "full", "line"]), b),
             op("read", "", rng.choice([1, 2, 4, 37])), op("flush"),
             op("write", "", max(1, rng.choice([b - 1, b, b + 1, 2 * b + 1, 5000]))),
             rng.choice([op("seek0"), op("peek"), op("flush"), op("read", "", 3)]), op("flush"), op("peek")]
        at = rng.randint(1, len(ops))
        ops[at:at] = m
    return ops


def gen_random(rng, n, maxops, stats, tag):
    recs = []
    for i in range(n):
        size = rng.choice(SIZES) if rng.random() < 0.85 else rng.randint(0, 9000)
        recs.append({"id": i + 1, "size": size, "lay": rng.choice(LAYS),
                     "ops": rand_ops(rng, rng.randint(4, maxops))})
    hs = []
    # evaluation happens while TLC enumerates initial states (one thread per process): many small processes
    for r in vlib.validate_batches("IoFileEval", "IoFileEval", recs, "c19_" + tag, batch=max(500, (len(recs) + 7) // 8), parallel=8, heap="2g"):
        stats["states"] += r.distinct
        stats["transitions"] += r.generated
        g = r.tag("GEN")
        if len(g) != r.nrecords:
            raise vlib.Infra("IoFileEval: %d GEN lines for %d records" % (len(g), r.nrecords))
        hs.extend(g)
        stats["evaluations"] += sum(len(h["steps"]) for h in g)
    proposed = sum(len(r["ops"]) for r in recs)
    kept = sum(len(h["steps"]) for h in hs)
    stats["proposed_ops"] += proposed
    stats["legal_ops"] += kept
    return hs


def new_stats():
    return {"states": 0, "transitions": 0, "histories": 0, "ops": 0, "ops_compared": 0, "maxlen": 0, "byop": {},
            "evaluations": 0, "proposed_ops": 0, "legal_ops": 0, "finals_compared": 0, "bytag": {}}


def run(tier):
    t0 = time.time()
    verd = vlib.Verdicts(PROP)
    stats = new_stats()
    vlib.build_harness()
    thorough = tier == "thorough"
    slices = [("IoFileGen_modes", 4, "modes"), ("IoFileGen_rw", 4 if thorough else 3, "rw"), ("IoFileGen_lines", 4, "lines"),
              ("IoFileGen_num", 4, "num"), ("IoFileGen_iter", 6, "iter"), ("IoFileGen_buf", 5, "buf"),
              ("IoFileGen_wbuf", 5, "wbuf"), ("IoFileGen_wbuft", 7, "wbuft"),
              ("IoFileGen_multi", 3, "multi"), ("IoFileGen_svb", 6, "svb"),
              ("IoFileGen_huge", 5, "huge") if thorough else ("IoFileGen_hugeq", 4, "huge")]
    if thorough:
        slices.append(("IoFileGen_all", 3, "all"))
        slices.append(("IoFileGen_wbufa", 6, "wbufa"))
    from concurrent.futures import ThreadPoolExecutor
    vlib.specdir()                      # create the scratch copy before threads use it
    pool = ThreadPoolExecutor(max_workers=len(slices) + 3)
    # 1. MC: the oracle against the reference model, and its invariants at real sizes
    mcjobs = [(cfg, d, pool.submit(vlib.run_tlc, "IoFileMC", cfg, consts={"MaxHist": d}, timeout=1500, workers=w))
              for cfg, d, w in ((("IoFileMC_small", 5, 8), ("IoFileMC_smallq", 6, 8), ("IoFileMC_big", 4, 4)) if thorough else
                                (("IoFileMC_smallq", 4, 8), ("IoFileMC_big", 3, 4)))]
    futs = [(tag, cfg, d, pool.submit(gen_bfs, cfg, d)) for cfg, d, tag in slices]   # single-worker TLC runs
    mc = []
    for cfg, d, fut in mcjobs:
        r = fut.result()
        mc.append({"cfg": cfg, "depth": d, "generated": r.generated, "distinct": r.distinct})
        stats["states"] += r.distinct
        stats["transitions"] += r.generated
        vlib.log("[C19] MC %s depth %d: %d generated / %d distinct states, invariants hold (%.0fs)" % (cfg, d, r.generated, r.distinct, r.wall))
    # 2. GEN (state graph) -> replay
    distinct = set()
    samples = []
    for tag, cfg, d, fut in futs:
        hs, r = fut.result()
        stats["states"] += r.distinct
        stats["transitions"] += r.generated
        vlib.log("[C19] GEN %s depth %d: %d histories (one per transition, %d distinct states, %.0fs)" % (cfg, d, len(hs), r.distinct, r.wall))
        replay_histories(hs, tag, verd, stats)
        for h in hs:
            if len(h["steps"]) >= 3:
                distinct.add(vlib.canon_hash([h["init"], [(s["op"], s["a"], s["n"], s.get("fs", [])) for s in h["steps"]]]))
        if hs:
            samples.append({"source": tag, "lua": render_lua(hs[len(hs) // 2], 0)})
    pool.shutdown()
    # 3. seeded random proposals -> IoFileEval -> replay
    rng = random.Random(vlib.seed() * 104729 + 19)
    nrand = 40000 if thorough else 3000
    t1 = time.time()
    hs = gen_random(rng, nrand, 40 if thorough else 30, stats, "rnd")
    vlib.log("[C19] random: %d proposals -> %d legal operations of %d proposed (expected results by IoFileEval, %.0fs)" % (
        nrand, stats["legal_ops"], stats["proposed_ops"], time.time() - t1))
    replay_histories(hs, "rnd", verd, stats)
    for h in hs:
        if len(h["steps"]) >= 3:
            distinct.add(vlib.canon_hash([h["init"], [(s["op"], s["a"], s["n"], s.get("fs", [])) for s in h["steps"]]]))
    samples.append({"source": "rnd", "lua": render_lua(hs[0], 0)})
    # vacuity: every kind of operation, on open and on closed handles, was replayed
    need = ["open", "peek", "read", "readline", "readall", "readnum", "readm", "lines", "write", "seek", "flush", "setvbuf", "close",
            "seek0", "seek1", "getiter", "calliter"]
    need += [k + "@closed" for k in need[2:]]
    missing = [k for k in need if not stats["byop"].get(k)]
    # the dedicated slices reach what they were made for
    for tag, ks in (("buf", ["setvbuf", "write", "seek0", "seek1", "peek"]),
                    ("iter", ["getiter", "calliter", "calliter@closed", "readline", "seek0"]),
                    ("wbuf", ["setvbuf", "read", "flush", "write", "peek"]),
                    ("wbuft", ["setvbuf", "read", "flush", "write", "seek"]),
                    ("multi", ["readm", "readm@closed", "readall"]),
                    ("svb", ["setvbuf", "write", "peek", "close"]),
                    ("huge", ["read", "write", "seek", "peek", "readline"])):
        missing += ["%s:%s" % (tag, k) for k in ks if k not in stats["bytag"].get(tag, ())]
    if missing:
        raise vlib.Infra("generated histories never exercised: %s" % missing)
    rc = verd.finish()
    vlib.write_evidence(PROP, tier, "model_checking", {
        "states": stats["states"], "transitions": stats["transitions"],
        "traces_validated_against_impl": stats["histories"],
        "operations_replayed": stats["ops"], "operations_compared_before_divergence": stats["ops_compared"],
        "files_on_disk_compared_after_close": stats["finals_compared"],
        "evaluations": stats["ops_compared"] + stats["finals_compared"], "longest_history": stats["maxlen"],
        "operations_by_kind": dict(sorted(stats["byop"].items())),
        "random_proposed_ops": stats["proposed_ops"], "random_legal_ops": stats["legal_ops"],
        "distinct_nontrivial": len(distinct),
        "rule": "histories = one per transition of IoFileMC's state graph (BFS, one per (state, depth), single worker) for the constant slices "
                "modes/rw/lines/num/iter/buf/wbuf/wbuft/multi/svb/huge%s, plus seeded random proposals filtered by Legal; distinct by canonical hash of "
                "(initial size, layout, operation list); non-trivial = at least 3 operations" % ("/all/wbufa" if thorough else ""),
        "samples": samples, "mc_runs": mc, "exhaustive": False,
        "rejected_case_keys": dict(sorted(verd.nviol.items())),
        "known_findings_hit": sorted(verd.known_hit),
    }, time.time() - t0, len(verd.violations), assumptions=[
        "the oracle IoFile is checked against the reference byte-sequence model only for files of 0..5 bytes (depth 4-6); "
        "at 0..4097 bytes TLC checks its cursor/length/tiling invariants and the closed-handle guard",
        "histories obey the ISO C stream discipline stated by the property (seek/flush between read and write and between "
        "write and read; second-handle reads only with nothing buffered); setvbuf is in scope at any point and must not "
        "lose accepted output (no visibility claim before the next flush/seek/close); others are never generated",
        "initial position of append-mode handles is treated as unknown until a seek or write",
        "the two byte generators (base pattern, write payload) are mirrored in Go (data, not semantics)",
        "read('*n') only on unsigned decimal numerals delimited by white space, at end of file, or failing on a byte no "
        "numeral can start with (other inputs are not generated)",
        "not covered: io.popen, std handles, io.lines/io.read default-file functions, OS write errors"])
    return rc


def replay(path):
    rec = json.load(open(path))
    h = rec["replay"]["history"]
    # recompute the expectations with TLC from the bare operations
    stats = new_stats()
    recs = [{"id": 1, "size": h["init"]["size"], "lay": h["init"]["lay"],
             "ops": [dict({"op": s["op"], "a": s["a"], "n": s["n"]}, **({"fs": s["fs"]} if s["op"] == "readm" else {}))
                     for s in h["steps"]]}]
    hs = []
    for r in vlib.validate_batches("IoFileEval", "IoFileEval", recs, "c19_replay", batch=10, parallel=1):
        hs.extend(r.tag("GEN"))
    if len(hs) != 1:
        raise vlib.Infra("IoFileEval produced %d histories for the replay" % len(hs))
    verd = vlib.Verdicts(PROP)
    verd.findings = []
    res = replay_histories(hs, "replay", verd, stats)
    for r in res:
        for bad in r.get("bad", []):
            vlib.log("  mismatch: %s" % json.dumps(bad))
    return verd.finish()
