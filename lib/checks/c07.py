"""C07 - every compiled function is well-formed bytecode.

MC   : BytecodeMC/BytecodeVM - TLC enumerates every code sequence of <= 3 words
       over an alphabet of well-formed and ill-formed instruction instances and
       checks  WF(p) => [] (the abstract VM never indexes outside constants /
       upvalues / prototypes / code / frame and only dispatches instruction
       boundaries), plus decode/encode laws and scan agreement.
Bind : record -> TRACE.  Source texts from the program generators of C01..
       (gen_core, gen_shapes) and the adversarial generator G-big
       (gen_c07big) are compiled by the REAL parse.Parse + lua.Compile; every
       (nested) FunctionProto is dumped as plain data and the TLA+ predicate of
       module Bytecode is evaluated on it by TLC (BytecodeTrace).  One VERDICT
       per prototype lists the violated rules; rule = narrow case key."""
import json, os, random, time
from concurrent.futures import ThreadPoolExecutor
import vlib, gen_core, gen_shapes, gen_c07big
from luagen import render

PROP = "C07"
BIG_SRC = 200000        # sources longer than this are not stored in replay files (the case descriptor is)


# --------------------------------------------------------------------------
# corpus

def build(tier, seed):
    """list of cases: {"id", "fam", "name", "src" | "gen": [fam, params]}"""
    thorough = tier == "thorough"
    rng = random.Random(seed * 1000003 + 7)
    cases = []

    def add(fam, name, src=None, gen=None):
        cases.append({"id": len(cases) + 1, "fam": fam, "name": name, "src": src, "gen": gen})
    # 1. the generators of the semantic checks (C01..C06, C17 reuse them)
    for i in range(4000 if thorough else 350):
        s = seed * 1000000 + i
        _, _, src = gen_core.gen_program(s, err_rate=0.10)
        add("core", str(s), src)
    for i in range(600 if thorough else 60):      # larger programs
        s = seed * 1000000 + 500000 + i
        _, _, src = gen_core.gen_program(s, size=rng.choice([30, 45, 60]), err_rate=0.05)
        add("core-large", str(s), src)
    na, ne = (2500, 6000) if thorough else (250, 400)
    for j, (p, root) in enumerate(gen_shapes.gen_assign(rng, na, exhaustive2=thorough)):
        add("assign", str(j), render(p, root))
    for j, (p, root) in enumerate(gen_shapes.gen_expr(rng, ne)):
        add("expr", str(j), render(p, root))
    for j in range(300 if thorough else 40):      # G-pad: the same among many locals / constants
        if j % 2:
            p, root = gen_shapes.gen_expr(rng, 1)[0]
        else:
            while True:
                ts = rng.sample(gen_shapes.TARGETS, rng.choice([2, 3]))
                if not gen_shapes._aliases(ts):
                    break
            p, root = gen_shapes.assign_case(ts, [rng.choice(gen_shapes.SOURCES) for _ in ts], rng.random() < 0.4)
        p, root = gen_shapes.pad(p, root, rng.choice([20, 80, 120, 180]), rng.choice([0, 300, 600]))
        add("pad", str(j), render(p, root))
    # 2. G-big
    for fam, name, params in gen_c07big.cases(tier, seed):
        add("big-" + fam, name, None, [fam, params])
    return cases


CTOR_TAILS = {"none": ("", 0), "call0": ("c0()", 0), "call1": ("c1()", 1), "call2": ("c2()", 2),
              "dots0": ("...", 0), "dots2": ("...", 2), "paren": ("(c2())", 1)}


def ctor_val(i):
    return i % 251 + 1          # = Val(i) of CtorTrace.tla; few distinct constants keep the compiler's constant search cheap


def ctor_source(n, tail):
    """the chunk returns the table built by ONE constructor: n positional items ctor_val(1..n), then the tail"""
    text, r = CTOR_TAILS[tail]
    items = ", ".join(str(ctor_val(i)) for i in range(1, n + 1))
    body = "{" + items + (", " if n and text else "") + text + "}"
    pre = ("local function c0() end\nlocal function c1() return 900001 end\n"
           "local function c2() return 900001, 900002 end\n")
    if tail.startswith("dots"):
        args = ", ".join(str(900000 + j) for j in range(1, r + 1))
        return pre + "local function va(...) return " + body + " end\nreturn va(" + args + ")\n"
    return pre + "return " + body + "\n"


def ctor_probe(n, r):
    ks = {1, 2, 49, 50, 51, 100, 101, n - 1, n, 25500, 25501, 25550, 25551, 25600, 25601, 25650, 25651, 25700, 25701}
    ks.update(range(n + 1, n + r + 2))
    ks.update((n + r + 50, n + r + 51, n + 50, n + 51, 0))
    return sorted(k for k in ks if k >= 0)


def dyn_sources(thorough):
    """terminating programs that are RUN on the real VM: (a) constructors around the switch to the extended
    SETLIST form (batch 512 = items 25551..), known to the spec side as descriptors (n, tail); (b) small
    constructors around the 50-item flush; (c) a program walking over every kind of multi-word group.
    Returns (name, src, descriptor or None)."""
    out = []
    pre = "local function z() end\nlocal function one() return 1 end\nlocal function two() return 1, 2 end\nlocal function va(...) return {%s} end\n"
    if thorough:
        big = [(n, t) for n in (25549, 25550, 25551, 25599, 25600, 25601, 25650, 25651) for t in CTOR_TAILS]
    else:
        big = [(n, t) for n in (25550, 25601) for t in CTOR_TAILS] + [(25651, "none"), (25600, "dots2"), (25549, "call2")]
    small = [(n, t) for n in (0, 1, 49, 50, 51, 100, 101) for t in (CTOR_TAILS if thorough else ("none", "call2", "dots0", "paren"))]
    for n, t in big + small:
        out.append(("ctor/%d/%s" % (n, t), ctor_source(n, t), {"n": n, "tail": t, "r": CTOR_TAILS[t][1]}))
    for n in (0, 1, 49, 50, 51, 100):
        items = "".join("7, " for _ in range(n))
        out.append(("%d/small" % n, (pre % "...") + "local a, b, c = {" + items + "z()}, {" + items + "two()}, va()\nreturn #a, #b\n", None))
    out.append(("groups", "local a, b, c, d, x = 1, 2, 3, 4, true\nlocal u = 0\nfor i = 1, 3 do\nif x then a = b end c = d a = c\n"
                "local f = function() u = u + i return a, b end\nf()\nif i == 2 then goto cont end\nb = a d = c\n::cont::\nend\n"
                "for k, v in pairs({1, 2, x = 3}) do u = u + 1 end\nlocal t = {f = function(self, ...) return select('#', ...) end}\n"
                "u = u + t:f(1, 2, 3)\nlocal s = 'a' .. u .. 'b'\nwhile u > 0 do u = u - 5 if u < 3 then break end end\nrepeat u = u + 1 until u > 2\nreturn s, u\n", None))
    return out


def case_source(c):
    if c.get("src") is not None:
        return c["src"]
    return gen_c07big.source(c["gen"][0], c["gen"][1])


# --------------------------------------------------------------------------
# real compiler -> prototype records

def dump(cases, tag, timeout=900, trace=False):
    """compile every case with the real front-end; returns (status by case id, prototype records).
    trace: also RUN it on the real VM and record which code words were dispatched (field dpc)"""
    sd = vlib.subdir("c07")
    inp = os.path.join(sd, "src_%s.ndjson" % tag)
    outp = os.path.join(sd, "protos_%s.ndjson" % tag)
    with open(inp, "w") as f:
        for c in cases:
            rec = {"id": c["id"], "src": case_source(c)}
            if c.get("ctor"):
                rec["probe"] = ctor_probe(c["ctor"]["n"], c["ctor"]["r"])
            f.write(json.dumps(rec) + "\n")
    if trace:
        vlib.run_harness(["c07-trace", "--in", inp, "--out", outp], timeout=timeout)
    else:
        vlib.run_harness(["c07-dump", "--in", inp, "--out", outp, "--j", "6"], timeout=timeout)
    status, protos = {}, []
    with open(outp) as f:
        for line in f:
            r = json.loads(line)
            if r.pop("t") == "src":
                status[r["sid"]] = r
            else:
                protos.append(r)
    os.remove(inp)
    os.remove(outp)
    if len(status) != len(cases):
        raise vlib.Infra("c07-dump returned %d status lines for %d sources" % (len(status), len(cases)))
    for i, p in enumerate(protos):
        p["id"] = i + 1
    return status, protos


# --------------------------------------------------------------------------
# TLC validation

def batches(protos, max_recs=3500, max_words=500000):
    out, cur, words = [], [], 0
    for p in protos:
        w = len(p["hi"]) + len(p["kt"])
        if cur and (len(cur) >= max_recs or words + w > max_words):
            out.append(cur)
            cur, words = [], 0
        cur.append(p)
        words += w
    if cur:
        out.append(cur)
    return out


def validate(protos, tag, stats, parallel=2, workers=4):
    """evaluate the TLA+ predicate on every prototype record; returns {proto id: verdict}"""
    d = vlib.specdir()
    jobs = []
    for bi, b in enumerate(batches(protos)):
        fn = "c07_%s_%d.ndjson" % (tag, bi)
        vlib.write_ndjson(os.path.join(d, fn), b)
        jobs.append((fn, len(b)))

    def one(job):
        fn, n = job
        r = vlib.run_tlc("BytecodeTrace", "BytecodeTrace", consts={"File": '"%s"' % fn}, timeout=1500,
                         workers=workers, heap="4g")
        os.remove(os.path.join(d, fn))
        vs = r.tag("VERDICT")
        if len(vs) != n:
            raise vlib.Infra("BytecodeTrace: %d verdicts for %d prototypes (%s)" % (len(vs), n, fn))
        return r, vs
    verdicts = {}
    with ThreadPoolExecutor(max_workers=parallel) as ex:
        for r, vs in ex.map(one, jobs):
            stats["states"] += r.distinct
            stats["transitions"] += r.generated
            for v in vs:
                verdicts[v["id"]] = v
    return verdicts


# --------------------------------------------------------------------------
# MC

def run_mc(thorough, stats):
    """(1) operand rules: every opcode x boundary operand values as one-instruction prototypes;
    (2) frame rules: parameters / implicit arg slot for every small (NumParameters, IsVarArg, NumUsedRegisters)
        with instructions that only read registers;
    (3) structure: every sequence of <= 3 words over an alphabet of instruction instances"""
    out = []
    for cfg, maxlen in (("BytecodeMC_ops", 1), ("BytecodeMC_frame", 2 if thorough else 1),
                        ("BytecodeMC_full" if thorough else "BytecodeMC_core", 3)):
        r = vlib.run_tlc("BytecodeMC", cfg, consts={"MaxLen": maxlen}, workers=4, timeout=2400)
        wfp = r.tag("WFP")
        ngroup = sum(1 for w in wfp if w["g"] > 0)
        njump = sum(1 for w in wfp if w["j"] > 0)
        if not wfp or (maxlen > 2 and (not ngroup or not njump)):
            raise vlib.Infra("%s is vacuous: %d well-formed prototypes, %d with groups, %d with jumps" % (cfg, len(wfp), ngroup, njump))
        stats["states"] += r.distinct
        stats["transitions"] += r.generated
        vlib.log("[C07] MC %s (<= %d words + RETURN): %d generated / %d distinct states; WF => no fault, boundary-only dispatch, "
                 "scan agreement hold; %d well-formed prototypes among the enumerated ones (%d with multi-word groups, %d with jumps) (%.0fs)" % (
                     cfg, maxlen, r.generated, r.distinct, len(wfp), ngroup, njump, r.wall))
        out.append({"cfg": cfg, "max_words": maxlen, "generated": r.generated, "distinct": r.distinct, "wf_protos": len(wfp),
                    "wf_with_groups": ngroup, "wf_with_jumps": njump})
    return out


# --------------------------------------------------------------------------
# verdict handling

OPNAMES = ("MOVE MOVEN LOADK LOADBOOL LOADNIL GETUPVAL GETGLOBAL GETTABLE GETTABLEKS SETGLOBAL SETUPVAL SETTABLE "
           "SETTABLEKS NEWTABLE SELF ADD SUB MUL DIV MOD POW UNM NOT LEN CONCAT JMP EQ LT LE TEST TESTSET CALL "
           "TAILCALL RETURN FORLOOP FORPREP TFORLOOP SETLIST CLOSE CLOSURE VARARG NOP").split()


def words_at(p, pc, before=2, after=3):
    """raw code words around pc (for the human reading the replay file; never judged)"""
    lo, hi = max(0, pc - before), min(len(p["hi"]), pc + after + 1)
    return [{"pc": i, "hi": p["hi"][i], "lo": p["lo"][i]} for i in range(lo, hi)]


def replay_obj(c, p, rule, pc):
    src = case_source(c)
    o = {"case": {"fam": c["fam"], "name": c["name"], "gen": c.get("gen"), "ctor": c.get("ctor")}, "proto_path": p["path"], "rule": rule, "pc": pc,
         "proto": {"nreg": p["nreg"], "nup": p["nup"], "np": p["np"], "va": p["va"], "nwords": len(p["hi"]),
                   "nconst": len(p["kt"]), "words_near_pc": words_at(p, max(pc, 0))}}
    if len(src) <= BIG_SRC or not c.get("gen"):
        o["case"]["src"] = src
    return o


def judge(cases, tag, verd, stats, cov, trace=False):
    """compile, validate, reproduce candidates, report.  Returns (status, protos, verdicts)."""
    t0 = time.time()
    status, protos = dump(cases, tag, trace=trace)
    t1 = time.time()
    verdicts = validate(protos, tag, stats)
    t2 = time.time()
    vlib.log("[C07]   %s: %d sources -> %d prototypes; harness %.1fs, TLC %.1fs" % (tag, len(cases), len(protos), t1 - t0, t2 - t1))
    byid = {c["id"]: c for c in cases}
    bad = [(p, verdicts[p["id"]]) for p in protos if not verdicts[p["id"]]["ok"]]
    # reproduce: the first two prototypes of every rule are compiled and validated again, alone
    firsts, seen = [], {}
    for p, v in bad:
        for rule, pc in v["bad"]:
            if seen.get(rule, 0) < 2:
                seen[rule] = seen.get(rule, 0) + 1
                firsts.append((p, rule, pc))
    if firsts:
        sids = sorted({p["sid"] for p, _, _ in firsts})
        st2, pr2 = dump([byid[s] for s in sids], tag + "_re", trace=trace)
        v2 = validate(pr2, tag + "_re", stats)
        again = {(p["sid"], p["path"]): {r for r, _ in v2[p["id"]]["bad"]} for p in pr2}
        for p, rule, pc in firsts:
            if rule not in again.get((p["sid"], p["path"]), set()):
                raise vlib.Infra("candidate did not reproduce: %s proto %s rule %s" % (byid[p["sid"]]["name"], p["path"], rule))
    for p, v in bad:
        c = byid[p["sid"]]
        for rule, pc in v["bad"]:
            cov["rules_fired"][rule] = cov["rules_fired"].get(rule, 0) + 1
            key = "C07:" + rule
            need = verd.nviol.get(key, 0) < 2 and not any(
                f["key"] == key and f.get("status", "open") == "open" for f in verd.findings)
            verd.candidate(key,
                           "prototype %s of %s/%s violates rule '%s' at pc %d (NumUsedRegisters=%d, NumUpvalues=%d, %d words)" % (
                               p["path"], c["fam"], c["name"], rule, pc, p["nreg"], p["nup"], len(p["hi"])),
                           replay_obj(c, p, rule, pc) if need else None)
    return status, protos, verdicts


def value_law(dyn, status, verd, stats, cov):
    """constructor programs of the dyn phase: the digest of the table the real VM built is judged by TLC
    (CtorTrace.tla) against the closed form the descriptor denotes.  Returns the number judged."""
    recs, byid = [], {}
    for c in dyn:
        d = c.get("ctor")
        if not d:
            continue
        st = status[c["id"]]
        byid[c["id"]] = c
        if st["st"] != "ok" or "dig" not in st:
            verd.candidate("C07:ctor-value:no-table-returned", "constructor program %s did not return its table: %s %s" % (
                c["name"], st["st"], st.get("msg", "")[:200]), {"case": {"fam": c["fam"], "name": c["name"], "src": c["src"], "ctor": d}})
            continue
        g = st["dig"]
        recs.append({"id": c["id"], "n": d["n"], "r": d["r"], "cnt": g["cnt"], "border": g["border"], "maxkey": g["maxkey"],
                     "other": g["other"], "probes": g["probes"]})
    if not recs:
        return 0
    fn = "c07_ctor.ndjson"
    vlib.write_ndjson(os.path.join(vlib.specdir(), fn), recs)
    r = vlib.run_tlc("CtorTrace", "CtorTrace", consts={"File": '"%s"' % fn}, timeout=600, workers=2, heap="2g")
    os.remove(os.path.join(vlib.specdir(), fn))
    vs = r.tag("VERDICT")
    if len(vs) != len(recs):
        raise vlib.Infra("CtorTrace: %d verdicts for %d records" % (len(vs), len(recs)))
    stats["states"] += r.distinct
    stats["transitions"] += r.generated
    for v in vs:
        if v["ok"]:
            continue
        c = byid[v["id"]]
        d = c["ctor"]
        rule = "ctor-value:%s:%s" % (v["why"], "batches>=512" if d["n"] + d["r"] > 25550 else "batches<512")
        cov["rules_fired"][rule] = cov["rules_fired"].get(rule, 0) + 1
        verd.candidate("C07:" + rule, "constructor with %d items + tail %s (%d values) built a wrong table: %s: got %s, the constructor "
                       "denotes %s" % (d["n"], d["tail"], d["r"], v["why"], v["got"], v["exp"]),
                       {"case": {"fam": c["fam"], "name": c["name"], "src": c["src"] if len(c["src"]) <= BIG_SRC else None, "ctor": d},
                        "digest": status[c["id"]]["dig"], "verdict": v})
    return len(recs)


def run(tier):
    t0 = time.time()
    thorough = tier == "thorough"
    verd = vlib.Verdicts(PROP)
    stats = {"states": 0, "transitions": 0}
    cov = {"rules_fired": {}}
    vlib.build_harness()
    # the spec's own model checking runs beside the corpus pipeline (4 + 2 x 4 TLC workers)
    mcpool = ThreadPoolExecutor(max_workers=1)
    mcstats = {"states": 0, "transitions": 0}
    mcfut = mcpool.submit(run_mc, thorough, mcstats)
    cases = build(tier, vlib.seed())
    # the few giant sources (long jumps, 25k-field constructors) go through the harness separately
    giant = [c for c in cases if c["fam"] in ("big-longjump",)]
    normal = [c for c in cases if c["fam"] not in ("big-longjump",)]
    status, protos, verdicts = {}, [], {}
    # VM-side law: a few programs are also RUN; the pcs the real main loop dispatched must be boundaries
    dyn = []
    for name, src, desc in dyn_sources(thorough):
        dyn.append({"id": len(cases) + len(dyn) + 1, "fam": "dyn", "name": name, "src": src, "gen": None, "ctor": desc})
    cases = cases + dyn
    for tag, cs in (("main", normal), ("giant", giant), ("dyn", dyn)):
        if not cs:
            continue
        st, pr, vs = judge(cs, tag, verd, stats, cov, trace=(tag == "dyn"))
        status.update(st)
        off = len(protos)
        for p in pr:
            verdicts[off + p["id"]] = vs[p["id"]]
            protos.append(p)
    nctor = value_law(dyn, status, verd, stats, cov)
    vlib.log("[C07]   dyn: %d constructor tables judged against their closed form (CtorTrace)" % nctor)
    mc = mcfut.result()       # MC failure / TLC error = vlib.Infra, raised here
    mcpool.shutdown()
    stats["states"] += mcstats["states"]
    stats["transitions"] += mcstats["transitions"]
    # accounting
    byid = {c["id"]: c for c in cases}
    fam = {}
    panics = []
    for sid, st in status.items():
        f = fam.setdefault(byid[sid]["fam"], {"sources": 0, "accepted": 0, "parse-error": 0, "compile-error": 0, "panic": 0, "prototypes": 0})
        f["sources"] += 1
        if st["st"] == "ok":
            f["accepted"] += 1
            f["prototypes"] += st["np"]
        else:
            f[st["st"]] += 1
            if st["st"] == "panic":
                panics.append({"case": byid[sid]["fam"] + "/" + byid[sid]["name"], "msg": st["msg"]})
    for p in panics[:10]:
        vlib.log("[C07] NOTE: the compiler panicked (no prototype produced, not judged by C07): %s: %s" % (p["case"], p["msg"][:200]))
    nacc = sum(f["accepted"] for f in fam.values())
    if nacc < 0.5 * len(cases):
        raise vlib.Infra("only %d of %d generated sources were accepted by the front-end" % (nacc, len(cases)))
    ops, ninstr, ngroups, njumps, nwords, nontrivial, maxwords = set(), 0, 0, 0, 0, set(), 0
    for i, p in enumerate(protos):
        v = verdicts[i + 1]
        ops.update(v["ops"])
        ninstr += v["nh"]
        ngroups += v["ng"]
        njumps += v["nj"]
        nwords += v["n"]
        maxwords = max(maxwords, v["n"])
        if v["nj"] + v["ng"] > 0:
            nontrivial.add(vlib.canon_hash([p["hi"], p["lo"], p["nreg"], p["kt"], p["pnup"]]))
    missing = [OPNAMES[o] for o in range(len(OPNAMES)) if o not in ops]
    nbad = sum(1 for v in verdicts.values() if not v["ok"])
    vlib.log("[C07] %d sources (%d accepted) -> %d prototypes validated by TLC: %d instructions, %d multi-word groups, "
             "%d jump/skip instructions, largest prototype %d words; %d prototypes violate >= 1 rule" % (
                 len(cases), nacc, len(protos), ninstr, ngroups, njumps, maxwords, nbad))
    vlib.log("[C07] rules fired: %s" % json.dumps(cov["rules_fired"], sort_keys=True))
    if missing:
        vlib.log("[C07] opcodes never produced by the corpus: %s" % ", ".join(missing))
    samples = []
    for p in protos[:1] + protos[len(protos) // 2:len(protos) // 2 + 1]:
        c = byid[p["sid"]]
        samples.append({"case": c["fam"] + "/" + c["name"], "src": case_source(c)[:400], "proto_path": p["path"],
                        "nwords": len(p["hi"]), "verdict": verdicts[protos.index(p) + 1]})
    rc = verd.finish()
    vlib.write_evidence(PROP, tier, "model_checking", {
        "states": stats["states"], "transitions": stats["transitions"],
        "traces_validated_against_impl": len(protos),
        "evaluations": len(protos), "programs": len(cases), "programs_accepted": nacc,
        "instructions_checked": ninstr, "code_words": nwords, "multiword_groups": ngroups, "jump_instructions_checked": njumps,
        "largest_prototype_words": maxwords, "opcodes_seen": len(ops), "opcodes_never_produced": missing,
        "distinct_nontrivial": len(nontrivial),
        "rule": "prototypes = every (nested) FunctionProto that parse.Parse+lua.Compile produced for the generated sources "
                "(gen_core random programs, gen_shapes assignment/expression shapes, the same padded with locals/constants, "
                "G-big adversarial families); distinct by hash of code words, register count, constant types and nested "
                "upvalue counts; non-trivial = contains at least one jump/skip instruction or multi-word group",
        "families": fam, "rules_fired": cov["rules_fired"], "prototypes_violating": nbad, "compiler_panics": panics[:20],
        "constructor_tables_judged": nctor, "mc_runs": mc, "samples": samples, "exhaustive": False,
        "known_findings_hit": sorted(verd.known_hit),
    }, time.time() - t0, len(verd.violations), assumptions=[
        "TLC explores the abstract VM on all one-instruction prototypes over boundary operand values and on all code sequences of <= 3 words (+ RETURN) over a fixed alphabet of instruction instances",
        "FrameLimit = 200 (compile.go maxRegisters) is taken as the VM frame limit",
        "string-keyed instructions with a register key: the key must be defined, in code order, by a LOADK of a string constant "
        "(syntactic reaching definition, not path sensitive)",
        "B=0 windows: the VM's rule 'every CALL/VARARG leaves reg.top behind its results' is taken from vm.go",
        "registers of dynamic extent (results of C=0 calls, B=0 varargs) are outside the static predicate",
        "sources are compiled, never executed (the dynamic Pc-on-boundary sweep belongs to C05/C11)"])
    return rc


def replay(path):
    rec = json.load(open(path))
    rp = rec["replay"]
    c = {"id": 1, "fam": rp["case"]["fam"], "name": rp["case"]["name"], "src": rp["case"].get("src"), "gen": rp["case"].get("gen"),
         "ctor": rp["case"].get("ctor")}
    if c["ctor"] and c["src"] is None:
        c["src"] = ctor_source(c["ctor"]["n"], c["ctor"]["tail"])
    verd = vlib.Verdicts(PROP)
    verd.findings = []
    stats = {"states": 0, "transitions": 0}
    st, _, _ = judge([c], "replay", verd, stats, {"rules_fired": {}}, trace=(c["fam"] == "dyn"))
    if c["ctor"]:
        value_law([c], st, verd, stats, {"rules_fired": {}})
    return verd.finish()


# --------------------------------------------------------------------------
# selftest: the machinery must notice a weakened rule and a corrupted record

SPEC_MUTANTS = [
    ("implicit arg slot may lie outside the frame", 'ELSE IF HasArgSlot(p) /\\ p.np >= p.nreg', 'ELSE IF FALSE'),
    ("parameters may lie outside the frame", 'IF p.np > p.nreg THEN {"frame:NumParameters>NumUsedRegisters"}', 'IF FALSE THEN {}'),
    ("NOT forgets its B operand", '[] o = OP_NOT -> W(a, "A") \\cup R(b, "B")', '[] o = OP_NOT -> W(a, "A")'),
    ("jumps into groups tolerated", 'ELSE IF ~hd.h[t + 1] THEN {"jump-into:" \\o InteriorKind(p, hd, t)}', 'ELSE IF FALSE THEN {}'),
    ("FORLOOP loop variable not counted", '[] o = OP_FORLOOP -> W(a + 3, "loop-variable(A+3)") \\cup', '[] o = OP_FORLOOP -> W(a + 2, "x") \\cup'),
    ("readers trust a writer that is not reported", '[] o = OP_CLOSURE ->\n            W(a, "A") \\cup', '[] o = OP_CLOSURE ->\n            {} \\cup'),
    ("open window without a producer", 'Open     == IF OpenOK(p, hd, pc) THEN {} ELSE', 'Open     == IF TRUE THEN {} ELSE'),
]


def selftest():
    vlib.build_harness()
    d = vlib.specdir()
    path = os.path.join(d, "Bytecode.tla")
    orig = open(path).read()
    fails = 0
    try:
        for name, old, new in SPEC_MUTANTS:
            if old not in orig:
                raise vlib.Infra("selftest: spec text of mutant '%s' not found" % name)
            open(path, "w").write(orig.replace(old, new))
            caught = False
            for cfg, maxlen in (("BytecodeMC_ops", 1), ("BytecodeMC_frame", 1), ("BytecodeMC_core", 3)):
                r = vlib.run_tlc("BytecodeMC", cfg, consts={"MaxLen": maxlen}, workers=8, timeout=1500, allow_violation=True)
                if not r.ok and "is violated" in r.raw:
                    caught = True
                    break
            vlib.log("[C07 selftest] spec mutant '%s': %s" % (name, "MC rejects it" if caught else "NOT NOTICED"))
            fails += 0 if caught else 1
    finally:
        open(path, "w").write(orig)
    src = "local a, b, c\nif a then b = g end\nwhile b do c = c + 1 end\nreturn c\n"
    _, protos = dump([{"id": 1, "fam": "selftest", "name": "base", "src": src, "gen": None}], "selftest")
    base = protos[0]
    jpc = [i for i, h in enumerate(base["hi"]) if h // 1024 == 25][0]
    gpc = [i for i, h in enumerate(base["hi"]) if h // 1024 == 6][0]
    rpc = [i for i, h in enumerate(base["hi"]) if h // 1024 == 33 and base["lo"][i] % 512 == 2][0]

    def mut(f):
        r = json.loads(json.dumps(base))
        f(r)
        return r
    recs = [("unchanged", None, base),
            ("register count lowered", "reg-range:", mut(lambda r: r.update(nreg=r["nreg"] - 1))),
            ("jump leaves the function", "jump-range:JMP", mut(lambda r: (r["hi"].__setitem__(jpc, r["hi"][jpc] | 3), r["lo"].__setitem__(jpc, 65535)))),
            ("final RETURN replaced by NOP", "code:last-instruction-not-RETURN", mut(lambda r: r["hi"].__setitem__(len(r["hi"]) - 1, 41 * 1024))),
            ("line table too long", "line-table:length", mut(lambda r: r.update(nline=r["nline"] + 1))),
            ("global name constant is a number", "string-key:GETGLOBAL", mut(lambda r: r["kt"].__setitem__(r["lo"][gpc], 2))),
            ("string table out of step", "string-constants:content", mut(lambda r: r["sk"].__setitem__(0, "zz"))),
            ("RETURN names a register nothing writes", "reg-unwritten:RETURN", mut(lambda r: (
                r.update(nreg=r["nreg"] + 3),
                r["hi"].__setitem__(rpc, 33 * 1024 + (r["nreg"] - 1) * 4 + r["hi"][rpc] % 4)))),
            ("the JMP behind a TEST overwritten by CLOSE", "test:TEST:not-followed-by-JMP", mut(lambda r: (
                r["hi"].__setitem__(jpc, 38 * 1024), r["lo"].__setitem__(jpc, 0)))),
            ("more locals in scope than registers", "locals:more-live-locals", mut(lambda r: (
                r["ls"].extend([0] * (r["nreg"] + 1)), r["le"].extend([len(r["hi"])] * (r["nreg"] + 1)))))]
    for i, (_, _, r) in enumerate(recs):
        r["id"] = i + 1
    vs = validate([r for _, _, r in recs], "selftest", {"states": 0, "transitions": 0})
    for i, (name, want, _) in enumerate(recs):
        rules = [r for r, _ in vs[i + 1]["bad"]]
        good = (rules == []) if want is None else any(r.startswith(want) for r in rules)
        vlib.log("[C07 selftest] record '%s': rules %s - %s" % (name, rules, "as expected" if good else "UNEXPECTED"))
        fails += 0 if good else 1
    return 1 if fails else 0
