"""C10 - Go API: faithful value stack, exact call contract, object ops = Lua ops.

Part 1 (value stack / call contract)
  MC   ApiStackImpl (line-by-line transcription of state.go's registry +
       LocalBase arithmetic + callGFunction/callR/PCall) refines the abstract
       lists of ApiStack from EVERY canonical configuration (inductive-style,
       exhaustive over list length <= 3, index -5..5, depth, NRet, protected)
       and the abstract operators satisfy their list laws.
  Bind GEN->replay->TRACE: one history per transition of that state graph,
       BFS histories from the empty root, TLC-simulated long histories and the
       enumerated (nargs, NRet, produced) call-contract family are executed on
       a real LState inside nested host functions (Go->Lua->Go, non-zero
       LocalBase, growing registry, also inside a coroutine and at top level);
       ApiStackTrace.tla validates every list
       re-read, every read result and every caller list after return.
Part 2 (object-level API)
  every API call and the corresponding Lua expression are evaluated in the same
  state on the same operands; ApiObjTrace.tla requires API = Lua (= LuaSem's
  definition of the operator where the model decides it)."""
import json, os, random, time
import vlib

PROP = "C10"
TLCW = 8          # other jobs share the machine


class Cands:
    """Candidate violations: collected, the first two of every key re-run on a
    fresh interpreter and re-validated (DESIGN 7.4), then handed to Verdicts."""

    def __init__(self):
        self.items = []

    def candidate(self, key, what, replay):
        self.items.append((key, what, replay))

    def report(self, verd, stats):
        perkey = {}
        check = []
        for it in self.items:
            perkey[it[0]] = perkey.get(it[0], 0) + 1
            if perkey[it[0]] <= 2:
                check.append(it)
        bad = reproduce([it[2] for it in check], stats)
        for (key, what, rp), ok in zip(check, bad):
            if not ok:
                raise vlib.Infra("candidate %s did not reproduce on a fresh interpreter: %s" % (key, what))
        for key, what, rp in self.items:
            verd.candidate(key, what, rp)


# --------------------------------------------------------------------------
# part 1: histories

def close_history(h):
    """Append `ret 0` for every activation still open at the end (input
    shaping only: the oracle is ApiStackTrace)."""
    depth = []      # stack of prot flags
    for o in h:
        if o["op"] == "call":
            depth.append(o["prot"])
        elif o["op"] == "ret":
            depth.pop()
        elif o["op"] == "fail" or (o["op"] == "callL" and o["fail"] and not o["prot"]):
            while depth and not depth[-1]:
                depth.pop()
            if depth:
                depth.pop()
    return list(h) + [{"op": "ret", "r": 0} for _ in depth]


def strip_pre(h):
    return [{k: v for k, v in o.items() if k != "pre"} for o in h]


def call_family(depth):
    """The call-contract family: every (callee kind, nargs, NRet, produced,
    protected, failing) combination, executed at activation depth `depth` on
    top of a list prefix of length 0..2."""
    out = []
    for pre in (0, 1, 2):
        for nargs in range(4):
            for nret in (-1, 0, 1, 2, 3):
                for prot in (False, True):
                    for p in range(4):
                        base = []
                        d = 1
                        for _ in range(depth - 1):
                            base.append({"op": "call", "prot": True, "args": [["n", 10 * d + 5]], "nret": -1})
                            d += 1
                        base += [{"op": "push", "v": ["n", 10 * d + 1 + j]} for j in range(pre)]
                        args = [["n", 10 * d + 5 + j] for j in range(nargs)]
                        # Lua callee producing p values
                        out.append(base + [{"op": "callL", "prot": prot, "args": args, "nret": nret, "p": p, "fail": False}])
                        # host callee producing r = p of (its arguments + 2 pushed values), possibly with a deeper list
                        if p <= nargs + 2:
                            out.append(base + [{"op": "call", "prot": prot, "args": args, "nret": nret},
                                               {"op": "push", "v": ["n", 10 * (d + 1) + 1]},
                                               {"op": "push", "v": ["n", 10 * (d + 1) + 2]},
                                               {"op": "ret", "r": p}])
                        # Lua callees whose results are locals followed by live non-nil locals / dirty
                        # registers (a result list padded by 1, 2, .. must be padded with nil, never
                        # with the callee's next register), through EVERY call API
                        if pre == 1:
                            shapes = ["dirty"] + (["local", "midlocal", "param"] if p == 1 else [])
                            for shape in shapes:
                                for apisel in (range(4) if prot else range(2)):
                                    out.append(base + [{"op": "callL", "prot": prot, "args": args, "nret": nret, "p": p,
                                                        "fail": False, "shape": shape, "apisel": apisel}])
                    # failing callees (protected here, or caught by an enclosing protected call)
                    if prot or depth > 1:
                        out.append(base + [{"op": "callL", "prot": prot, "args": args, "nret": nret, "p": 0, "fail": True}])
                        out.append(base + [{"op": "call", "prot": prot, "args": args, "nret": nret},
                                           {"op": "push", "v": ["n", 10 * (d + 1) + 1]},
                                           {"op": "fail"}])
    return out


def handler_family(depth):
    """Protected calls WITH an error handler: handler outcome {returns, raises,
    panics} x callee {ok, raises, panics} x {PCall+errfunc, CallByParam{Protect,
    Handler}} x callee kind, made by the activation at `depth`; afterwards the
    SAME activation goes on using every index-relative operation on its list."""
    out = []
    base = []
    d = 1
    for _ in range(depth - 1):
        base.append({"op": "call", "prot": True, "args": [["n", 10 * d + 5]], "nret": -1})
        d += 1
    base += [{"op": "push", "v": ["n", 10 * d + 1]}, {"op": "push", "v": ["n", 10 * d + 2]}]
    v = ["n", 10 * d + 3]
    follow = [{"op": "gettop"}, {"op": "get", "i": 1}, {"op": "get", "i": -1}, {"op": "push", "v": v},
              {"op": "insert", "v": v, "i": 1}, {"op": "replace", "i": -1, "v": v}, {"op": "remove", "i": 2},
              {"op": "settop", "i": 1}, {"op": "pop", "n": 1}]
    for apisel in (2, 3):
        for hout in ("ret", "raise", "panic"):
            for outcome in ("ok", "raise", "panic"):
                for nargs in (0, 2):
                    for nret in (-1, 1):
                        args = [["n", 10 * d + 5 + j] for j in range(nargs)]
                        for kindsel in range(4):          # host callee behind each kind of frame
                            call = {"op": "call", "prot": True, "args": args, "nret": nret, "apisel": apisel,
                                    "kindsel": kindsel, "hout": hout}
                            end = {"op": "ret", "r": 1} if outcome == "ok" else {"op": "fail", "how": outcome}
                            out.append(base + [call, {"op": "push", "v": ["n", 10 * (d + 1) + 1]}, end] + follow)
                        out.append(base + [{"op": "callL", "prot": True, "args": args, "nret": nret, "p": 1,
                                            "fail": outcome != "ok", "how": outcome, "apisel": apisel, "hout": hout}] + follow)
    return out


def insert_beyond_family(depth):
    """Insert beyond top+1 (clamped class): whatever the list becomes, every index
    1..top must hold a Lua value - also where the registers above top were cleared
    by SetTop / a finished call (Go nil) or by Pop (LNil)."""
    out = []
    base = []
    d = 1
    for _ in range(depth - 1):
        base.append({"op": "call", "prot": True, "args": [["n", 10 * d + 5]], "nret": -1})
        d += 1
    v = ["n", 10 * d + 3]
    for n in range(3):
        keep = [{"op": "push", "v": ["n", 10 * d + 1 + j]} for j in range(n)]
        more = [{"op": "push", "v": ["n", 10 * d + 6 + j]} for j in range(3)]
        for how, pre in (("fresh", keep), ("after-settop", keep + more + [{"op": "settop", "i": n}]),
                         ("after-pop", keep + more + [{"op": "pop", "n": 3}]),
                         ("after-call", keep + [{"op": "callL", "prot": False, "args": more and [m["v"] for m in more], "nret": 0,
                                                 "p": 3, "fail": False}])):
            for i in (n + 2, n + 3, n + 4):
                out.append(base + pre + [{"op": "insert", "v": v, "i": i}, {"op": "gettop"}, {"op": "get", "i": n + 1},
                                         {"op": "get", "i": -2}, {"op": "push", "v": v}, {"op": "remove", "i": 1},
                                         {"op": "settop", "i": 0}])
    return out


def sweep_family(nret, heights, few_apis=False):
    """Height sweep across the first registry growth (RegistrySize 128): at every
    height a NON-vararg Lua callee with 4 named parameters and 10 registers gets
    0..3 arguments through every call API; missing parameters come back as its
    results and must be nil; the list laws must hold afterwards."""
    out = []
    follow = [{"op": "gettop"}, {"op": "get", "i": -1}, {"op": "push", "v": ["n", 13]}, {"op": "insert", "v": ["n", 14], "i": 1},
              {"op": "remove", "i": -2}, {"op": "settop", "i": 2}, {"op": "pop", "n": 1}]
    for k in heights:
        for nargs in range(4):
            args = [["n", 15 + j] for j in range(nargs)]
            for prot in (False, True):
                for apisel in ((range(4) if prot else range(2)) if not few_apis else ((0, 2) if prot else (0,))):
                    out.append([{"op": "prefill", "k": k}, {"op": "push", "v": ["n", 11]},
                                {"op": "callL", "prot": prot, "args": args, "nret": nret, "p": 4, "fail": False,
                                 "shape": "params4", "apisel": apisel}] + follow)
    return out


def idx_class(ev, n=None):
    i = ev["i"]
    if i == 0:
        return "zero"
    c = "pos" if i > 0 else "neg"
    if n is not None:
        c += "-in" if abs(i) <= n else "-out"
    return c


PROBES = ["index-0", "index-top+1", "index-below-bottom", "index-below-bottom"]


def stack_key(tr, v):
    """one defect class = one key: what was wrong (a read, the list after an
    operation, the error flag, a caller's data) and the operation / index class /
    call API + callee kind that produced it - never the values, NRet or depth"""
    why = v["why"]
    ev = tr["ev"][v["at"] - 1] if v["at"] else {}
    op = ev.get("op")
    if v.get("cl") and ((v["at"] == 0 and why != "root-results") or why in ("caller-list", "spurious-error", "error-lost")):
        # an operation of the clamped class ran earlier and now a caller's data is wrong
        cls = sorted(set("%s:%s" % (tr["ev"][p - 1]["op"], idx_class(tr["ev"][p - 1])) for p in v["cl"]))
        return "C10:stack:frame-privacy:after-%s" % (cls[0] if len(cls) == 1 else "several-clamped-operations")
    if v["at"] == 0:
        return "C10:stack:%s" % why.replace(" ", "-")
    if why == "outside-read":
        bad = [PROBES[k] for k, p in enumerate(ev.get("probe", [])) if p != ["nil"]]
        return "C10:stack:outside-read:%s" % (bad[0] if bad else "?")
    if why == "list" and ["gonil"] in ev.get("list", []):
        # a Go nil interface where a Lua value (LNil) must be: its own class, whatever the operation's result otherwise is
        return "C10:stack:go-nil-value:%s" % op
    if why == "hole":               # a clamped-class operation left a Go nil inside the list
        return "C10:stack:go-nil-value:%s" % op
    if why in ("negative-read", "gettop"):
        return "C10:stack:%s" % why
    if why == "read":
        return "C10:stack:read:%s" % (op if op == "gettop" else "get:" + idx_class(ev, len(ev.get("list", []))))
    # calls: a wrong list after a (successful) return depends on the callee kind
    # (host function / Lua frame in between / Lua callee), not on the call API;
    # the handling of a failure depends on the protected-call API
    if op in ("call", "ret"):
        return "C10:stack:%s:%s:%s" % (why, op, ev.get("kind", "?"))
    if op == "callL" and not ev.get("fail"):
        return "C10:stack:%s:callL" % why
    if op in ("fail", "callL"):     # every protected API recovers through PCall; an error function adds a path
        h = ":errfunc" if ("errfunc" in ev.get("api", "") or "Handler" in ev.get("api", "")) else ""
        if h and ev.get("hout") in ("raise", "panic"):
            h = ":errfunc-fails"        # PCall's second recovery path
        return "C10:stack:%s:callee-fails%s" % (why, h)
    if "i" in ev:
        return "C10:stack:%s:%s:%s" % (why, op, idx_class(ev))
    return "C10:stack:%s:%s" % (why, op)


class StackBatch:
    """Collects replayed traces of all history sets / harness configurations
    and validates them together (TLC start-up dominates small runs)."""

    def __init__(self):
        self.recs = []
        self.meta = {}
        self.cov = {"grew": 0, "events": 0}
        self.nvalidated = 0
        self.t_tlc = 0.0
        self.calls = {}
        self.kinds = {}
        self.t_harness = 0.0

    def replay_all(self, hists, cfg, tag, verd, stats, chunk=30000, limit=60000):
        """replay in chunks, validating whenever enough traces are pending (bounded memory)"""
        for b in range(0, len(hists), chunk):
            self.replay(hists[b:b + chunk], cfg, tag, first_id=b + 1)
            if len(self.recs) >= limit:
                self.validate(verd, stats, quiet=True)

    def replay(self, hists, cfg, tag, first_id=1):
        t0 = time.time()
        sd = vlib.subdir("c10")
        inp = os.path.join(sd, "hist_%s.json" % tag)
        outp = os.path.join(sd, "traces_%s.ndjson" % tag)
        with open(inp, "w") as f:
            # a leading pseudo-operation {"op": "prefill", "k": n} fixes the number of top-level values
            # below the layers for that history (height sweep); it is not an operation of the history
            json.dump(dict(cfg, H=[({"id": first_id + i, "h": h[1:], "prefill": h[0]["k"]} if h and h[0]["op"] == "prefill"
                                    else {"id": first_id + i, "h": h}) for i, h in enumerate(hists)]), f)
        vlib.run_harness(["c10-stack", "--in", inp, "--out", outp], timeout=900)
        recs = vlib.read_ndjson(open(outp).read())
        os.remove(inp)
        os.remove(outp)
        if len(recs) != len(hists):
            raise vlib.Infra("c10-stack returned %d traces for %d histories" % (len(recs), len(hists)))
        for r in recs:
            lid = r["id"]
            gid = len(self.meta) + 1
            self.meta[gid] = (tag, cfg, lid, hists[lid - first_id])
            self.cov["grew"] += 1 if r.get("grew") else 0
            self.cov["events"] += len(r["ev"])
            self.cov["max_base"] = max(self.cov.get("max_base", 0), r.get("base", 0))
            for e in r["ev"]:
                if e["op"] in ("call", "callL"):
                    self.calls[e.get("api", "?")] = self.calls.get(e.get("api", "?"), 0) + 1
                    k = e.get("kind", "lua-callee")
                    self.kinds[k] = self.kinds.get(k, 0) + 1
            if "crash" in r:
                r["fin"]["crash"] = r["crash"][:300]
            # keep the record small: TLC's JSON reader is the bottleneck
            self.recs.append({"id": gid, "init": r["init"], "ev": r["ev"], "fin": r["fin"], "base": r.get("base", 0)})
        self.t_harness += time.time() - t0
        return len(recs)

    def validate(self, verd, stats, quiet=False):
        t1 = time.time()
        byid = {r["id"]: r for r in self.recs}
        n = 0
        nbatch = max(1, min(4, len(self.recs) // 4000))
        bsize = (len(self.recs) + nbatch - 1) // nbatch
        for res in vlib.validate_batches("ApiStackTrace", "ApiStackTrace", self.recs, "c10_stack", batch=max(1, bsize), parallel=4,
                                         timeout=1500):
            stats["states"] += res.distinct
            stats["transitions"] += res.generated
            vs = res.tag("VERDICT")
            if len(vs) != res.nrecords:
                raise vlib.Infra("ApiStackTrace: %d verdicts for %d traces" % (len(vs), res.nrecords))
            for v in vs:
                n += 1
                if v["v"] == "ok":
                    continue
                tr = byid[v["id"]]
                tag, cfg, lid, h = self.meta[v["id"]]
                if v["v"] == "undef":
                    raise vlib.Infra("history %s#%d uses an excluded operation (%s at %d): generator error" % (tag, lid, v["why"], v["at"]))
                e = tr["ev"][v["at"] - 1] if v["at"] else {}
                verd.candidate(stack_key(tr, v), "history %s#%d (%s, LocalBase %s): %s at event %d %s%s" % (
                    tag, lid, cfg["mode"], tr.get("base", 0), v["why"], v["at"],
                    ("[" + tr["fin"]["crash"][:120] + "] ") if v["why"] == "crash" else "",
                    json.dumps({k: e[k] for k in e if k in ("op", "i", "v", "n", "r", "nret", "args", "api", "kind", "list", "rv", "err")})),
                    {"part": "stack", "cfg": cfg, "id": lid, "h": h, "trace": tr, "verdict": v, "gid": v["id"]})
        self.nvalidated += n
        self.t_tlc += time.time() - t1
        self.recs = []
        if not quiet:
            vlib.log("[C10] stack: %d traces validated by ApiStackTrace (harness %.1fs, TLC %.1fs)" % (
                self.nvalidated, self.t_harness, self.t_tlc))
        return self.nvalidated


MC_CONSTS = {"MaxLen": "3", "Cap0": "5", "GrowBy": "1"}


def consts(**kw):
    c = dict(MC_CONSTS)
    c.update({k: str(v) for k, v in kw.items()})
    return c


def stack_part(tier, verd, stats, ev):
    from concurrent.futures import ThreadPoolExecutor
    thorough = tier == "thorough"
    nsim = 3000 if thorough else 400
    simc = {"MaxLen": "6", "Cap0": "5", "GrowBy": "1", "MaxDepth": "4", "MaxHist": "40", "Base0": "3",
            "Ind": "FALSE", "Slacks": "{100}"}
    W = TLCW if thorough else 4
    jobs = [
        # MC: refinement + laws from every canonical configuration (one step) ...
        ("MC ind", "ApiStackMC", consts(MaxDepth=3 if thorough else 2, MaxHist=1, Base0=3, Ind="TRUE", Slacks="{0, 1, 100}"), {}),
        # ... and along every history of bounded length from the empty root
        ("MC reach", "ApiStackMC", consts(MaxDepth=3, MaxHist=4 if thorough else 2, Base0=3, Ind="FALSE", Slacks="{100}"), {}),
        # GEN: one history per transition from every canonical configuration
        ("GEN ind", "ApiStackGen", consts(MaxDepth=3 if thorough else 2, MaxHist=1, Base0=3, Ind="TRUE", Slacks="{100}"), {}),
        # GEN: BFS histories from the empty root (one per transition)
        # (one worker: with several the representative history kept for a state depends on the schedule)
        ("GEN bfs", "ApiStackGen", consts(MaxDepth=3, MaxHist=3 if thorough else 2, Base0=3, Ind="FALSE", Slacks="{100}"),
         dict(workers=1)),
        # long random histories: TLC simulation of the same spec with wider bounds
        ("GEN sim", "ApiStackSim", simc, dict(simulate="num=%d" % nsim, depth=41, tlc_seed=vlib.seed(), workers=1)),
    ]
    if thorough:
        jobs.insert(1, ("MC ind-base0", "ApiStackMC", consts(MaxDepth=2, MaxHist=1, Base0=0, Ind="TRUE", Slacks="{0, 1, 100}"), {}))

    def one(job):
        name, cfg, c, kw = job
        k = dict(timeout=1500, workers=W)
        k.update(kw)
        return name, c, vlib.run_tlc("ApiStackImpl", cfg, consts=c, **k)
    vlib.specdir()       # create the scratch copy before the threads race for it
    with ThreadPoolExecutor(max_workers=2 if thorough else 3) as ex:
        results = list(ex.map(one, jobs))
    mc = []
    gen = {}
    for name, c, r in results:
        if name != "GEN sim":
            stats["states"] += r.distinct
            stats["transitions"] += r.generated
        if name.startswith("MC"):
            mc.append({"run": name, "consts": c, "generated": r.generated, "distinct": r.distinct})
            vlib.log("[C10] %s %s: %d generated / %d distinct states, refinement + laws hold (%.0fs)" % (
                name, json.dumps(c, separators=(",", ":")), r.generated, r.distinct, r.wall))
        else:
            gen[name] = r.tag("GEN")
    ev["mc_runs"] = mc
    def canon(hs):     # TLC's workers print in any order: ids (and so the driver's choices) must not depend on it
        return sorted(hs, key=lambda h: json.dumps(h, sort_keys=True))
    sets = [("ind", canon([close_history(strip_pre(g["h"])) for g in gen["GEN ind"]])),
            ("bfs", canon([close_history(g["h"]) for g in gen["GEN bfs"]])),
            ("sim", [close_history(g["h"]) for g in gen["GEN sim"]])]
    if len(sets[2][1]) < nsim // 2:
        raise vlib.Infra("TLC simulation produced only %d histories" % len(sets[2][1]))
    # the call-contract family at depth 1..3
    fam = []
    for d in (1, 2, 3):
        fam += [close_history(h) for h in call_family(d)]
    for d in (1, 2, 3):
        fam += [close_history(h) for h in handler_family(d)]
        fam += [close_history(h) for h in insert_beyond_family(d)]
    sets.append(("calls", fam))
    # height sweep for calls whose frame set-up grows the registry (grow steps 1, 7, 32)
    # (callee LocalBase = prefill + 15 under one Lua layer, + 27 under two: the window where
    # LocalBase+4 <= 128 < LocalBase+10 lies inside the swept range, with margin on both sides)
    sets.append(("sweep", sweep_family(-1, range(96, 125)) + sweep_family(4, range(96, 125))))
    sets.append(("sweep7", sweep_family(-1, range(96, 125), few_apis=not thorough)))
    sets.append(("sweep32", sweep_family(4, range(82, 113), few_apis=not thorough)))
    vlib.log("[C10] histories: " + ", ".join("%s %d" % (n, len(h)) for n, h in sets))
    cfgs = {"nested": {"mode": "nested", "grow": False, "depth0": 1, "gap": 0},
            "nested2": {"mode": "nested", "grow": False, "depth0": 2, "gap": 0, "autostack": True},
            "grow": {"mode": "nested", "grow": True, "depth0": 1, "gap": 14, "fresh": True},
            "top": {"mode": "top", "grow": False, "depth0": 0, "gap": 0},
            # the layers and the root run inside a coroutine (its own register file)
            "co": {"mode": "co", "grow": False, "depth0": 2, "gap": 0},
            "grow1": {"mode": "nested", "grow": True, "depth0": 1, "gap": 14, "fresh": True, "growstep": 1},
            "grow7": {"mode": "nested", "grow": True, "depth0": 1, "gap": 14, "fresh": True, "growstep": 7},
            "grow32": {"mode": "nested", "grow": True, "depth0": 2, "gap": 14, "fresh": True, "growstep": 32}}
    # quick: every set under the nested configuration or at top level, samples under the others
    plan = {"ind": ["nested", "grow/4", "co/6"], "bfs": ["top/2", "nested2/3"], "sim": ["nested", "nested2", "grow", "top", "co"],
            "calls": ["nested", "grow/4", "top/3", "co/4"]}
    if thorough:
        plan = {"ind": ["nested", "grow/8", "top/4", "co/8"], "bfs": ["nested/3", "top/2", "nested2/4", "grow/8", "co/8"],
                "sim": ["nested", "nested2", "grow", "top", "co"], "calls": ["nested", "nested2", "grow", "top", "co"]}
    plan.update({"sweep": ["grow1"], "sweep7": ["grow7"], "sweep32": ["grow32"]})
    sb = StackBatch()
    distinct = set()
    samples = []
    ev["history_sets"] = {}
    for name, hs in sets:
        ev["history_sets"][name] = len(hs)
        for h in hs:
            distinct.add(vlib.canon_hash(h))
        for cname in plan[name]:
            use = hs
            if "/" in cname:
                cname, k = cname.split("/")
                use = hs[(vlib.seed() % int(k))::int(k)]      # a seeded sample
            sb.replay_all(use, cfgs[cname], name + "-" + cname, verd, stats)
        samples.append({"set": name, "history": hs[len(hs) // 2]})
    total = sb.validate(verd, stats)
    ev["stack_samples"] = samples
    ev["stack_traces_validated"] = total
    ev["stack_distinct_histories"] = len(distinct)
    ev["stack_events_observed"] = sb.cov["events"]
    ev["histories_during_which_registry_grew"] = sb.cov["grew"]
    ev["largest_LocalBase_of_a_root"] = sb.cov.get("max_base", 0)
    ev["calls_by_api"] = sb.calls
    ev["calls_by_callee_kind"] = sb.kinds
    if sb.cov["grew"] == 0:
        raise vlib.Infra("no history ran across a registry growth: the grow configuration is vacuous")
    return total


# --------------------------------------------------------------------------
# part 2: object-level API versus the Lua expression

def S(x):
    return ["s", list(x.encode("latin-1"))]


NIL = ["nil"]


def make_world(variant=1):
    """The operand world (input data only; its meaning is given by LuaSem).
    Returns (world, names): world = {heap, ret, G, smt}, names = ref by name.
    variant 2: the same objects, the handlers return other values (opposite
    truthiness, other types)."""
    heap = []
    names = {}

    def add(name, o, kv=None, mt=0, builtin=""):
        heap.append({"o": o, "kv": kv or [], "mt": mt, "builtin": builtin})
        names[name] = len(heap)
        return len(heap)

    def T(n):
        return ["t", names[n]]

    def U(n):
        return ["u", names[n]]

    def H(n):
        return ["bi", n]
    G = add("G", "tab", [[S("c10g_present"), S("gval")], [S("c10g_false"), ["b", False]]], builtin="G")
    add("string", "tab", [[S("len"), ["bi", "string.len"]]], builtin="string")
    add("smt", "tab", [[S("__index"), T("string")]], builtin="smt")
    add("plain", "tab", [[S("k1"), S("v1")], [["n", 1], S("one")], [["n", 2], S("two")], [S("10"), S("strten")],
                         [["n", 10], S("numten")], [["b", True], S("t")]])
    add("list", "tab", [[["n", 1], ["n", 11]], [["n", 2], ["n", 12]], [["n", 3], ["n", 13]]])
    add("empty", "tab")
    add("sink", "tab")
    # metatable A: every handler a function
    add("MA", "tab", [[S("__index"), H("hIdxA")], [S("__newindex"), H("hNewA")], [S("__eq"), H("hEqA")],
                      [S("__lt"), H("hLtA")], [S("__le"), H("hLeA")], [S("__concat"), H("hCatA")],
                      [S("__len"), H("hLenA")], [S("__tostring"), H("hStrA")]])
    add("a1", "tab", [[S("k1"), S("own")]], mt=names["MA"])
    add("a2", "tab", mt=names["MA"])
    # metatable B: other handler functions, table-valued __index / __newindex
    add("MB", "tab", [[S("__index"), T("plain")], [S("__newindex"), T("sink")], [S("__eq"), H("hEqB")],
                      [S("__lt"), H("hLtB")], [S("__concat"), H("hCatB")], [S("__len"), H("hLenB")]])
    add("b1", "tab", mt=names["MB"])
    # metatable C: chain of depth 2, protected metatable, __tostring returning a non-string
    add("MC", "tab", [[S("__index"), T("b1")], [S("__newindex"), T("b1")], [S("__metatable"), S("locked")],
                      [S("__tostring"), H("hStrC")]])
    add("c1", "tab", [[["n", 1], S("c-one")]], mt=names["MC"])
    # metatable D: shares __eq / __lt handlers with A (5.1: handlers compared, not metatables),
    # __concat returns a table that needs __concat again
    add("MD", "tab", [[S("__eq"), H("hEqA")], [S("__lt"), H("hLtA")], [S("__concat"), H("hCatD")]])
    add("d1", "tab", mt=names["MD"])
    # a table that is its own __index / __newindex: the 100-step loop limit
    add("ML", "tab")
    add("loop", "tab", mt=names["ML"])
    heap[names["ML"] - 1]["kv"] = [[S("__index"), T("loop")], [S("__newindex"), T("loop")]]
    # metatable E: handlers that raise an error
    add("ME", "tab", [[S("__index"), H("hRaise")], [S("__newindex"), H("hRaise")], [S("__concat"), H("hRaise")],
                      [S("__lt"), H("hRaise")], [S("__eq"), H("hRaise")], [S("__tostring"), H("hRaise")], [S("__len"), H("hRaise")]])
    add("e1", "tab", mt=names["ME"])
    add("e2", "tab", mt=names["ME"])
    # handlers that are neither functions nor tables: the chain continues into a number / a string
    add("MN", "tab", [[S("__index"), ["n", 5]], [S("__newindex"), S("abc")]])
    add("n1", "tab", mt=names["MN"])
    add("MS", "tab", [[S("__index"), S("abc")]])
    add("s1", "tab", mt=names["MS"])
    # __metatable = false / true / 0 / "" / a table (absent: MA.., a string: MC), each on a table and a userdata
    for nm, val in (("false", ["b", False]), ("true", ["b", True]), ("zero", ["n", 0]), ("empty", S("")),
                    ("tab", T("plain"))):
        add("MM_" + nm, "tab", [[S("__metatable"), val], [S("__index"), T("plain")]])
        add("mm_" + nm, "tab", mt=names["MM_" + nm])
        add("um_" + nm, "ud", mt=names["MM_" + nm])
    # __index / __newindex chains of TABLES of depth 1..3 whose last link is a FUNCTION: the handler
    # must get the table whose metatable holds it (not the original receiver); hSelf returns its self
    add("MR", "tab", [[S("__index"), H("hSelf")], [S("__newindex"), H("hNewA")]])
    add("r1", "tab", mt=names["MR"])
    for i, prev in ((2, "r1"), (3, "r2")):
        add("MR%d" % i, "tab", [[S("__index"), T(prev)], [S("__newindex"), T(prev)]])
        add("r%d" % i, "tab", mt=names["MR%d" % i])
    add("ur2", "ud", mt=names["MR2"])
    add("ur3", "ud", mt=names["MR3"])
    for i, prev in ((2, "a2"), (3, "p2")):
        add("MP%d" % i, "tab", [[S("__index"), T(prev)], [S("__newindex"), T(prev)]])
        add("p%d" % i, "tab", [[S("own"), ["n", i]]], mt=names["MP%d" % i])
    # traversal tables: array part plus hash keys of every kind, in several insertion orders -
    # fractional numbers, negative numbers, zero, numbers beyond the array part, booleans incl.
    # false, strings that look like numbers
    X = lambda f: ["x", f]
    arr = [[["n", i], S("a%d" % i)] for i in (1, 2, 3)]
    mixed = [[X("1.5"), S("f15")], [X("0.5"), S("f05")], [["n", -1], S("neg")], [["n", 0], S("zero")], [["n", 100], S("far")],
             [["n", 67108865], S("huge")], [["b", True], S("t")], [["b", False], S("f")], [S("1"), S("s1")],
             [S("1.5"), S("s15")], [X("-2.5"), S("fneg")], [X("2.5"), S("f25")], [X("3.5"), S("f35")]]
    add("tr1", "tab", arr + mixed)
    add("tr2", "tab", list(reversed(mixed)) + arr)
    add("tr3", "tab", [[X("0.5"), S("a")], [X("1.5"), S("b")], [X("2.5"), S("c")], [S("x"), S("d")]])      # no array part
    add("tr4", "tab", arr[:2] + [[X("1.5"), S("only")]])
    add("tr5", "tab", [[X("2.5"), S("first")]] + arr + [[X("7.25"), S("last")], [S("k"), S("v")]])
    add("tr6", "tab", arr + [[X("3.5"), S("edge")], [X("4.5"), S("past")]])
    # userdata
    add("ua1", "ud", mt=names["MA"])
    add("ue1", "ud", mt=names["ME"])
    add("ua2", "ud", mt=names["MA"])
    add("ub1", "ud", mt=names["MB"])
    add("uc1", "ud", mt=names["MC"])
    add("u0", "ud")
    # metatables for the globals table
    add("MGf", "tab", [[S("__index"), H("hIdxG")], [S("__newindex"), H("hNewG")]])
    add("MGt", "tab", [[S("__index"), T("plain")], [S("__newindex"), T("sink")]])
    ret = [["hIdxA", S("IDX")], ["hNewA", S("ignored")], ["hEqA", ["n", 0]], ["hLtA", NIL], ["hLeA", ["b", True]],
           ["hCatA", S("CAT")], ["hLenA", ["n", 5]], ["hStrA", S("STR")],
           ["hEqB", ["b", False]], ["hLtB", S("yes")], ["hCatB", ["n", 7]], ["hLenB", S("7")],
           ["hStrC", ["n", 42]], ["hCatD", T("a1")], ["hIdxG", S("GIDX")], ["hNewG", NIL], ["hRaise", ["raise"]], ["hSelf", ["arg", 1]]]
    if variant == 2:
        ret = [["hIdxA", NIL], ["hNewA", NIL], ["hEqA", NIL], ["hLtA", ["n", 1]], ["hLeA", NIL],
               ["hCatA", ["n", 3]], ["hLenA", ["n", 0]], ["hStrA", T("a2")],
               ["hEqB", S("")], ["hLtB", ["b", False]], ["hCatB", S("")], ["hLenB", ["n", -1]],
               ["hStrC", S("locked-object")], ["hCatD", U("ua1")], ["hIdxG", ["b", False]], ["hNewG", S("x")],
               ["hRaise", ["raise"]], ["hSelf", ["arg", 1]]]
    return {"heap": heap, "ret": ret, "G": G, "smt": names["smt"]}, names


def obj_cases(world, names, tier, rng, w=1, cases=None):
    """Every operand combination for every object-level API method."""
    heap = world["heap"]
    objs = []
    for n in ("plain", "list", "empty", "a1", "a2", "b1", "c1", "d1", "loop", "MA", "e1", "e2", "n1", "s1"):
        objs.append(["t", names[n]])
    chain = [["t", names[n]] for n in ("r1", "r2", "r3", "p2", "p3")] + [["u", names[n]] for n in ("ur2", "ur3")]
    for n in ("ua1", "ua2", "ub1", "uc1", "u0", "ue1"):
        objs.append(["u", names[n]])
    prims = [NIL, ["b", True], ["b", False], ["n", 0], ["n", 1], ["n", 10], ["n", -3], ["x", "1.5"],
             S("10"), S("abc"), S(""), S("k1"), S("zz"), S("9")]
    vals = prims + objs + [["bi", "F"]]
    keys = [NIL, ["b", True], ["n", 1], ["n", 2], ["n", 3], ["n", 10], S("10"), S("k1"), S("zz"), S("len"),
            S("__index"), ["t", names["plain"]]]
    fields = [S("k1"), S("zz"), S("len"), S("__index")]
    newvals = [S("new"), NIL, ["n", 5]]
    cases = [] if cases is None else cases

    def add(op, a, gmt=0, tmt=None):
        cases.append({"id": len(cases) + 1, "w": w, "op": op, "a": a, "gmt": gmt, "tmt": tmt or []})
    for o in vals + chain:
        for k in keys:
            add("GetTable", [o, k])
            for v in newvals:
                add("SetTable", [o, k, v])
        for f in fields:
            if o in chain or o[0] in ("t", "u"):
                # the string-key API path against the generic-key Lua form (and the model)
                add("GetFieldT", [o, f])
                add("SetFieldT", [o, f, S("new")])
            add("GetField", [o, f])
            for v in newvals:
                add("SetField", [o, f, v])
        add("GetMetatable", [o])
        add("ToStringMeta", [o])
    # metatable visibility and protection: every kind of __metatable value (absent, false, true,
    # 0, "", a string, a table) on tables, userdata and - as type metatables - on numbers, booleans,
    # nil, functions and strings: GetMetatable vs the raw metatable vs setmetatable's protection
    mms = ["MM_false", "MM_true", "MM_zero", "MM_empty", "MM_tab", "MC", "MA"]
    for v in vals + [[tag, names[p + m[3:]]] for m in mms[:5] for tag, p in (("t", "mm_"), ("u", "um_"))]:
        if v[0] in ("t", "u"):
            if v not in vals:
                add("GetMetatable", [v])
                add("ToStringMeta", [v])
                add("GetTable", [v, S("k1")])
            add("RawMetatable", [v])
        if v[0] == "t":
            for m in (NIL, ["t", names["empty"]]):
                add("ProtectedSet", [v, m])
    for tag, sample in (("n", ["n", 10]), ("b", ["b", False]), ("nil", NIL), ("bi", ["bi", "F"]), ("s", S("abc"))):
        for m in mms:
            add("GetMetatable", [sample], tmt=[[tag, names[m]]])
    for gmt in (0, names["MGf"], names["MGt"]):
        for n in (S("c10g_present"), S("c10g_false"), S("c10g_absent"), S("k1")):
            add("GetGlobal", [n], gmt)
            for v in newvals + [["t", names["a1"]]]:
                add("SetGlobal", [n, v], gmt)
    for a in vals:
        for b in vals:
            add("Equal", [a, b])
            add("RawEqual", [a, b])
            add("LessThan", [a, b])
            add("Concat", [a, b])
    add("Concat", [])       # no operands: the empty string, never something found on the caller's stack
    triples = [(a, b, c) for a in vals for b in vals for c in vals]
    if tier != "thorough":
        triples = rng.sample(triples, 1500)
    elif w != 1:
        triples = rng.sample(triples, 4000)
    for a, b, c in triples:
        add("Concat", [a, b, c])
    # ObjLen: strings, tables, userdata with a __len handler (ObjLen is total by
    # design - state_test.go asserts ObjLen(number) == 0 - so operands on which
    # `#v` is an error are outside its domain)
    for v in vals:
        if v[0] == "s" or v[0] == "t":
            add("ObjLen", [v])
        if v[0] == "u" and any(kv[0] == S("__len") for kv in heap[heap[v[1] - 1]["mt"] - 1]["kv"] if heap[v[1] - 1]["mt"]):
            add("ObjLen", [v])
    for o in objs + [["t", names["tr%d" % i]] for i in range(1, 7)]:
        if o[0] != "t":
            continue
        add("ForEachWalk", [o])
        # a key that is not a field of the table is an invalid key to next
        for k in (S("nokey"), ["n", 7], ["x", "9.5"], ["b", True], ["b", False], ["n", 0], ["n", -5], ["t", names["empty"]]):
            if not any(kv[0] == k for kv in heap[o[1] - 1]["kv"]):
                add("Next", [o, k])
        add("NextWalk", [o])
        add("Next", [o, NIL])
        for kv in heap[o[1] - 1]["kv"]:
            add("Next", [o, kv[0]])
    return cases


def kind_of(world, v, coarse=False):
    """operand class for the case key"""
    if v[0] in ("t", "u"):
        o = world["heap"][v[1] - 1]
        base = "table" if v[0] == "t" else "userdata"
        return base + "+mt" if o["mt"] else base
    if v[0] == "s":
        txt = bytes(v[1]).decode("latin-1")
        if txt.startswith("__"):
            return "'%s'" % txt
        if coarse:
            return "string"
        try:
            float(txt)
            return "numeric-string"
        except ValueError:
            return "string"
    return {"n": "number", "x": "number", "b": "boolean", "nil": "nil", "bi": "function"}.get(v[0], v[0])


OP_GROUP = {"GetTable": "index", "GetField": "index", "SetTable": "newindex", "SetField": "newindex",
            "GetFieldT": "index", "SetFieldT": "newindex",
            "GetGlobal": "global-index", "SetGlobal": "global-newindex"}


def obj_key(world, rec, v):
    """one defect class = one key: the operation family (GetTable and GetField
    share the index path), who disagrees with whom about what, operand classes"""
    op = rec["op"]
    coarse = op in OP_GROUP
    kinds = [kind_of(world, a, coarse) for a in rec["a"]]
    if OP_GROUP.get(op) in ("index", "newindex") and rec["a"][0][0] in ("t", "u"):
        # a receiver whose handler is a string hands the access on to that string
        o = world["heap"][rec["a"][0][1] - 1]
        ev = S("__index" if OP_GROUP[op] == "index" else "__newindex")
        if o["mt"] and any(kv[0] == ev and kv[1][0] == "s" for kv in world["heap"][o["mt"] - 1]["kv"]) and not o["kv"]:
            kinds[0] = "string"
    if op in ("SetTable", "SetField", "SetFieldT", "SetGlobal"):
        kinds = kinds[:-1]          # the stored value does not select the path
    if OP_GROUP.get(op) in ("index", "newindex"):
        kinds[0] = "object+mt" if kinds[0] in ("table+mt", "userdata+mt") else kinds[0]
        if v["why"] != "result" and len(kinds) > 1 and kinds[1].startswith("'"):
            kinds[1] = "string"
    if op == "Next" and v["why"] == "err":
        kinds = ["absent-key"]        # next(t, k) with a k that is not a field of t
    if op in ("GetGlobal", "SetGlobal"):
        kinds = ["gmt=%s" % ("none" if not rec["gmt"] else "handlers")]
    if op in ("GetMetatable", "RawMetatable", "ProtectedSet"):
        # what decides these is the __metatable field of the operand's (type) metatable
        a = rec["a"][0]
        ref = world["heap"][a[1] - 1]["mt"] if a[0] in ("t", "u") else dict((t, r) for t, r in rec.get("tmt", [])).get(a[0], 0)
        f = [kv[1] for kv in world["heap"][ref - 1]["kv"] if kv[0] == S("__metatable")] if ref else None
        cls = "no-metatable" if f is None else ("absent" if not f else
              {"b": str(f[0][1]).lower(), "n": "number", "s": "string", "t": "table"}.get(f[0][0], f[0][0]) if f[0][0] != "b" else str(f[0][1]).lower())
        if op == "RawMetatable" and f:
            cls = "present"             # the raw metatable does not depend on the field's value
        kinds = ["__metatable=%s" % cls]
    return "C10:obj:%s:%s:%s:%s" % (OP_GROUP.get(op, op), v["who"], v["why"], ",".join(kinds) or "no-operands")


def obj_part(tier, verd, stats, ev, only=None, quiet=False):
    t0 = time.time()
    rng = random.Random(vlib.seed() * 104729 + 10)
    world, names = make_world()
    worlds = [world, make_world(2)[0]]
    if only is not None:
        cases = only
    else:
        cases = obj_cases(world, names, tier, rng)
        if tier == "thorough":
            obj_cases(worlds[1], names, tier, rng, w=2, cases=cases)
    sd = vlib.subdir("c10")
    inp = os.path.join(sd, "obj_in.json")
    outp = os.path.join(sd, "obj_out.ndjson")
    with open(inp, "w") as f:
        json.dump({"worlds": worlds, "cases": cases}, f)
    vlib.run_harness(["c10-obj", "--in", inp, "--out", outp], timeout=900)
    recs = vlib.read_ndjson(open(outp).read())
    os.remove(inp)
    os.remove(outp)
    if len(recs) != len(cases):
        raise vlib.Infra("c10-obj returned %d records for %d cases" % (len(recs), len(cases)))
    t1 = time.time()
    with open(os.path.join(vlib.specdir(), "c10_worlds.json"), "w") as f:
        json.dump(worlds, f)
    todo = []
    byid = {}
    for r in recs:
        byid[r["id"]] = r
        crashed = [s for s in ("api", "lua") if "crash" in r[s]]
        if crashed:
            verd.candidate("C10:obj:%s:crash:%s" % (r["op"], ",".join(kind_of(world, a) for a in r["a"])),
                           "%s%s: Go panic in the %s evaluation: %s" % (r["op"], json.dumps(r["a"]), crashed[0], r[crashed[0]]["crash"][:200]),
                           {"part": "obj", "case": {k: r[k] for k in ("id", "w", "op", "a", "gmt", "tmt")}, "record": r})
        else:
            for s in ("api", "lua"):
                r[s].pop("errmsg", None)
            todo.append(r)
    n = 0
    modelled = 0
    perop = {}
    nbatch = max(1, min(4, len(todo) // 1500))
    bsize = (len(todo) + nbatch - 1) // nbatch
    for res in vlib.validate_batches("ApiObjTrace", "ApiObjTrace", todo, "c10_obj", batch=max(1, bsize), parallel=4, timeout=1500,
                                     extra_consts={"WFile": '"c10_worlds.json"'}):
        stats["states"] += res.distinct
        stats["transitions"] += res.generated
        vs = res.tag("VERDICT")
        if len(vs) != res.nrecords:
            raise vlib.Infra("ApiObjTrace: %d verdicts for %d cases" % (len(vs), res.nrecords))
        for v in vs:
            n += 1
            r = byid[v["id"]]
            c = perop.setdefault(r["op"], {"cases": 0, "decided_by_LuaSem": 0, "with_handler_calls": 0, "errors": 0})
            c["cases"] += 1
            c["decided_by_LuaSem"] += 1 if v["modelled"] else 0
            c["with_handler_calls"] += 1 if r["lua"]["calls"] else 0
            c["errors"] += 1 if r["lua"]["err"] else 0
            modelled += 1 if v["modelled"] else 0
            if v["v"] == "ok":
                continue
            verd.candidate(obj_key(world, r, v), "%s%s: %s differs (%s): api=%s lua=%s%s" % (
                r["op"], json.dumps(show(r["a"])), v["why"], v["who"], json.dumps(show(brief(r["api"]))), json.dumps(show(brief(r["lua"]))),
                (" LuaSem=" + json.dumps(show(v["exp"]))) if v["exp"] else ""),
                {"part": "obj", "case": {k: r[k] for k in ("id", "w", "op", "a", "gmt", "tmt")}, "record": r, "verdict": v})
    if not quiet:
        vlib.log("[C10] obj: %d cases validated by ApiObjTrace, %d decided by LuaSem as well (harness %.1fs, TLC %.1fs)" % (
            n, modelled, t1 - t0, time.time() - t1))
    ev["obj_cases_validated"] = n
    ev["obj_cases_decided_by_LuaSem"] = modelled
    ev["obj_per_method"] = perop
    ev["obj_samples"] = [{k: show(recs[i][k]) if k in ("a", "api", "lua") else recs[i][k] for k in ("op", "a", "api", "lua")}
                         for i in (7, len(recs) // 3, len(recs) // 2)] if len(recs) > 10 else []
    return n


def brief(side):
    return {k: side[k] for k in ("err", "calls", "res", "post") if k in side and (side[k] or k in ("err", "res"))}


def show(x):
    """byte-array strings back to text, for messages"""
    if isinstance(x, list):
        if len(x) == 2 and x[0] == "s" and isinstance(x[1], list) and all(isinstance(b, int) for b in x[1]):
            return ["s", bytes(x[1]).decode("latin-1")]
        return [show(y) for y in x]
    if isinstance(x, dict):
        return {k: show(v) for k, v in x.items()}
    return x


def reproduce(replays, stats=None):
    """Re-run replay objects on fresh interpreters; returns for each whether the
    real code's behaviour is rejected again."""
    stats = stats if stats is not None else {"states": 0, "transitions": 0}
    out = [False] * len(replays)
    st = [(i, rp) for i, rp in enumerate(replays) if rp["part"] == "stack"]
    ob = [(i, rp) for i, rp in enumerate(replays) if rp["part"] == "obj"]
    if st:
        sb = StackBatch()
        for i, rp in st:
            sb.replay([rp["h"]], dict(rp["cfg"], fresh=True), "replay%d" % i, first_id=rp["id"])
        c = Cands()
        sb.validate(c, stats, quiet=True)
        hit = set(x[2]["gid"] for x in c.items)
        for n, (i, rp) in enumerate(st):
            out[i] = (n + 1) in hit
    if ob:
        c = Cands()
        cases = [dict(rp["case"], id=n + 1) for n, (i, rp) in enumerate(ob)]
        obj_part("quick", c, stats, {}, only=cases, quiet=True)
        hit = set(x[2]["case"]["id"] for x in c.items)
        for n, (i, rp) in enumerate(ob):
            out[i] = (n + 1) in hit
    return out


ASSUMPTIONS = [
    "stack part: exact semantics for every valid index and for the out-of-range indices the API fixes (Get -> nil, Replace/Remove -> no-op, SetTop(-(n+1)) empties); Insert(v,0), Insert(v,i<-n), SetTop(i<-(n+1)) only have to keep frame privacy (result list bound to the observation)",
    "Insert(v,i>n+1) belongs to the clamped class too: any list of Lua values (no Go nil at any index 1..top)",
    "excluded as programmer errors: Pop(k>n) (raises 'register underflow'), pseudo-indices, a host function returning more values than its list holds, Call with fewer than nargs+1 values",
    "Insert with a negative index may resolve it before or after the insertion (both admitted; the API does not say)",
    "replay configurations: root host function under one or two Lua/Go layers above 3-7 (or ~100, growing registry) top-level values, the top level itself (base 0), and the same layers inside a coroutine; the two-layer configuration uses Options.MinimizeStackMemory",
    "Lua callees of the call-contract family: plain, results in local registers followed by live non-nil locals (single local / middle local / parameter returned in place) and dirty registers above the results, each through Call, CallByParam, PCall, PCall+errfunc, CallByParam{Protect} and {Protect,Handler} for every (nargs, NRet, produced); GPCall takes host functions only",
    "ApiStackImpl transcribes Go->Go calls (callR, pushCallFrame IsG, callGFunction, PCall's recovery); Lua frames between host activations exist only in the replay, not in the MC model",
    "MC bounds: list length <= 3, index -5..5, depth <= 2 (quick) / 3 (thorough), NRet in {-1,0..3}, nargs/produced 0..3; simulation histories use list length <= 6, depth <= 4, 40 operations",
    "object part: one operand world, two sets of handler results (numbers, numeric strings, strings, booleans, nil, tables/userdata with and without metatables, function and table valued handlers, a self-referential __index loop); error messages are not compared, only error-ness; Concat/ObjLen results the Go result type cannot carry (non-string / non-number handler results) are compared on handler calls only",
    "ObjLen is judged on strings, tables and userdata with a __len handler (it is total by design: state_test.go asserts ObjLen(number) == 0)",
    "LuaSem decides integers only; float operands, tostring of objects, tables with a __len field and non-unique borders are compared API = Lua only",
]


def run(tier):
    t0 = time.time()
    verd = vlib.Verdicts(PROP)
    cands = Cands()
    stats = {"states": 0, "transitions": 0}
    ev = {}
    vlib.build_harness()
    from concurrent.futures import ThreadPoolExecutor
    vlib.specdir()
    with ThreadPoolExecutor(max_workers=1) as ex:      # the object part runs beside the stack part's TLC phase
        stats2 = {"states": 0, "transitions": 0}
        fut = ex.submit(obj_part, tier, cands, stats2, ev)
        n1 = 0 if os.environ.get("C10_SKIP_STACK") else stack_part(tier, cands, stats, ev)
        n2 = fut.result()
    stats["states"] += stats2["states"]
    stats["transitions"] += stats2["transitions"]
    cands.report(verd, stats)
    rc = verd.finish()
    cov = {"states": stats["states"], "transitions": stats["transitions"],
           "traces_validated_against_impl": n1 + n2,
           "evaluations": ev.get("stack_events_observed", 0) + 2 * n2,
           "distinct_nontrivial": ev.get("stack_distinct_histories", 0) + n2,
           "rule": "stack: distinct operation histories by canonical hash (every history has a setup prefix or >= 1 operation "
                   "and is replayed under 2-4 harness configurations); object part: one case = one (method, operand tuple, "
                   "globals metatable); evaluations = list re-reads after single operations + 2 evaluations (API, Lua) per object case",
           "exhaustive": False,
        "exhaustive_parts": "stack MC: every canonical configuration x every operation x every index in -5..5 within the bounds; "
                         "object part: every operand pair of the world for the binary methods (triples sampled in quick)",
           "known_findings_hit": sorted(verd.known_hit)}
    cov.update(ev)
    vlib.write_evidence(PROP, tier, "model_checking", cov, time.time() - t0, len(verd.violations), assumptions=ASSUMPTIONS)
    return rc


def replay(path):
    rec = json.load(open(path))
    ok = reproduce([rec["replay"]])[0]
    if ok:
        vlib.log("VIOLATION property=%s replay=%s" % (PROP, path))
        vlib.log("  key=%s: %s" % (rec["key"], rec["what"]))
        return 1
    vlib.log("replay %s: the real code's behaviour is accepted now" % path)
    return 0


def selftest():
    """The trace specs must reject mutated observations (vacuity guard)."""
    import copy
    good = {"id": 1, "init": [], "fin": {"res": [["n", 11]], "locals": True, "below": True}, "ev": [
        {"op": "enter", "list": [], "top": 0},
        {"op": "push", "v": ["n", 11], "list": [["n", 11]], "top": 1},
        {"op": "call", "prot": True, "args": [["n", 15]], "nret": 2, "list": [["n", 15]], "top": 1},
        {"op": "get", "i": -2, "rv": ["nil"], "list": [["n", 15]], "top": 1},
        {"op": "ret", "r": 1, "err": False, "list": [["n", 11], ["n", 15], ["nil"]], "top": 3},
        {"op": "pop", "n": 2, "list": [["n", 11]], "top": 1}]}
    recs = [good]
    want = ["ok"]

    def mut(f, w):
        r = copy.deepcopy(good)
        r["id"] = len(recs) + 1
        f(r)
        recs.append(r)
        want.append(w)
    mut(lambda r: r["ev"][3].__setitem__("rv", ["n", 11]), "read")                              # read a caller's value
    mut(lambda r: r["ev"][4].__setitem__("list", [["n", 11], ["n", 15]]), "list")               # results not padded
    mut(lambda r: r["ev"][4].__setitem__("list", [["n", 12], ["n", 15], ["nil"]]), "caller-list")   # caller disturbed
    mut(lambda r: r["ev"][4].__setitem__("err", True), "spurious-error")
    mut(lambda r: r["fin"].__setitem__("locals", False), "lua-caller-locals")
    mut(lambda r: r["ev"][1].__setitem__("probe", [["nil"], ["nil"], ["s", "S1"], ["nil"]]), "outside-read")
    mut(lambda r: r["ev"][1].__setitem__("top", 2), "gettop")
    got = {}
    for res in vlib.validate_batches("ApiStackTrace", "ApiStackTrace", recs, "c10_self", batch=100):
        for v in res.tag("VERDICT"):
            got[v["id"]] = "ok" if v["v"] == "ok" else v["why"]
    bad = [(i + 1, w, got.get(i + 1)) for i, w in enumerate(want) if got.get(i + 1) != w]
    # object part: a tampered record must be rejected both ways
    world, names = make_world()
    cases = [{"id": 1, "w": 1, "op": "Equal", "a": [["t", names["a1"]], ["t", names["a2"]]], "gmt": 0}]
    c = Cands()
    obj_part("quick", c, {"states": 0, "transitions": 0}, {}, only=cases, quiet=True)
    if c.items:
        bad.append(("obj", "ok", c.items[0][0]))
    for b in bad:
        vlib.log("selftest mismatch: %r" % (b,))
    vlib.log("[C10] selftest: %d stack mutations, %d wrong" % (len(want) - 1, len(bad)))
    return 2 if bad else 0
