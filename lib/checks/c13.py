"""C13 - concurrent states never interfere; channels deliver each value once, in order.

MC   : module Channel explored exhaustively by TLC (ChannelMC: every interleaving of
       2-3 processes issuing send / refused send / receive / close / select on channels
       of capacity 0..2) against laws stated on the history of completed operations.
Bind : (a) WITNESS validation - N real LStates in goroutines run generated channel scripts,
       each logs call/return of every channel operation in its own log; ChannelTrace.tla
       must find an interleaving of the per-process logs that Channel allows (TLC decides);
       (b) N states made from ONE shared FunctionProto run programs at the same time (corpus
       programs, library programs, programs that resolve function names at anonymous call sites
       and after tail calls) while other goroutines create/compile/run/close states; every
       per-state trace must be the trace of the same program run alone on a private compilation,
       every distinct corpus trace is validated by LuaSemTrace (TLC), and the prototype tree is
       observed after compilation and after every run/schedule: SharedProtoTrace.tla (TLC) decides
       the invariant Immutable of SharedProto.tla on the observations;
       (c) the harness is built with -race: a race report on interpreter memory is a violation.
"""
import json, os, random, re, time
from concurrent.futures import ThreadPoolExecutor
import vlib, lsem, gen_core, c13scen

PROP = "C13"
stuck_kinds = {}     # scenario id -> kinds of the stuck operations of its best witness

# (NP, NC, Cap1, Cap2, MaxOps, MaxSend, WithSel)
MC_QUICK = [[(2, 2, 0, 1, 2, 2, 2), (2, 1, 2, 0, 3, 3, 1)]]
MC_THOROUGH = [[(3, 2, 0, 2, 3, 3, 0)],
               [(3, 2, 0, 1, 2, 2, 1), (2, 2, 1, 2, 3, 3, 2), (3, 1, 0, 0, 2, 2, 2), (2, 2, 0, 1, 3, 2, 1), (2, 1, 2, 0, 3, 3, 2)]]
MC_REACH = (2, 2, 0, 1, 2, 2, 2)
ALL_KINDS = ["sent", "rcvd", "eof", "closed", "senderr", "closeerr", "handoff", "selsent", "selrcvd", "seleof", "seldflt", "selerr"]

LAW_ORDER = ["malformed-result", "payload-accepted", "duplicate-delivery", "phantom-value", "per-sender-order",
             "closure-on-open-channel", "error-without-cause", "lost-value", "select-handler"]

# deterministic programs that use the libraries named in the property's anchors (pattern
# matcher, string/table library, coroutines, run-time compilation); oracle: the run alone
LIBMIX = [
    r'''local t = {} for i = 1, 60 do t[#t+1] = string.format("%d:%s", i, string.rep("ab", i % 5)) end
local s = table.concat(t, ",") local n = 0
for a, b in string.gmatch(s, "(%d+):(%a*)") do n = n + #b + tonumber(a) end
emit(n, (string.gsub(s, "%d+", function(d) return "<" .. d .. ">" end)):sub(1, 40), string.find(s, "17:(a+b)"))''',
    r'''local words = {} for w in string.gmatch("the quick brown fox jumps over the lazy dog and runs away", "%a+") do words[#words+1] = w end
for r = 1, 40 do table.sort(words, function(a, b) if r % 2 == 0 then return a < b else return a > b end end) end
emit(table.concat(words, " "), #words, string.upper(words[1]), string.byte(words[2], 1, 3))''',
    r'''local function gen(n) return coroutine.wrap(function() for i = 1, n do coroutine.yield(i * i) end end) end
local acc = 0 for r = 1, 30 do for v in gen(20) do acc = acc + v end end
local ok, err = pcall(function() error({code = acc}) end)
emit(acc, ok, type(err), err.code, select("#", pcall(error)))''',
    r'''local acc = {} for i = 1, 40 do local f = loadstring("local a = ... return a * " .. i .. " + " .. (i % 7)) acc[#acc+1] = f(i) end
emit(acc[1], acc[20], acc[40], #acc, loadstring("return (")) ''',
    r'''local s = string.rep("x(a(b)c)y[1,2]z ", 20) local c = 0
for m in string.gmatch(s, "%b()") do c = c + #m end
local f = 0 for w in string.gmatch("THE (quick) fox", "%f[%a]%a+") do f = f + #w end
emit(c, f, string.format("%5.2f|%-6s|%03d|%x|%q", 3.14159, "ab", 7, 255, "a\nb"), ("abc"):rep(3, "-") == nil)''',
    r'''local mt = {__index = function(t, k) return k * 2 end, __add = function(a, b) return 100 end, __call = function(self, x) return x + 1 end}
local o = setmetatable({}, mt) local sum = 0
for i = 1, 200 do sum = sum + o[i] + o(i) end
emit(sum, o + o, rawget(o, 1), tostring(12.5), tonumber("0x1F"), tonumber("  12  "), math.floor(-3.5), math.max(1, 9, 3))''',
    r'''local t = {} for i = 1, 300 do t[i] = (i * 7919) % 101 end
table.sort(t) local u = {} for i = 1, 100 do table.insert(u, 1, t[i]) end
for i = 1, 50 do table.remove(u) end
local keys = 0 for k, v in pairs({a = 1, b = 2, c = 3, 10, 20}) do keys = keys + 1 end
emit(t[1], t[150], t[300], #u, u[1], keys, unpack(u, 1, 3))''',
    r'''local function depth(n) if n == 0 then return 0 end return 1 + depth(n - 1) end
local function thrower(n) if n == 0 then error("deep") end return 1 + thrower(n - 1) end
local acc = 0
for r = 1, 30 do acc = acc + depth(100) local ok, e = pcall(thrower, 60) acc = acc + (ok and 1 or 0) end
local co = coroutine.wrap(function() for i = 1, 20 do coroutine.yield(depth(40)) end end)
for i = 1, 20 do acc = acc + co() end
emit(acc, select(2, pcall(thrower, 3)))''',
    r'''local parts = {} for i = 1, 50 do parts[#parts+1] = os.date("!%Y-%m-%d %H:%M:%S", i * 86400 * 37) end
emit(parts[1], parts[50], string.len(table.concat(parts)), os.time({year = 2001, month = 2, day = 3, hour = 4}) ~= nil)''',
]


# programs that make the interpreter RESOLVE FUNCTION NAMES (tracebacks, debug.getinfo 'n', error
# positions) for callees reached through call sites without a static name (t[i](), (f or g)(),
# handlers[k]()) and after tail calls.  The global c13_which (set by the harness, differs between the
# states sharing one prototype) selects which callee a site reaches first, so a name cached anywhere
# but in the running state shows up as another state's (or an earlier call's) function.
DBGNAMES = [
    r'''local function a() error("boom") end
local function b() error("boom") end
local handlers = { a, b }
local function dispatch(i)
  local r = handlers[i]()
  return r
end
local w = c13_which % 2 + 1
local ok, tb = xpcall(function() dispatch(w) end, debug.traceback)
emit(tb)
local ok2, tb2 = xpcall(function() dispatch(3 - w) end, debug.traceback)
emit(tb2)''',
    r'''local function f()
  local i = debug.getinfo(1, "nS") return tostring(i.name) .. "@" .. tostring(i.linedefined)
end
local function g()
  local i = debug.getinfo(1, "nS") return tostring(i.name) .. "@" .. tostring(i.linedefined)
end
local t = { f, g }
local w = c13_which % 2 + 1
local function site(i) local r = t[i]() return r end
local out = {}
for r = 1, 6 do out[#out + 1] = site((w + r) % 2 + 1) end
emit(table.concat(out, " "), ((w == 1 and f) or g)(), ((w == 2 and f) or g)(), f(), g())''',
    r'''local function leaf1() return (debug.traceback("one", 1)) end
local function leaf2() return (debug.traceback("two", 1)) end
local function via1() return leaf1() end
local function via2() return leaf2() end
local fs = { via1, via2, leaf1, leaf2 }
local function call(i) local r = fs[i]() return r end
local w = c13_which % 2
emit(call(1 + w)) emit(call(2 - w)) emit(call(3 + w)) emit(call(4 - w))''',
    r'''local w = c13_which % 2 + 1
local function e1() local x = nil return x.field end
local function e2() local y = nil return y() end
local es = { e1, e2 }
local res = {}
for r = 1, 4 do
  local k = (w + r) % 2 + 1
  local ok, tb = xpcall(function() local v = es[k]() return v end, function(m) return debug.traceback(tostring(m), 1) end)
  res[#res + 1] = tb
end
emit(unpack(res))''',
    r'''local w = c13_which % 2 + 1
local obj = {}
function obj.first() return debug.getinfo(1, "n").name, debug.traceback("m", 1) end
function obj.second() return debug.getinfo(1, "n").name, debug.traceback("m", 1) end
local names = { "first", "second" }
local function go(k) local a, b = obj[names[k]]() return tostring(a) .. "\n" .. b end
emit(go(w)) emit(go(3 - w))
local function tail(k) return obj[names[k]]() end
emit((tail(w))) emit((tail(3 - w)))
emit(select(2, pcall(function() local fns = { string.rep, string.sub } local r = fns[w]() return r end)))''',
    r'''local w = c13_which % 2 + 1
local function mk(tag) return function(depth)
    if depth == 0 then error(tag .. " failed", 2) end
    return (select(1, 1)) and nil
  end end
local fa, fb = mk("A"), mk("B")
local pick = { fa, fb }
local function level(k) local r = pick[k](0) return r end
local r1 = { xpcall(function() level(w) end, debug.traceback) }
local r2 = { xpcall(function() level(3 - w) end, debug.traceback) }
local co = coroutine.wrap(function(k) local ok, tb = xpcall(function() local r = pick[k](0) return r end, debug.traceback) coroutine.yield(tb) end)
emit(r1[2]) emit(r2[2]) emit(co(w))''',
]


# programs that touch interpreter-owned state a script can influence or reach: the generator behind
# math.random and the marker require() keeps in package.loaded[name] while a module loads (or after a
# loader error).  c13_turn() hands control to the next state in the lock-step schedule.
PERSTATE = [
    r'''math.randomseed(42 + c13_which)
local t = {}
for r = 1, 6 do
  for i = 1, 40 do t[#t + 1] = math.random(1000000) end
  c13_turn()
end
t[#t + 1] = math.floor(math.random() * 1000000)
t[#t + 1] = math.random(5, 10)
emit(table.concat(t, ","))''',
    r'''math.randomseed(7)
local a = {}
for i = 1, 400 do a[i] = math.random(1000) end
c13_turn()
math.randomseed(7)
local same = 0
for i = 1, 400 do if math.random(1000) == a[i] then same = same + 1 end if i % 100 == 0 then c13_turn() end end
emit(same, a[1], a[200], a[400])''',
    r'''local out = {}
package.preload["c13mod"] = function(name)
  local s = package.loaded[name]
  out[#out + 1] = type(s)
  out[#out + 1] = tostring((pcall(function() return type(debug.getmetatable(s)) end)))
  out[#out + 1] = tostring((pcall(function() return s.leak end)))
  if type(s) == "userdata" then
    debug.setmetatable(s, { __index = { leak = "state " .. c13_which } })
    c13_turn()
    out[#out + 1] = tostring(s.leak)
    c13_turn()
    debug.setmetatable(s, nil)
  end
  return { ok = true }
end
local m = require("c13mod")
emit(table.concat(out, " "), m.ok)''',
    r'''local out = {}
package.preload["c13bad"] = function(name) error("loader failed") end
out[#out + 1] = tostring((pcall(require, "c13bad")))
local s = package.loaded["c13bad"]
out[#out + 1] = type(s)
if type(s) == "userdata" then
  out[#out + 1] = tostring((pcall(function() return type(debug.getmetatable(s)) end)))
  debug.setmetatable(s, { __tostring = function() return "marked by " .. c13_which end })
  c13_turn()
  out[#out + 1] = tostring(s)
  c13_turn()
  debug.setmetatable(s, nil)
end
out[#out + 1] = tostring((pcall(require, "c13bad")))
emit(table.concat(out, " "))''',
]

# walks everything a script can reach and reports every table / function / userdata / thread
OWN_PROBE = r'''
local seen = {}
local function label(k) local t = type(k) if t == "string" or t == "number" or t == "boolean" then return tostring(k) end return "<" .. t .. ">" end
local function visit(path, v, depth)
  local t = type(v)
  if t ~= "table" and t ~= "function" and t ~= "userdata" and t ~= "thread" then return end
  if seen[v] then return end
  seen[v] = true
  c13_own(path, v)
  if depth > 7 then return end
  local ok, mt = pcall(function() local m = debug.getmetatable(v) if type(m) == "table" then return m end end)
  if ok and mt then visit(path .. "<metatable>", mt, depth + 1) end
  if t == "table" then
    for k, x in pairs(v) do
      visit(path .. "." .. label(k), x, depth + 1)
      visit(path .. ".<key>", k, depth + 1)
    end
  elseif t == "function" then
    local ok, env = pcall(debug.getfenv, v)
    if ok then visit(path .. "<env>", env, depth + 1) end
    for i = 1, 60 do
      local n, u = debug.getupvalue(v, i)
      if n == nil then break end
      visit(path .. "<upvalue " .. i .. ">", u, depth + 1)
    end
  end
end
visit("_G", _G, 0)
visit("string metatable", getmetatable(""), 0)
if debug.getregistry then visit("registry", debug.getregistry(), 0) end
visit("io.stdout", io.stdout, 0) visit("io.stdin", io.stdin, 0) visit("io.stderr", io.stderr, 0)
visit("coroutine.create()", coroutine.create(function() end), 0)
visit("coroutine.wrap()", coroutine.wrap(function() end), 0)
visit("loadstring()", loadstring("return 1"), 0)
visit("string.gmatch()", string.gmatch("a", "a"), 0)
visit("pairs()", (pairs({})), 0) visit("ipairs()", (ipairs({})), 0)
visit("newproxy()", newproxy and newproxy(true) or nil, 0)
visit("channel.make()<metatable>", debug.getmetatable(channel.make(1)), 0)
package.preload["c13own"] = function(name)
  visit("package.loaded[name] while the module is loading", package.loaded[name], 0)
  return true
end
require("c13own")
package.preload["c13ownerr"] = function(name) error("x") end
pcall(require, "c13ownerr")
visit("package.loaded[name] after a loader error", package.loaded["c13ownerr"], 0)
for i = 1, 20 do
  local info = debug.getinfo(i, "f")
  if not info then break end
  visit("debug.getinfo(" .. i .. ").func", info.func, 0)
end
'''


# ---- race detector output ---------------------------------------------------------

_ACCESS_RE = re.compile(r'^((?:Previous )?(?:[Ww]rite|[Rr]ead|atomic write|atomic read)[^\n]*)\n((?:  [^\n]*\n)+)', re.M)
_CHAN_SYNC = ("runtime.closechan", "runtime.chansend", "runtime.chanrecv", "runtime.selectgo")


def parse_races(stderr):
    """-> list of {frames: [top frames of the two accesses], lua: [first gopher-lua frame of each],
    script_level: bool, text}.  script_level: both accesses are the channel-object annotations of
    the Go runtime (a script closing a channel while another script sends on it) - a race between
    the Lua scripts on the channel they share, not on interpreter-owned memory."""
    out = []
    for rep in stderr.split("WARNING: DATA RACE")[1:]:
        rep = rep.split("==================")[0]
        tops, luas = [], []
        for head, body in _ACCESS_RE.findall(rep):
            frames = [l.strip() for l in body.splitlines() if l.startswith("  ") and not l.startswith("      ")]
            frames = [f[:-2] if f.endswith("()") else f for f in frames]
            if not frames:
                continue
            tops.append(frames[0])
            lf = [f for f in frames if "gopher-lua" in f]
            luas.append(lf[0].split("gopher-lua")[-1].lstrip("./") if lf else frames[0])
        script = len(tops) >= 2 and all(t.startswith(_CHAN_SYNC) for t in tops[:2])
        out.append({"frames": tops[:2], "lua": luas[:2], "script_level": script, "text": rep[:6000]})
    return out


def crash_of(rc, stderr):
    """a Go fatal error / unrecovered panic of the harness process, or None"""
    if rc in (0, 66):
        return None
    m = re.search(r'^(fatal error: [^\n]*|panic: [^\n]*)', stderr, re.M)
    return m.group(1) if m else "exit status %d: %s" % (rc, stderr[-300:])


def report_races(races, verd, where, counts):
    for r in races:
        if r["script_level"]:
            counts["script_level_close_send_races"] = counts.get("script_level_close_send_races", 0) + 1
            continue
        counts["race_reports"] = counts.get("race_reports", 0) + 1
        key = "C13:race:" + "|".join(sorted(set(r["lua"]))) if r["lua"] else "C13:race:unknown"
        verd.candidate(key, "Go race detector report while %s: %s" % (where, " vs ".join(r["frames"])),
                       {"kind": "race", "where": where, "report": r["text"]})


# ---- (a) channel scenarios --------------------------------------------------------

def run_scenarios(scens, tag, gomaxprocs, quiet_ms, par, verd, counts):
    """run the scripts on real states; returns {id: harness output}"""
    d = vlib.subdir("c13")
    inp = os.path.join(d, "scen_%s.json" % tag)
    outp = os.path.join(d, "logs_%s.ndjson" % tag)
    with open(inp, "w") as f:
        json.dump([{k: s[k] for k in ("id", "caps", "ctx", "mklua", "scripts", "drain")} for s in scens], f)
    rc, so, se = vlib.run_harness(["c13-chan", "--in", inp, "--out", outp, "--par", str(par), "--quiet-ms", str(quiet_ms)],
                                  race=True, timeout=900, check=False,
                                  env={"GOMAXPROCS": str(gomaxprocs), "GORACE": "halt_on_error=0 exitcode=66"})
    crash = crash_of(rc, se)
    if crash:
        verd.candidate("C13:crash:" + re.sub(r'0x[0-9a-f]+|\d+', "N", crash)[:80],
                       "harness process died while running channel scenarios (%s): %s" % (tag, crash),
                       {"kind": "crash", "stderr": se[-8000:], "scenarios": scens[:50]})
        return {}
    report_races(parse_races(se), verd, "running channel scripts (%s)" % tag, counts)
    outs = {o["id"]: o for o in vlib.read_ndjson(open(outp).read())}
    os.remove(inp)
    os.remove(outp)
    if len(outs) != len(scens):
        raise vlib.Infra("c13-chan returned %d results for %d scenarios" % (len(outs), len(scens)))
    for s in scens:
        o = outs[s["id"]]
        errs = [e for e in o["errs"] if e and "context canceled" not in e]
        if errs:
            raise vlib.Infra("scenario %d (%s): script failed outside a channel operation: %s" % (s["id"], s["fam"], errs[0][:300]))
        counts["frozen"] = counts.get("frozen", 0) + (1 if o["frozen"] else 0)
        counts["leaked_goroutines"] = counts.get("leaked_goroutines", 0) + o["leaked"]
    return outs


def validate_records(recs, tag, stats, with_laws=False):
    """ChannelTrace on the records -> ({id: min stuck over witnesses}, {id: broken laws}).
    The LAWS line (failure class) is only computed for re-validated, rejected records."""
    wit, laws = {}, {}
    cfg = "ChannelTraceLaws" if with_laws else "ChannelTrace"
    for r in vlib.validate_batches("ChannelTrace", cfg, recs, "c13_" + tag, batch=250, parallel=4, timeout=900):
        stats["states"] += r.distinct
        stats["transitions"] += r.generated
        ls = r.tag("LAWS")
        if with_laws and len(ls) != r.nrecords:
            raise vlib.Infra("ChannelTrace: %d LAWS lines for %d records (%s)" % (len(ls), r.nrecords, tag))
        for l in ls:
            laws[l["id"]] = l["broken"]
        for w in r.tag("WITNESS"):
            if w["id"] not in wit or w["stuck"] < wit[w["id"]]:
                wit[w["id"]] = w["stuck"]
                stuck_kinds[w["id"]] = sorted(w["kinds"])
    return wit, laws


def op_kinds(rec):
    ks = set()
    for p in rec["procs"][:-1]:
        for o in p["ops"]:
            ks.add(o["op"])
    return ks


def chan_key(rec, broken):
    for l in LAW_ORDER:
        if l in broken:
            if l == "payload-accepted":
                tags = set()
                for p in rec["procs"]:
                    for o in p["ops"]:
                        if not o["done"] or o["res"]["r"] != "ok":
                            continue
                        if o["op"] == "send" and o["v"][0] in c13scen.BAD:
                            tags.add(o["v"][0])
                        if o["op"] == "select":
                            tags.update(c["v"][0] for c in o["cases"] if c["d"] == "send" and c["v"][0] in c13scen.BAD)
                        if o["res"]["v"][0] in c13scen.BAD:
                            tags.add(o["res"]["v"][0])
                return "C13:chan:payload-accepted:" + ",".join(sorted(tags))
            return "C13:chan:" + l
    return "C13:chan:no-interleaving:" + ("select" if "select" in op_kinds(rec) else "plain")


def pending_kinds(rec):
    return sorted({o["op"] for p in rec["procs"] for o in p["ops"] if not o["done"]})


def decide_chan(groups, verd, stats, counts, samples, distinct, retry=True):
    """groups: list of (scenarios, tag, GOMAXPROCS, quiescence ms, scenarios in flight).
    Returns (scenarios run, scenarios explained by a witness)."""
    recs, sby, gof = [], {}, {}
    for scens, tag, gomaxprocs, quiet_ms, par in groups:
        t1 = time.time()
        outs = run_scenarios(scens, tag, gomaxprocs, quiet_ms, par, verd, counts)
        if not outs:
            continue
        for s in scens:
            try:
                recs.append(c13scen.record_of(s, outs[s["id"]]))
            except (ValueError, KeyError, IndexError, TypeError) as ex:
                raise vlib.Infra("scenario %d (%s): unreadable log: %s" % (s["id"], s["fam"], ex))
            sby[s["id"]] = s
            gof[s["id"]] = gomaxprocs
        vlib.log("[C13]   %d channel scenarios run on real states, GOMAXPROCS=%d (%.1fs)" % (len(scens), gomaxprocs, time.time() - t1))
    t1 = time.time()
    wit, _ = validate_records(recs, "all", stats)
    vlib.log("[C13]   witness search by TLC over %d runs (%.1fs)" % (len(recs), time.time() - t1))
    nops = 0
    for r in recs:
        nops += sum(len(p["ops"]) for p in r["procs"])
        counts["pending_ops"] = counts.get("pending_ops", 0) + sum(1 for p in r["procs"] for o in p["ops"] if not o["done"])
        delivered = sum(1 for p in r["procs"][:-1] for o in p["ops"] if o["done"] and o["res"]["ok"])
        if r["id"] in wit and delivered >= 1:
            distinct.add(vlib.canon_hash(r["procs"]))
        f = sby[r["id"]]["fam"]
        counts.setdefault("by_family", {})
        counts["by_family"][f] = counts["by_family"].get(f, 0) + 1
        counts.setdefault("by_nproc", {})
        k = str(sby[r["id"]]["nproc"])
        counts["by_nproc"][k] = counts["by_nproc"].get(k, 0) + 1
    counts["channel_ops_explained"] = counts.get("channel_ops_explained", 0) + nops
    # rejected: no interleaving of the logs is a behaviour of Channel
    rejected = [r for r in recs if r["id"] not in wit]
    if rejected:
        # decided again in a run of their own (with the LAWS line that names the failure class)
        w2, l2 = validate_records(rejected, "rejected", stats, with_laws=True)
        for r in rejected:
            if r["id"] in w2:
                raise vlib.Infra("ChannelTrace rejection of scenario %d did not reproduce on re-validation" % r["id"])
            broken = l2[r["id"]]
            verd.candidate(chan_key(r, broken),
                           "channel run (family %s, %d states, GOMAXPROCS=%s): no interleaving of the per-process logs is allowed by Channel.tla; schedule-independent laws broken: %s"
                           % (sby[r["id"]]["fam"], sby[r["id"]]["nproc"], gof[r["id"]], broken or "none"),
                           {"kind": "chan", "scenario": sby[r["id"]], "record": r, "laws": broken, "gomaxprocs": gof[r["id"]]})
    # explained only with a pending operation that the channel state enabled: re-run with a long window
    suspects = [r for r in recs if wit.get(r["id"], 0) > 0]
    counts["stuck_suspects"] = counts.get("stuck_suspects", 0) + len(suspects)
    if suspects and retry:
        again = [sby[r["id"]] for r in suspects]
        hits = {}
        for attempt in range(3):
            o2 = run_scenarios(again, "stuck%d" % attempt, 4, 2000, 8, verd, {})
            if not o2:
                break
            r2 = [c13scen.record_of(s, o2[s["id"]]) for s in again]
            w2, _ = validate_records(r2, "stuck%d" % attempt, stats)
            for r in r2:
                if r["id"] not in w2 or w2[r["id"]] > 0:
                    hits.setdefault(r["id"], (r, stuck_kinds.get(r["id"]) or pending_kinds(r)))
        for rid, (r, kinds) in hits.items():
            verd.candidate("C13:chan:stuck:" + "+".join(kinds),
                           "channel run (family %s): an operation stayed blocked for 2 s although the channel state of every explaining interleaving enabled it"
                           % sby[rid]["fam"], {"kind": "chan", "scenario": sby[rid], "record": r, "laws": [], "gomaxprocs": 4, "stuck": True})
        counts["stuck_not_reproduced"] = counts.get("stuck_not_reproduced", 0) + len(suspects) - len(hits)
    for r in recs[len(recs) // 2:len(recs) // 2 + 2]:
        samples.append({"kind": "channel-run", "family": sby[r["id"]]["fam"], "caps": r["caps"], "gomaxprocs": gof[r["id"]],
                        "process_logs": [[(o["op"], o["c"], o["v"], o["res"]["r"], o["res"]["idx"], o["res"]["ok"], o["res"]["v"], o["done"])
                                          for o in p["ops"]] for p in r["procs"]][:4],
                        "witness": r["id"] in wit})
    return len(recs), len([r for r in recs if r["id"] in wit])


# ---- (b) shared prototype -----------------------------------------------------------

PROTO_FIELDS = ["path", "SourceName", "LineDefined", "LastLineDefined", "NumUpvalues", "NumParameters", "IsVarArg",
                "NumUsedRegisters", "Code", "Constants", "len(FunctionPrototypes)", "DbgSourcePositions", "DbgLocals",
                "DbgCalls", "DbgUpvalues", "stringConstants", "cap(Code)", "cap(Constants)"]


def build_corpus(tier, seed):
    n = 2400 if tier == "thorough" else 180
    progs = []
    for i in range(n):
        p, root, src = gen_core.gen_program(seed * 1000000 + 500000 + i, feats={"func", "table", "goto", "varargs"}, err_rate=0.10)
        progs.append({"id": i + 1, "fam": "corpus", "root": root, "nodes": p.nodes[1:], "src": src})
    for j, src in enumerate(LIBMIX):
        for rep in range(3 if tier == "thorough" else 1):
            progs.append({"id": 100001 + j * 10 + rep, "fam": "libmix", "src": src})
    for j, src in enumerate(PERSTATE):
        for rep in range(6 if tier == "thorough" else 2):
            progs.append({"id": 300001 + j * 10 + rep, "fam": "perstate", "src": src})
    for j, src in enumerate(DBGNAMES):
        for rep in range(6 if tier == "thorough" else 2):
            progs.append({"id": 200001 + j * 10 + rep, "fam": "dbgnames", "src": src})
    return progs


def run_shared(progs, tag, n, group, churn, gomaxprocs, verd, counts):
    d = vlib.subdir("c13")
    inp = os.path.join(d, "progs_%s.ndjson" % tag)
    outp = os.path.join(d, "shared_%s.ndjson" % tag)
    vlib.write_ndjson(inp, [{"id": p["id"], "src": p["src"]} for p in progs])
    rc, so, se = vlib.run_harness(["c13-shared", "--in", inp, "--out", outp, "--n", str(n), "--group", str(group),
                                   "--churn", str(churn)], race=True, timeout=1200, check=False,
                                  env={"GOMAXPROCS": str(gomaxprocs), "GORACE": "halt_on_error=0 exitcode=66"})
    crash = crash_of(rc, se)
    if crash:
        verd.candidate("C13:crash:" + re.sub(r'0x[0-9a-f]+|\d+', "N", crash)[:80],
                       "harness process died while states shared prototypes (%s): %s" % (tag, crash),
                       {"kind": "crash", "stderr": se[-8000:], "programs": [p["src"] for p in progs[:20]]})
        return None
    report_races(parse_races(se), verd, "running states made from shared prototypes (%s)" % tag, counts)
    outs = {o["id"]: o for o in vlib.read_ndjson(open(outp).read())}
    os.remove(inp)
    os.remove(outp)
    if len(outs) != len(progs):
        raise vlib.Infra("c13-shared returned %d results for %d programs" % (len(outs), len(progs)))
    return outs


def perstate_verdicts(recs, tag, stats):
    out = []
    for r in vlib.validate_batches("PerStateTrace", "PerStateTrace", recs, tag, batch=2000, parallel=4, timeout=900):
        stats["states"] += r.distinct
        stats["transitions"] += r.generated
        vs = r.tag("VERDICT")
        if len(vs) != r.nrecords:
            raise vlib.Infra("PerStateTrace: %d verdicts for %d records (%s)" % (len(vs), r.nrecords, tag))
        out.extend(vs)
    return out


def perstate_what(p):
    """which interpreter-owned state the program of family perstate exercises (case key)"""
    if "math.random" in p["src"]:
        return "math.random:generator-shared-between-states"
    if "package.loaded" in p["src"]:
        return "require:package.loaded-marker-shared-between-states"
    return "behaviour-differs"


def decide_own(verd, stats, counts, samples, nstates=3):
    """Disjoint: fresh states of one process must not be able to reach one and the same object"""
    d = vlib.subdir("c13")
    inp, outp = os.path.join(d, "own.json"), os.path.join(d, "own.ndjson")
    with open(inp, "w") as f:
        json.dump({"probe": OWN_PROBE, "states": nstates}, f)
    vlib.run_harness(["c13-own", "--in", inp, "--out", outp], race=True, timeout=300)
    o = vlib.read_ndjson(open(outp).read())[0]
    if o.get("errs"):
        raise vlib.Infra("ownership probe failed: %s" % o["errs"][0][:400])
    rec = {"id": 1, "kind": "own", "own": [[x["id"] for x in st] for st in o["states"]], "solo": [], "runs": []}
    v = perstate_verdicts([rec], "c13_own", stats)[0]
    nobj = sum(len(st) for st in o["states"])
    counts["objects_reached_by_probe"] = nobj
    counts["probe_states"] = nstates
    if min(len(st) for st in o["states"]) < 120:
        raise vlib.Infra("ownership probe reached only %d objects" % min(len(st) for st in o["states"]))
    for oid in v["bad"]:
        where = sorted({(k + 1, x["path"], x["type"]) for k, st in enumerate(o["states"]) for x in st if x["id"] == oid})
        path = where[0][1]
        verd.candidate("C13:per-state:shared-object:" + re.sub(r"[^A-Za-z0-9_.\[\]<>() -]", "", path)[:70].strip().replace(" ", "-"),
                       "one and the same %s object is reachable from scripts of different states of the process: %s"
                       % (where[0][2], "; ".join("state %d: %s" % (k, pth) for k, pth, _ in where)),
                       {"kind": "own", "object": oid, "reached_as": where, "probe": OWN_PROBE, "states": nstates})
    samples.append({"kind": "ownership-probe", "states": nstates, "objects": nobj, "shared": len(v["bad"]),
                    "some_paths": [x["path"] for x in o["states"][0][:5]]})
    vlib.log("[C13] ownership: %d objects reached from scripts of %d fresh states; PerStateTrace (TLC), law Disjoint: %d shared"
             % (nobj, nstates, len(v["bad"])))
    return nobj


def decide_shared(groups, n, group, churn, verd, stats, counts, samples, distinct):
    """groups: list of (programs, tag, GOMAXPROCS).  Returns the number of concurrent state traces
    that are identical to the trace of the same prototype run alone."""
    outs, gof, progs = {}, {}, []
    for part, tag, gomaxprocs in groups:
        t1 = time.time()
        o = run_shared(part, tag, n, group, churn, gomaxprocs, verd, counts)
        if o is None:
            continue
        outs.update(o)
        progs.extend(part)
        for p in part:
            gof[p["id"]] = gomaxprocs
        vlib.log("[C13]   %d programs x %d states from one shared prototype each, GOMAXPROCS=%d (%.1fs)" % (len(part), n, gomaxprocs, time.time() - t1))
    # (a) the shared prototype tree must be the same tree at every observation: SharedProtoTrace (TLC)
    t1 = time.time()
    precs = []
    for p in progs:
        o = outs[p["id"]]
        if o.get("compile_err"):
            raise vlib.Infra("program %d does not compile: %s" % (p["id"], o["compile_err"]))
        precs.append({"id": p["id"], "obs": o["obs"]})
    pby = {p["id"]: p for p in progs}
    nobs = 0
    for r in vlib.validate_batches("SharedProtoTrace", "SharedProtoTrace", precs, "c13_proto", batch=1500, parallel=4, timeout=900):
        stats["states"] += r.distinct
        stats["transitions"] += r.generated
        vs = r.tag("VERDICT")
        if len(vs) != r.nrecords:
            raise vlib.Infra("SharedProtoTrace: %d verdicts for %d records" % (len(vs), r.nrecords))
        for v in vs:
            nobs += v["n"]
            if v["ok"]:
                continue
            p, o = pby[v["id"]], outs[v["id"]]
            j = v["at"][1]
            field = PROTO_FIELDS[j - 1] if 1 <= j <= len(PROTO_FIELDS) else "shape"
            verd.candidate("C13:shared-proto:prototype-modified:" + field,
                           "a FunctionProto shared between states changed while being executed (observation '%s', prototype #%d of the chunk, field %s): %s"
                           % (o["obs_names"][v["k"] - 1], v["at"][0], field, o.get("proto_diff", "")[:500]),
                           {"kind": "shared", "program": p, "result": o, "verdict": v, "gomaxprocs": gof[p["id"]]})
    counts["proto_observations_validated"] = counts.get("proto_observations_validated", 0) + nobs
    vlib.log("[C13]   SharedProtoTrace (TLC) on %d observations of %d shared prototype trees (%.1fs)" % (nobs, len(precs), time.time() - t1))
    # (b) AsAlone: every state observed what the same program observes alone - PerStateTrace (TLC)
    t1 = time.time()
    srecs = [{"id": p["id"], "kind": "solo", "own": [], "solo": [vlib.canon_hash(t)[:16] for t in outs[p["id"]]["seqs"]],
              "runs": [{"w": v["w"], "fp": vlib.canon_hash(v["trace"])[:16]} for v in outs[p["id"]]["conc"]]} for p in progs]
    deviating = {}
    for v in perstate_verdicts(srecs, "c13_solo", stats):
        if not v["ok"]:
            deviating[v["id"]] = [i - 1 for i in v["bad"]]
    vlib.log("[C13]   PerStateTrace (TLC), law AsAlone, on %d programs (%.1fs)" % (len(srecs), time.time() - t1))
    # every distinct trace of a corpus program goes to TLC (LuaSemTrace); identical ones are folded
    vprogs, vouts, owner = [], {}, {}
    suspects = []
    for p in progs:
        o = outs[p["id"]]
        counts["states_run_from_shared_proto"] = counts.get("states_run_from_shared_proto", 0) + o["nstates"]
        counts["prototypes_snapshotted"] = counts.get("prototypes_snapshotted", 0) + o["proto_size"]
        seqs = o["seqs"]
        variants = [(o["conc"][i]["w"], o["conc"][i]["trace"], o["conc"][i]["ph"]) for i in deviating.get(p["id"], [])]
        if p["fam"] == "corpus" and any(t != seqs[0] for t in seqs[1:]):
            raise vlib.Infra("corpus program %d depends on c13_which" % p["id"])
        if variants:
            suspects.append((p, o, variants))
        if p["fam"] == "corpus":
            for j, t in enumerate([seqs[0]] + [t for _, t, _ in variants]):
                vid = p["id"] * 100 + j
                vprogs.append(dict(p, id=vid))
                vouts[vid] = {"emits": t["emits"], "outcome": t["outcome"]}
                owner[vid] = (p["id"], j)
    t1 = time.time()
    verdicts = lsem.validate(vprogs, vouts, "c13", stats) if vprogs else {}
    vlib.log("[C13]   LuaSemTrace (TLC) on %d distinct traces (%.1fs)" % (len(vprogs), time.time() - t1))
    nvalid = 0
    seqv = {}
    for vid, (pid, j) in owner.items():
        if j == 0:
            seqv[pid] = verdicts[vid]
            counts.setdefault("lsem", {})
            counts["lsem"][verdicts[vid]["v"]] = counts["lsem"].get(verdicts[vid]["v"], 0) + 1
    for p in progs:
        o = outs[p["id"]]
        same = sum(v["n"] for v in o["conc"] if v["trace"] == o["seqs"][v["w"]])
        counts.setdefault("programs_by_family", {})
        counts["programs_by_family"][p["fam"]] = counts["programs_by_family"].get(p["fam"], 0) + 1
        if p["fam"] == "corpus" and seqv[p["id"]]["v"] == "bad":
            # the program diverges from LuaSem even when run alone: C01's business, not interference
            counts["excluded_c01_divergent"] = counts.get("excluded_c01_divergent", 0) + 1
            continue
        nvalid += same
        if same and len(o["seqs"][0]["emits"]) >= 2:
            distinct.add(vlib.canon_hash(p["src"]))
    # a state on the shared prototype computed something else than the state running alone
    for p, o, variants in suspects:
        hit = None
        for attempt in range(4):
            o2 = run_shared([p], "re%d_%d" % (p["id"], attempt), 16, 1, churn + 2, gof[p["id"]], verd, {})
            if o2 is None:
                break
            r = o2[p["id"]]
            if any(v["trace"] != r["seqs"][v["w"]] for v in r["conc"]) or r["seqs"] != o["seqs"]:
                hit = r
                break
        if hit is None:
            raise vlib.Infra("program %d: a state on the shared prototype produced a different trace than the state alone, but 4 re-runs with 16 states did not reproduce it; first observation: %s"
                             % (p["id"], show_trace(variants[0][1])))
        tv = verdicts.get(p["id"] * 100 + 1)
        w0, t0, ph0 = variants[0]
        note = ("LuaSemTrace on the deviating trace: %s at event %s, expected %s, got %s"
                % (tv.get("v"), tv.get("at"), lsem.tok_str(tv.get("exp")), lsem.tok_str(tv.get("got")))) if tv else \
               ("oracle = the same program run alone on a private compilation with c13_which=%d; alone: %s; next to other states (%s schedule): %s"
                % (w0, show_trace(o["seqs"][w0]), ph0, show_trace(t0)))
        verd.candidate(("C13:per-state:" + perstate_what(p) if p["fam"] == "perstate" else "C13:shared-proto:trace-differs:" + p["fam"]),
                       "a state running next to other states computed something else than the same program run alone (%s)" % note,
                       {"kind": "shared", "program": p, "result": o, "rerun": hit, "gomaxprocs": gof[p["id"]]})
    for p in progs[len(progs) // 3:len(progs) // 3 + 2]:
        o = outs[p["id"]]
        samples.append({"kind": "shared-proto", "family": p["fam"], "src": p["src"][:400], "states": o["nstates"],
                        "identical_traces": sum(v["n"] for v in o["conc"] if v["trace"] == o["seqs"][v["w"]]),
                        "seq_outcome": o["seqs"][0]["outcome"][:2], "proto_unchanged": not o.get("proto_diff"), "gomaxprocs": gof[p["id"]]})
    return nvalid


def show_trace(t, limit=700):
    """emit events of a trace with byte strings decoded (for messages)"""
    def one(x):
        if isinstance(x, list) and x and x[0] == "s":
            return bytes(x[1]).decode("latin-1")
        return json.dumps(x)
    try:
        txt = " | ".join(", ".join(one(v) for v in e) for e in t["emits"]) + " => " + json.dumps(t["outcome"][:1])
    except Exception:
        txt = json.dumps(t)
    return txt[:limit]


# ---- MC -------------------------------------------------------------------------------

def mc_consts(c):
    return {"NP": c[0], "NC": c[1], "Cap1": c[2], "Cap2": c[3], "MaxOps": c[4], "MaxSend": c[5], "WithSel": c[6]}


def mc_lane(configs):
    res = []
    for c in configs:
        r = vlib.run_tlc("ChannelMC", "ChannelMC", consts=mc_consts(c), workers=8, timeout=1500)
        res.append((c, r.generated, r.distinct, r.depth, r.wall))
    return res


def mc_reach():
    """vacuity: every kind of event of Channel occurs in ChannelMC"""
    r = vlib.run_tlc("ChannelMC", "ChannelMC_reach", consts=mc_consts(MC_REACH), workers=4, timeout=600)
    kinds = set()
    for ks in r.tag("KIND"):
        kinds.update(ks)
    missing = set(ALL_KINDS) - kinds
    if missing:
        raise vlib.Infra("ChannelMC: channel events never reached (vacuous laws): %s" % sorted(missing))
    return r


# ---- driver ---------------------------------------------------------------------------

def run(tier):
    t0 = time.time()
    verd = vlib.Verdicts(PROP)
    stats = {"states": 0, "transitions": 0}
    counts, samples = {}, []
    thorough = tier == "thorough"
    seed = vlib.seed()
    vlib.build_harness(race=True)
    vlib.specdir()          # create the scratch copy of specs/ before any thread uses it
    pool = ThreadPoolExecutor(max_workers=5 if thorough else 2)   # quick: at most two MC runs beside the binding
    lanes = [pool.submit(mc_lane, cfgs) for cfgs in (MC_THOROUGH if thorough else MC_QUICK)]
    reach = pool.submit(mc_reach)
    protomc = pool.submit(lambda: vlib.run_tlc("SharedProto", "SharedProto", workers=2, timeout=300))
    permc = pool.submit(lambda: vlib.run_tlc("PerState", "PerState", consts={"MaxOps": 4 if thorough else 3}, workers=4, timeout=600))
    # (a) channel runs: the real scheduler is sampled at GOMAXPROCS 1 / 4 / 16
    nscen = 2400 if thorough else 200
    nbig = 300 if thorough else 20
    distinct_chan, distinct_prog = set(), set()
    sid = 0
    groups = []
    for gmp, par in ((1, 4), (4, 12), (16, 16)):
        scens = []
        for i in range(nscen + nbig):
            sid += 1
            scens.append(c13scen.gen_scenario(seed * 10000019 + sid, sid, big=i >= nscen))
        groups.append((scens, "g%d" % gmp, gmp, 150 if thorough else 60, par))
    t1 = time.time()
    total_scen, witnessed = decide_chan(groups, verd, stats, counts, samples, distinct_chan)
    vlib.log("[C13] channel runs: %d scenarios (2..8 states each), %d explained by an interleaving of Channel.tla (%.0fs)"
             % (total_scen, witnessed, time.time() - t1))
    # (b) shared prototypes
    progs = build_corpus(tier, seed)
    rng = random.Random(seed * 31 + 7)
    rng.shuffle(progs)
    third = (len(progs) + 2) // 3
    t1 = time.time()
    nvalid = decide_shared([(progs[gi * third:(gi + 1) * third], "s%d" % gmp, gmp) for gi, gmp in enumerate((1, 4, 16))],
                           8 if thorough else 6, 4, 3, verd, stats, counts, samples, distinct_prog)
    vlib.log("[C13] shared prototypes: %d programs, %d concurrent state traces identical to the run alone (%.0fs)"
             % (len(progs), nvalid, time.time() - t1))
    # (b') ownership of everything a script can reach
    decide_own(verd, stats, counts, samples)
    nlsem = counts.get("lsem", {})
    if nlsem.get("unmod", 0) > 0.05 * max(1, sum(nlsem.values())):
        raise vlib.Infra("out-of-model rate of the corpus exceeds 5%%: %s" % nlsem)
    # MC results
    mc = []
    for l in lanes:
        for c, gen, dist, depth, wall in l.result():
            mc.append({"NP": c[0], "caps": [c[2], c[3]][:c[1]], "MaxOps": c[4], "MaxSend": c[5], "select_menu": c[6],
                       "generated": gen, "distinct": dist, "depth": depth, "wall_s": round(wall, 1)})
            stats["states"] += dist
            stats["transitions"] += gen
            vlib.log("[C13] MC Channel NP=%d caps=%s MaxOps=%d select=%d: %d generated / %d distinct states, all laws hold (%.0fs)"
                     % (c[0], [c[2], c[3]][:c[1]], c[4], c[6], gen, dist, wall))
    r = reach.result()
    stats["states"] += r.distinct
    stats["transitions"] += r.generated
    vlib.log("[C13] MC vacuity: all 12 kinds of channel events reachable")
    r = protomc.result()
    stats["states"] += r.distinct
    stats["transitions"] += r.generated
    vlib.log("[C13] MC SharedProto: %d generated / %d distinct states, Immutable and OwnName hold" % (r.generated, r.distinct))
    r = permc.result()
    stats["states"] += r.distinct
    stats["transitions"] += r.generated
    vlib.log("[C13] MC PerState: %d generated / %d distinct states, AsAlone and OwnDisjoint hold in every interleaving" % (r.generated, r.distinct))
    pool.shutdown()
    rc = verd.finish()
    vlib.write_evidence(PROP, tier, "model_checking", {
        "states": stats["states"], "transitions": stats["transitions"],
        "traces_validated_against_impl": witnessed + nvalid,
        "channel_scenarios": total_scen, "channel_scenarios_explained": witnessed,
        "shared_proto_programs": len(progs), "shared_proto_state_traces_identical": nvalid,
        "evaluations": total_scen + counts.get("states_run_from_shared_proto", 0),
        "distinct_nontrivial": len(distinct_chan) + len(distinct_prog),
        "rule": "channel runs: distinct by canonical hash of the per-process operation logs, non-trivial = explained by a witness and at least one value delivered to a script; shared-prototype programs: distinct by hash of the source, non-trivial = at least 2 emit events and at least one concurrent trace identical to the run alone",
        "counts": counts, "mc_runs": mc, "samples": samples, "exhaustive": False,
        "gomaxprocs_sampled": [1, 4, 16],
        "known_findings_hit": sorted(verd.known_hit),
    }, time.time() - t0, len(verd.violations), assumptions=[
        "the Go scheduler is sampled (GOMAXPROCS 1/4/16, injected Gosched/sleeps), not enumerated; the schedule quantifier is discharged exhaustively only on the design (ChannelMC: <=3 processes, <=2 channels, <=3 operations each)",
        "the Go race detector (-race build of harness and gopher-lua) is a trusted oracle outside TLA+; races between two Lua scripts on the channel object itself (close concurrent with send, reported by the runtime's channel annotations) are counted, not judged",
        "a pending operation (call logged, return not) may or may not have taken effect; whether a pending rendezvous partner is parked is unobservable, so a select may take its default next to a pending partner",
        "prototype immutability is observed on fingerprints (sha1, 48 bits per field) of every exported field of every prototype of the chunk plus the string-constant table, taken after compilation, after the run alone and after the concurrent runs; the invariant is stated in SharedProto.tla and decided by SharedProtoTrace.tla",
        "the reference of every state is the same program run alone on a PRIVATE compilation with the same value of the global c13_which (0/1), so a shared prototype that is modified by one state shows in another state's trace",
        "per-state ownership: the law (PerState.tla: Disjoint, AsAlone) is bound (i) by identity - a probe script walks globals, metatables, environments, upvalues, library handles and what package.loaded holds during/after a load in 3 fresh states of one process, no Go object may be reached from two states - and (ii) by behaviour - seeded math.random and require-marker programs under free-running goroutines and a deterministic lock-step schedule (c13_turn) must observe what they observe alone; state that is neither reachable by the probe nor exercised by a program is not covered",
        "payload admissibility is judged on the value itself (function, userdata, thread, table with metatable), not on values nested inside plain tables",
        "corpus programs whose trace diverges from LuaSem even when run alone are C01's business and are excluded here (counted as excluded_c01_divergent)"])
    return rc


def replay(path):
    rec = json.load(open(path))["replay"]
    verd = vlib.Verdicts(PROP)
    verd.findings = []
    stats = {"states": 0, "transitions": 0}
    kind = rec.get("kind")
    if kind == "chan":
        # the recorded logs are re-decided by TLC for information; the verdict comes from running
        # the scenario again on the current tree
        r = rec["record"]
        wit, laws = validate_records([r], "replay", stats, with_laws=True)
        vlib.log("[C13] recorded logs: %s (laws broken: %s)" % (
            "explained by a witness" if r["id"] in wit else "no admissible interleaving", laws[r["id"]]))
        for k in range(5):
            decide_chan([([rec["scenario"]], "replay%d" % k, rec.get("gomaxprocs", 4), 300, 1)], verd, stats, {}, [], set())
    elif kind == "own":
        decide_own(verd, stats, {}, [], rec.get("states", 3))
    elif kind == "shared":
        for k in range(3):
            decide_shared([([rec["program"]], "replay%d" % k, rec.get("gomaxprocs", 4))], 16, 1, 4, verd, stats, {}, [], set())
    else:
        vlib.log("replay file holds a %s report; its text:\n%s" % (kind, rec.get("report", rec.get("stderr", ""))[:4000]))
        return 1
    return verd.finish()


def selftest():
    """The binding must reject corrupted logs: real runs are corrupted in three ways no channel
    allows (a value delivered twice, closure reported on a channel nobody closes, a refused payload
    reported as sent); TLC has to explain every original run and reject every corrupted one."""
    import copy
    verd = vlib.Verdicts(PROP)
    stats = {"states": 0, "transitions": 0}
    vlib.build_harness(race=True)
    scens = [c13scen.gen_scenario(vlib.seed() * 7000003 + i, i + 1) for i in range(240)]
    outs = run_scenarios(scens, "selftest", 4, 100, 12, verd, {})
    recs = [c13scen.record_of(s, outs[s["id"]]) for s in scens]
    wit, _ = validate_records(recs, "selftest", stats)
    if len(wit) != len(recs):
        raise vlib.Infra("selftest: %d of %d original runs are not explained" % (len(recs) - len(wit), len(recs)))
    bad, kinds = [], {"dup": 0, "eof": 0, "accepted": 0}
    for r in recs:
        ops = [o for p in r["procs"] for o in p["ops"]]
        closed = {o["c"] for o in ops if o["op"] == "close"}
        got = [o for o in ops if o["done"] and o["res"]["r"] == "ok" and o["res"]["ok"] and o["res"]["v"][0] in ("n", "s", "T")]
        c = copy.deepcopy(r)
        cops = [o for p in c["procs"] for o in p["ops"]]
        which = None
        if len(got) >= 2 and kinds["dup"] <= kinds["eof"]:
            i, j = ops.index(got[0]), ops.index(got[1])
            cops[j]["res"]["v"] = cops[i]["res"]["v"]
            which = "dup"
        else:
            for i, o in enumerate(ops):
                ch = o["c"] if o["op"] == "recv" else (o["cases"][o["res"]["idx"] - 1]["c"] if o["op"] == "select" and o["res"]["idx"] else 0)
                if o in got and ch and ch not in closed:
                    cops[i]["res"]["ok"], cops[i]["res"]["v"] = False, ["nil"]
                    if cops[i]["hs"]:
                        cops[i]["hs"][0]["a"] = [["b", False], ["nil"]]
                    which = "eof"
                    break
                if o["done"] and o["op"] == "send" and o["v"][0] in c13scen.BAD and o["res"]["r"] == "err":
                    cops[i]["res"]["r"] = "ok"
                    which = "accepted"
                    break
        if which:
            kinds[which] += 1
            c["id"] = r["id"] + 100000
            bad.append(c)
    if min(kinds.values()) < 5:
        raise vlib.Infra("selftest: too few corruptible runs %s" % kinds)
    w2, l2 = validate_records(bad, "selftest_bad", stats, with_laws=True)
    missed = [c["id"] for c in bad if c["id"] in w2]
    vlib.log("[C13] selftest: %d original runs explained; %d corrupted runs %s, %d accepted by mistake"
             % (len(recs), len(bad), kinds, len(missed)))
    if missed:
        raise vlib.Infra("selftest: corrupted runs accepted: %s" % missed[:10])
    return 0
