"""C04 - metamethods are selected and applied by the Lua 5.1 rules.
Oracle: LuaSem's metatable rules (manual section 2.8) evaluated by TLC."""
import itertools, json, random, time
import vlib, lsem, gen_meta

PROP = "C04"


def run(tier):
    t0 = time.time()
    thorough = tier == "thorough"
    rng = random.Random(vlib.seed() * 13 + 4)
    fams = []
    bins, nspace = gen_meta.gen_binops(rng, 9000 if thorough else 1100)
    for p, root in bins:
        fams.append(("binop", p, root, None))
    ops = ["tA", "tB", "uA", "plain"]
    for l, r, rk in itertools.product(ops, ops, ["true", "false", "nil", "zero"]):
        fams.append(("lefallbk",) + gen_meta.le_fallback_case(l, r, rk) + (None,))
    for o, c in itertools.product(gen_meta.OPERANDS, gen_meta.CONFIGS):
        fams.append(("unm",) + gen_meta.unm_case(o, c, rng.choice(gen_meta.PROTS)) + (None,))
    # comparisons between objects whose handlers are twin closures / protected metatables: every pair, every operator
    for op, l, r, pr in itertools.product(gen_meta.COMP, ["tA", "tB", "uA"], ["tA2", "tB", "uB"], ["", "str", "false", "decoy"]):
        fams.append(("twin",) + gen_meta.binop_case(op, l, r, "AB-twin", "str", pr) + (None,))
    for op, l, r, pr in itertools.product(["+", ".."], ["num", "str", "plain", "tA"], ["tB", "uB"], ["str", "false", "decoy", "true"]):
        fams.append(("prot",) + gen_meta.binop_case(op, l, r, "B", "str", pr) + (None,))
    # handlers that are not functions: callable tables and userdata are called, a number is an "attempt to call" error
    cspace = [(op, l, r, c, ck) for op in gen_meta.ARITH + gen_meta.COMP for (l, r) in [("tA", "num"), ("str", "tB"), ("tA", "tB"), ("uA", "uB"), ("tA", "tA2"), ("nstr", "uB")]
              for c in ["A", "B", "AB-same", "AB-diff"] for ck in ["table", "userdata", "number"]]
    rng.shuffle(cspace)
    for op, l, r, c, ck in cspace[:len(cspace) if thorough else 260]:
        fams.append(("callable",) + gen_meta.binop_case(op, l, r, c, "str" if op in gen_meta.ARITH else "zero", rng.choice(gen_meta.PROTS), ck) + (None,))
    for o, c, ck in itertools.product(["tA", "uB", "str", "nstr", "plain"], ["A", "B", "AB-same"], ["table", "userdata", "number"]):
        fams.append(("callable",) + gen_meta.unm_case(o, c, "", ck) + (None,))
    for ev in gen_meta.INHERIT_EVENTS:      # handlers are fetched raw: nothing is inherited through the metatable's own __index
        fams.append(("inherit",) + gen_meta.inherit_case(ev) + (None,))
    for ev, hk in itertools.product(gen_meta.STR_EVENTS, ["function", "callable"]):
        fams.append(("strmeta",) + gen_meta.strmeta_case(ev, hk) + (None,))
    for _ in range(1500 if thorough else 250):
        fams.append(("index",) + gen_meta.index_case(rng) + (None,))
    for pos, na, hk in itertools.product(["call", "tail", "stat", "forin", "gcall", "pcall", "nested"], [0, 1, 3], ["function", "nonfunction", "nil", "builtin:rawequal", "builtin:type", "builtin:select", "builtin:rawget"]):
        if pos == "forin" and hk in ("builtin:type", "builtin:rawequal"):
            continue          # a host iterator that never returns nil loops forever
        fams.append(("call",) + gen_meta.call_case(pos, na, hk) + (None,))
    for p, root in gen_meta.chain_limit_cases():
        fams.append(("chainlimit", p, root, None))
    for p, root in gen_meta.misc_cases():
        fams.append(("misc", p, root, None))
    progs = lsem.number(fams)
    verd, cov, allv, allo, stats = lsem.run_families(
        PROP, tier, progs,
        "operand pairs from {number, numeric string, string, plain table, tables with metatable A/A/B, userdata with metatable A/B, nil, boolean} x every arithmetic/concat/comparison operator x handler presence {none, A only, B only, both same handler, both different, both twin closures of one function literal} x handler kind {function, callable table, callable userdata, uncallable number} x handler result kind x __metatable {absent, string, false, true, decoy table of handlers}, sampled from %d combinations (operands both as constants/upvalues and as registers); <= fallback to not(b<a); unary minus; __index/__newindex chains of depth 1-4 through tables and functions with raw bypass; __call in call/tail/statement/for-in/host re-entry/pcall/nested position; tostring/__metatable/getmetatable/setmetatable; handlers of every event installed in the string metatable (the built-in meaning of strings comes first); events reachable only through the metatable's own __index chain (raw fetch: not inherited)" % nspace,
        [], t0, max_steps=20000, extra_cov={"binop_space": nspace}, nontrivial_min_emits=2)
    lsem.foot_pass(PROP, progs, verd, stats, cov)      # Frames stage 2 (specs/FramesStep.tla)
    rc = verd.finish()
    cov["known_findings_hit"] = sorted(verd.known_hit)
    vlib.write_evidence(PROP, tier, "model_checking", cov, time.time() - t0, len(verd.violations), assumptions=[
        "__len on tables is not installed (Lua 5.1 ignores it)", "handlers observe operands through emit (identity by first appearance)"])
    return rc


def replay(path):
    rec = json.load(open(path))
    if rec["replay"].get("foot"):
        return lsem.replay_foot(PROP, rec)
    p = rec["replay"]["program"]
    verd = vlib.Verdicts(PROP)
    verd.findings = []
    lsem.decide(PROP, [p], "replay", verd, {"states": 0, "transitions": 0}, {}, [])
    return verd.finish()


def selftest():
    return lsem.selftest(PROP, lsem.number([("binop", p, root, None) for p, root in gen_meta.gen_binops(random.Random(5), 150)[0]]))
