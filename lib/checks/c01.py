"""C01 - the core language runs as Lua 5.1 defines.
Oracle: the TLA+ reference semantics LuaSem, evaluated by TLC (LuaSemTrace) on
every program; the real lexer+parser+compiler+VM produce the trace to validate."""
import json, os, random, time
import vlib, lsem, gen_core, gen_shapes
from luagen import render

PROP = "C01"


def build(tier, seed):
    rng = random.Random(seed * 1000003 + 1)
    thorough = tier == "thorough"
    fams = []
    nrand = 6000 if thorough else 1200
    for i in range(nrand):
        p, root, src = gen_core.gen_program(seed * 1000000 + i, feats={"func", "table", "goto", "varargs"}, err_rate=0.10)
        fams.append(("rand", p, root, src))
    for p, root in gen_shapes.gen_assign(rng, 2500 if thorough else 500, exhaustive2=thorough):
        fams.append(("assign", p, root, None))
    for p, root in gen_shapes.gen_expr(rng, 8000 if thorough else 900):
        fams.append(("expr", p, root, None))
    for p, root in gen_shapes.forin_cases(rng, 600 if thorough else 120):
        fams.append(("forin", p, root, None))
    for p, root in gen_shapes.tabcons_cases(rng, 600 if thorough else 100):
        fams.append(("tabcons", p, root, None))
    for p, root in gen_shapes.fornum_coercion_cases():
        fams.append(("forcoerce", p, root, None))
    for p, root in gen_shapes.same_label_cases(rng, 300 if thorough else 60):
        fams.append(("samelabel", p, root, None))
    for p, root in gen_shapes.fresh_local_cases():
        fams.append(("fresh", p, root, None))
    # G-pad: a sample of the above embedded among many locals / constants
    npad = 600 if thorough else 90
    for i in range(npad):
        if i % 2 == 0:
            p, root = gen_shapes.gen_assign(rng, 1)[-1] if False else gen_shapes.assign_case(*_rand_assign(rng))
        else:
            p, root = gen_shapes.gen_expr(rng, 1)[0]
        p, root = gen_shapes.pad(p, root, rng.choice([20, 80, 120]), rng.choice([0, 240, 250, 253, 254, 255, 256, 257, 300, 509, 510, 511, 512, 513, 600]))
        fams.append(("pad", p, root, None))
    progs = []
    for i, (fam, p, root, src) in enumerate(fams):
        if src is None:
            src = render(p, root)
        progs.append({"id": i + 1, "fam": fam, "root": root, "nodes": p.nodes[1:], "src": src})
    return progs


def _rand_assign(rng):
    while True:
        nt = rng.choice([2, 3])
        ts = rng.sample(gen_shapes.TARGETS, nt)
        if not gen_shapes._aliases(ts):
            return ts, [rng.choice(gen_shapes.SOURCES) for _ in range(nt)], rng.random() < 0.4


def classify(p, v, out):
    """narrow case key of a rejected program"""
    if v.get("at", 0) == -1:
        return "C01:%s:%s" % (p["fam"], v.get("why"))
    exp, got = v.get("exp"), v.get("got")
    kind = "value"
    if v.get("at") == 0 and isinstance(exp, list) and isinstance(got, list) and exp and got and exp[0] != got[0]:
        kind = "%s-instead-of-%s" % (got[0], exp[0])
    elif v.get("at") == 0 and exp and exp[0] == "err":
        kind = "error-value-or-line"
    return "C01:%s:%s:%s" % (p["fam"], kind, vlib.canon_hash(p["src"])[:10])


def decide(progs, tag, verd, stats, counts, samples):
    outs = lsem.run_real(progs, tag)
    verdicts = lsem.validate(progs, outs, tag, stats)
    bad = [p for p in progs if verdicts[p["id"]]["v"] == "bad"]
    if bad:
        # reproduce every candidate on a fresh interpreter before reporting it
        outs2 = lsem.run_real(bad, tag + "_re")
        v2 = lsem.validate(bad, outs2, tag + "_re", stats)
        for p in bad:
            v = v2[p["id"]]
            if v["v"] != "bad":
                raise vlib.Infra("candidate violation did not reproduce: program %d" % p["id"])
            verd.candidate(classify(p, v, outs2[p["id"]]),
                           "program (%s) diverges from LuaSem at event %s: expected %s, real %s" % (
                               p["fam"], v.get("at"), lsem.tok_str(v.get("exp")), lsem.tok_str(v.get("got"))),
                           {"program": p, "real": outs2[p["id"]], "verdict": v})
    c, why = lsem.summarize(verdicts)
    for k in c:
        counts[k] = counts.get(k, 0) + c[k]
    for k in why:
        counts.setdefault("unmod_why", {})
        counts["unmod_why"][k] = counts["unmod_why"].get(k, 0) + why[k]
    for p in progs[:2]:
        samples.append({"family": p["fam"], "src": p["src"][:600], "trace": outs[p["id"]]["emits"][:4], "verdict": verdicts[p["id"]]["v"]})
    return verdicts, outs


def run(tier):
    t0 = time.time()
    verd = vlib.Verdicts(PROP)
    stats = {"states": 0, "transitions": 0}
    counts, samples = {}, []
    vlib.build_harness()
    progs = build(tier, vlib.seed())
    by = {}
    for p in progs:
        by.setdefault(p["fam"], []).append(p)
    nontrivial = set()
    for fam, ps in by.items():
        verdicts, outs = decide(ps, fam, verd, stats, counts, samples)
        for p in ps:
            if verdicts[p["id"]]["v"] == "ok" and len(outs[p["id"]]["emits"]) >= 2:
                nontrivial.add(vlib.canon_hash(p["src"]))
        vlib.log("[C01] family %-6s: %d programs validated" % (fam, len(ps)))
    total = len(progs)
    unmod = counts.get("unmod", 0)
    vlib.log("[C01] %d programs: %s" % (total, json.dumps(counts)))
    if unmod > 0.05 * total:
        raise vlib.Infra("out-of-model rate %.1f%% exceeds 5%%" % (100.0 * unmod / total))
    # Frames stage 2: the VM's per-instruction footprint on the executing activation's locals
    step_cov = {}
    lsem.foot_pass(PROP, progs, verd, stats, step_cov)
    mc = vlib.run_tlc("FramesStepMC", "FramesStepMC", consts=None, workers=4)
    stats["states"] += mc.distinct
    stats["transitions"] += mc.generated
    rc = verd.finish()
    vlib.write_evidence(PROP, tier, "model_checking", {
        "frames_step": step_cov.get("frames_step"),
        "states": stats["states"], "transitions": stats["transitions"],
        "traces_validated_against_impl": total - unmod,
        "programs": total, "evaluations": total, "distinct_nontrivial": len(nontrivial),
        "rule": "programs from seeded generators (random type-directed; multiple-assignment shapes; operator x operand kind x destination kind; the same embedded among many locals/constants); distinct by hash of the source text, non-trivial = validated ok with at least 2 emit events",
        "verdicts": counts, "samples": samples, "exhaustive": False,
        "known_findings_hit": sorted(verd.known_hit),
    }, time.time() - t0, len(verd.violations), assumptions=[
        "integer-valued numbers only (|n| < 2^30); runs leaving the integer model are inconclusive (counted as unmod)",
        "runtime error message texts are implementation-defined: only the chunk:line: prefix is judged",
        "generated programs obey the determinacy discipline of DESIGN section 7"])
    return rc


def replay(path):
    rec = json.load(open(path))
    if rec["replay"].get("foot"):
        return lsem.replay_foot(PROP, rec)
    p = rec["replay"]["program"]
    verd = vlib.Verdicts(PROP)
    verd.findings = []
    stats = {"states": 0, "transitions": 0}
    decide([p], "replay", verd, stats, {}, [])
    return verd.finish()


def selftest():
    return lsem.selftest(PROP, build("quick", vlib.seed())[:200])
