"""C11 - cancelling the context stops any running script promptly with an error.
MC: design spec Cancel (exit within depth+1 dispatch attempts, nothing completes
after cancellation, liveness).  Bind: cancellation at EVERY dispatch poll k <= K of a
corpus of terminating and non-terminating programs on the real VM; LuaSemCancel
(TLC) judges each run against the prefix of the uncancelled behaviour of the TLA+
semantics.  Blocking channel operations and coroutines: bounded-wait runs with a real
context.  'Attaching an undone context changes nothing': context vs no context."""
import json, os, random, time
import vlib, lsem, gen_loops, gen_core
from luagen import render

PROP = "C11"


def run(tier):
    t0 = time.time()
    thorough = tier == "thorough"
    verd = vlib.Verdicts(PROP)
    stats = {"states": 0, "transitions": 0}
    vlib.build_harness()
    # ---- MC of the design spec
    r = vlib.run_tlc("Cancel", "Cancel", consts=None, workers=4)
    stats["states"] += r.distinct
    stats["transitions"] += r.generated
    vlib.log("[C11] MC Cancel: %d states, bound/liveness hold" % r.distinct)
    # ---- cancellation sweep
    K = 400 if thorough else 140
    corpus = [(name, p, root, render(p, root)) for name, p, root in gen_loops.loops()]
    only = os.environ.get("VERIF_C11_ONLY")
    if only:
        corpus = [c for c in corpus if c[0] == only.replace("@thread2", "").replace("@thread", "").replace("@fresh", "").replace("@resumed", "")]
    # every program also runs in a state made by NewThread with the context attached to that state, and - when it
    # needs no library - as the very first call on a state on which nothing has run before
    LIBNAMES = ("pcall", "xpcall", "error", "coroutine", "setmetatable", "select", "type", "tostring", "ipairs", "pairs", "unpack", "string", "table", "math")
    nolib = [c for c in corpus if not any(nd.get("k") == "id" and nd.get("n") in LIBNAMES for nd in c[1].nodes[1:])]
    # ... and as the body of a thread that alone has the context, driven with Resume by a state that has none
    # ... and in such a thread whose creator has a context of its own (programs with coroutines: the threads they create
    # must follow the thread's own context, not the one it inherited)
    corpus = corpus + [(name + "@thread", p, root, src) for name, p, root, src in corpus] + [(name + "@fresh", p, root, src) for name, p, root, src in nolib] \
        + [(name + "@resumed", p, root, src) for name, p, root, src in corpus if "swap" not in name] \
        + [(name + "@thread2", p, root, src) for name, p, root, src in corpus if "coroutine" in src and "swap" not in name]
    runs, index = [], {}
    for ci, (name, p, root, src) in enumerate(corpus):
        for k in range(1, K + 1):
            rid = len(runs) + 1
            index[rid] = (ci, k)
            run = {"id": rid, "src": src, "fault": {"mode": "cancel", "k": k}, "budget": 200000}
            if name.endswith("@thread"):
                run["opts"] = {"thread": True}
            if name.endswith("@thread2"):
                run["opts"] = {"thread": True, "parentctx": True}
            if name.endswith("@fresh"):
                run["opts"] = {"fresh": True}
            if name.endswith("@resumed"):
                run["opts"] = {"resumed": True}
            runs.append(run)
    # two phases: a few cancel points of every program first; a program whose run does not even end (the interpreter is
    # stuck where no deadline of its own can reach it) is reported and left out of the full sweep
    for r_ in runs:
        r_["deadline_ms"] = 9000
    probe_ks = {1, 2, 3, K // 2, K}
    phase1 = [r_ for r_ in runs if index[r_["id"]][1] in probe_ks]
    outs = lsem.run_real(phase1, "c11p", timeout=1800)
    stuck = set()
    for rid, o in outs.items():
        if o["outcome"][0] in ("hang", "crash"):
            stuck.add(index[rid][0])
    rest = [r_ for r_ in runs if r_["id"] not in outs and index[r_["id"]][0] not in stuck]
    outs.update(lsem.run_real(rest, "c11", timeout=2400))
    for r_ in runs:      # the cancel points of a stuck program that were not run count as what its probes showed
        if r_["id"] not in outs:
            ci_, k_ = index[r_["id"]]
            outs[r_["id"]] = dict(next(o for rid, o in outs.items() if index[rid][0] == ci_ and o["outcome"][0] in ("hang", "crash")), id=r_["id"], skipped=True)
    recs = []
    per = {}
    for rid, o in outs.items():
        ci, k = index[rid]
        per.setdefault(ci, {})[k] = o
    direct = 0
    unreached = 0
    skipped = set()
    for ci, (name, p, root, src) in enumerate(corpus):
        rl = []
        for k in range(1, K + 1):
            o = per[ci][k]
            oc = o["outcome"][0]
            if oc == "budget" and o["outcome"][1:] == ["never-done"]:
                # the cancel point was never reached (no k-th dispatch poll happened): nothing to judge
                unreached += 1
                skipped.add((ci, k))
                rl.append({"emits": [], "outcome": ["err", ["s", []]], "after": 0, "cancelsp": 0, "cancelemits": 0, "cancelled": False})
                continue
            if o.get("skipped"):
                skipped.add((ci, k))
                rl.append({"emits": [], "outcome": ["err", ["s", []]], "after": 0, "cancelsp": 0, "cancelemits": 0, "cancelled": False})
                continue
            if oc in ("crash", "hang", "gopanic", "loaderr", "budget"):
                verd.candidate("C11:sweep:%s:%s" % (name, oc), "program %s: cancel at poll %d ended in %s (did not stop promptly)" % (name, k, o["outcome"]),
                               {"program": name, "src": src, "k": k, "real": o})
                direct += 1
                oc_tok = ["err", ["s", []]]
            cancelled = o["polls"] >= k or o["outcome"][0] == "err" and "verif-cancel" in bytes(o["outcome"][1][1] if o["outcome"][1][0] == "s" else []).decode("latin-1")
            rl.append({"emits": o["emits"], "outcome": o["outcome"][:2] if oc in ("ok", "err") else ["err", ["s", []]],
                       "after": o.get("after", 0), "cancelsp": o.get("cancelsp", 0), "cancelemits": o.get("cancelemits", 0),
                       "cancelled": cancelled})
        recs.append({"id": ci + 1, "root": root, "nodes": p.nodes[1:], "runs": rl})
    judged = {"ok": 0, "bad": 0, "unknown": 0}
    for r in vlib.validate_batches("LuaSemCancel", "LuaSemCancel", recs, "c11", batch=2, parallel=8, timeout=2400,
                                   extra_consts={"MaxSteps": "9000" if thorough else "4500"}, heap="3g"):
        stats["states"] += r.distinct
        stats["transitions"] += r.generated
        cs = r.tag("CANCEL")
        if len(cs) != r.nrecords:
            raise vlib.Infra("LuaSemCancel: %d verdict lines for %d programs" % (len(cs), r.nrecords))
        for c in cs:
            name, p, root, src = corpus[c["id"] - 1]
            for k, j in enumerate(c["js"], 1):
                if (c["id"] - 1, k) in skipped:
                    judged["unknown"] += 1
                elif j == "ok":
                    judged["ok"] += 1
                elif j == "unknown":
                    judged["unknown"] += 1
                else:
                    judged["bad"] += 1
                    verd.candidate("C11:sweep:%s:%s" % (name, j[4:40]), "program %s, context done from dispatch poll %d: %s" % (name, k, j[4:]),
                                   {"program": name, "src": src, "k": k, "real": per[c["id"] - 1][k]})
    vlib.log("[C11] sweep: %d programs x %d cancel points = %d runs: %s" % (len(corpus), K, len(runs), json.dumps(judged)))
    undecided = judged["unknown"] > 0.15 * len(runs)
    # ---- blocking channel operations / coroutines with a real context (bounded wait)
    rc, out, err = vlib.run_harness(["c11-chan"], timeout=120)
    chan = json.loads(out)
    for c in chan:
        if not c["returned"]:
            verd.candidate("C11:blocking:%s:does-not-return" % c["op"], "script blocked in %s did not return within 15 s after the context was cancelled" % c["op"], c)
        elif "context canceled" not in c.get("err", ""):
            verd.candidate("C11:blocking:%s:no-reason" % c["op"], "script blocked in %s returned %r, not an error carrying the context's reason" % (c["op"], c.get("err")), c)
    vlib.log("[C11] blocking ops under cancellation: %s" % ", ".join("%s=%s" % (c["op"], "returned" if c["returned"] else "HANG") for c in chan))
    # ---- until the context is done, attaching it changes nothing
    progs = []
    for i in range(400 if thorough else 120):
        p, root, src = gen_core.gen_program(vlib.seed() * 1000000 + 900000 + i)
        progs.append({"id": i + 1, "fam": "ctx", "root": root, "nodes": p.nodes[1:], "src": src})
    # coroutine programs too: threads derive their own contexts, which must not change anything either
    import gen_co
    crng = random.Random(vlib.seed() * 31 + 11)
    cops = [gen_co.script_program(crng) for _ in range(1200 if thorough else 300)] + list(gen_co.fixed_programs())
    for cp, croot in cops:
        progs.append({"id": len(progs) + 1, "fam": "ctx-co", "root": croot, "nodes": cp.nodes[1:], "src": render(cp, croot)})
    # coroutines (created and wrapped, at nesting depth 1..3) that outlive the coroutine that made them - finished, failed
    # or left suspended - and are driven afterwards: their contexts derive from the attached one, not from their maker's
    import c12_progs
    for name, src in sorted(c12_progs.orphan_programs().items()):
        progs.append({"id": len(progs) + 1, "fam": "ctx-orphan", "src": src})
    with_ctx = lsem.run_real(progs, "c11ctx")
    without = lsem.run_real([dict(p, opts={"noctx": True}) for p in progs], "c11noctx")
    same = 0
    for p in progs:
        a, b = with_ctx[p["id"]], without[p["id"]]
        if a["emits"] == b["emits"] and a["outcome"][:2] == b["outcome"][:2]:
            same += 1
        else:
            verd.candidate("C11:undone-context-changes-behaviour", "program behaves differently with an (undone) context attached", {"program": p, "with": a, "without": b})
    vlib.log("[C11] context attached (undone) vs no context: %d/%d identical traces" % (same, len(progs)))
    # the same for channel operations (they take a different path when a context is attached)
    chprogs = [{"id": i + 1, "fam": "chan", "src": src} for i, src in enumerate(channel_scripts())]
    cw = lsem.run_real(chprogs, "c11chctx")
    cn = lsem.run_real([dict(p, opts={"noctx": True}) for p in chprogs], "c11chnoctx")
    chsame = 0
    for p in chprogs:
        a, b = cw[p["id"]], cn[p["id"]]
        if b["outcome"][0] not in ("ok", "err"):
            raise vlib.Infra("channel script %d without a context ended %s" % (p["id"], b["outcome"]))
        if a["emits"] == b["emits"] and a["outcome"][:2] == b["outcome"][:2]:
            chsame += 1
        else:
            verd.candidate("C11:undone-context-changes-behaviour:channel", "channel script behaves differently with an (undone) context attached", {"program": p, "with": a, "without": b})
    vlib.log("[C11] channel scripts, context attached (undone) vs no context: %d/%d identical traces" % (chsame, len(chprogs)))
    same += chsame
    progs = progs + chprogs
    rc = verd.finish()
    if rc == 0 and undecided:
        # nothing wrong was seen, but too little was decided to say the property held
        raise vlib.Infra("undecided cancel points %.1f%% exceed 15%%" % (100.0 * judged["unknown"] / len(runs)))
    vlib.write_evidence(PROP, tier, "model_checking", {
        "states": stats["states"], "transitions": stats["transitions"],
        "traces_validated_against_impl": judged["ok"] + same,
        "evaluations": len(runs) + len(chan) + len(progs), "distinct_nontrivial": judged["ok"],
        "rule": "one run per (corpus program, dispatch poll k <= %d) with the context done from poll k on; non-trivial = judged ok by LuaSemCancel with the context actually done during the run or the program finished identically" % K,
        "cancel_sweep": {"programs": [c[0] for c in corpus], "cancel_points_per_program": K, "judged": judged, "crash_or_hang": direct, "cancel_point_never_reached": unreached},
        "blocking_ops": chan, "ctx_vs_noctx_identical": same,
        "samples": [{"program": corpus[0][0], "src": corpus[0][3], "cancel_at_poll_20": per[0][20]}],
        "exhaustive": False, "known_findings_hit": sorted(verd.known_hit),
    }, time.time() - t0, len(verd.violations), assumptions=[
        "polls inside coroutines are not observed (child context); cancellation reaches them synchronously through AfterFunc",
        "blocking channel operations are sampled with a real context and a 4 s bound",
        "the spec prefix is bounded by MaxSteps; cancel points beyond it are counted as undecided"])
    return rc


def channel_scripts():
    """single-state channel scripts (buffered channels, so nothing blocks): send/receive/close and channel.select
    with the ready case and the default case in every position, with and without handlers"""
    import itertools
    out = []
    pre = "local ch1, ch2, ch3 = channel.make(2), channel.make(1), channel.make(1)\n"
    # at most one non-default case is ready at any select (Go chooses among several ready cases at random)
    for fill1, fill2 in ((1, 1), (0, 0), (0, 1)):
        setup = pre + ("ch1:send('m1') ch1:send('m2')\n" if fill1 else "") + ("ch2:send('full')\n" if fill2 else "")
        cases = {"recv": '{"|<-", ch1%s}', "send": '{"<-|", ch2, "v"%s}', "default": '{"default"%s}', "recv3": '{"|<-", ch3%s}'}
        hs = {"recv": ', function(ok, v) emit("h-recv", ok, v) end', "send": ', function() emit("h-send") end',
              "default": ', function() emit("h-default") end', "recv3": ', function(ok, v) emit("h-recv3", ok, v) end'}
        for names in itertools.chain(itertools.permutations(["recv", "send", "default"]), itertools.permutations(["recv3", "default"]),
                                     itertools.permutations(["recv", "default", "recv3"]), [("default",)], itertools.permutations(["send", "default"])):
            for withh in (False, True):
                sel = "channel.select(" + ", ".join(cases[n] % (hs[n] if withh else "") for n in names) + ")"
                out.append(setup + "for i = 1, 3 do emit('sel', %s) end\nemit('rest', channel.select({'|<-', ch1}, {'default'}))\n" % sel)
    out.append(pre + "ch1:send(1) ch1:send(2) emit(ch1:receive()) emit(ch1:receive()) ch1:close() emit(ch1:receive()) emit(pcall(ch1.send, ch1, 3))\n")
    out.append(pre + "ch2:send({1, 2}) local ok, t = ch2:receive() emit(ok, t[1], t[2]) emit(pcall(ch2.send, ch2, setmetatable({}, {})))\n")
    out.append(pre + "ch1:send(1) ch1:close() emit(channel.select({'|<-', ch1}, {'default'})) emit(channel.select({'|<-', ch1}, {'default'})) emit(channel.select({'default'}, {'|<-', ch1}))\n")
    return out


def replay(path):
    """re-runs the cancellation sweep of the program named in the replay file"""
    rec = json.load(open(path))
    r = rec["replay"]
    if "program" in r and isinstance(r["program"], str):
        os.environ["VERIF_C11_ONLY"] = r["program"]
    return run("quick")
