"""C09 - a table is a finite map with a valid border and complete traversal.
MC: TableImpl refines Table (TLC).  Bind: histories exported from TableImpl's
state graph (one per transition) + seeded random histories are executed on the
real table through every access path; TableTrace.tla validates what came back."""
import json, os, random, time
import vlib

PROP = "C09"

LO_U = [["n", i] for i in (-1, 0, 1, 2, 3, 4, 5, 6)] + [["f", 1], ["s", "a"], ["s", "b"], ["b", True], ["b", False], ["t", 1]]
HI_U = [["n", i] for i in (-1, 0, 1, 2, 3, 4, 67108864, 67108865)] + [["f", 1], ["s", "a"], ["s", "b"], ["b", True], ["b", False], ["t", 1]]
VALS = [["nil"], ["n", 10], ["b", False], ["s", "x"], ["t", 2]]


def rand_hist(rng, U, M, n):
    """Seeded random history; traversal steps are interleaved with clears and
    overwrites of existing keys, as the property allows."""
    h = []
    present = set()
    arrmax = 0
    for _ in range(n):
        r = rng.random()
        if r < 0.22:
            h.append({"op": "next"})
            continue
        if r < 0.25:
            # clear / overwrite exactly the key the traversal has just returned
            h.append({"op": "set", "cur": True, "path": rng.choice(["RawSet", "lua", "rawset"]), "v": ["nil"] if rng.random() < 0.7 else rng.choice(VALS)})
            continue
        if r < 0.27:
            h.append({"op": "pop"})        # table.remove(t): clears t[#t], also in the middle of a traversal
            continue
        if r < 0.285:
            # table.insert(t, #t + d, v) / tb.Insert: at or behind the end nothing moves, it is the store t[#t + d] = v
            d = rng.choice([1, 2, 2, 3])
            if arrmax + d <= 4:            # keeps every later append inside the key universe
                h.append({"op": "insert", "d": d, "v": rng.choice([v for v in VALS if v != ["nil"]])})
                arrmax += d
            continue
        if r < 0.30:
            v = rng.choice(VALS)
            if arrmax < 4:
                h.append({"op": "append", "v": v})
                # the appended position is a border+1; track conservatively
                arrmax += 1
                present.add(("n", -999))
            continue
        if r < 0.36:
            h.append({"op": "set", "path": rng.choice(["lua", "rawset"]), "k": rng.choice([["nil"], ["nan"]]), "v": rng.choice(VALS)})
            continue
        k = rng.choice(U)
        v = rng.choice(VALS) if rng.random() < 0.7 else ["nil"]
        if k[0] == "n" and 0 < k[1] < M:
            path = rng.choice(["RawSet", "RawSetInt", "lua", "rawset"])
            arrmax = max(arrmax, k[1])
        elif k[0] == "n":
            path = rng.choice(["RawSet", "RawSetInt", "RawSetH", "lua"])
        elif k[0] == "s":
            path = rng.choice(["RawSet", "RawSetString", "lua", "rawset"])
        else:
            path = rng.choice(["RawSet", "RawSetH", "lua", "rawset"])
        h.append({"op": "set", "path": path, "k": k, "v": v})
    return h


def trav_clear_hists(rng, U, M, n):
    """directed: a few keys of every kind inserted in a random order, then a complete traversal
    in which the key just visited is cleared (or overwritten) at one chosen step"""
    out = []
    hashy = [k for k in U if not (k[0] == "n" and 0 < k[1] < (M or 1 << 30) and k[1] < 10)]
    arr = [k for k in U if k[0] == "n" and 0 < k[1] < 5]
    while len(out) < n:
        ks = rng.sample(hashy, rng.randint(2, min(5, len(hashy)))) + rng.sample(arr, rng.randint(0, 2))
        rng.shuffle(ks)
        build = [{"op": "set", "path": "RawSet", "k": k, "v": rng.choice(VALS[1:])} for k in ks]
        if rng.random() < 0.3:      # an older key deleted before the traversal starts (a tombstone in the key list)
            build.append({"op": "set", "path": "RawSet", "k": rng.choice(ks), "v": ["nil"]})
        for j in range(1, len(ks) + 1):
            h = list(build) + [{"op": "next", "restart": True}] + [{"op": "next"}] * (j - 1)
            h.append({"op": "set", "cur": True, "path": rng.choice(["RawSet", "lua", "rawset"]), "v": ["nil"] if rng.random() < 0.8 else rng.choice(VALS[1:])})
            if rng.random() < 0.35: # the last list element is popped right there (table.remove shrinks the array part)
                h[-1] = {"op": "pop"}
            if rng.random() < 0.3:  # the length is read in the middle of the traversal
                h.append({"op": "set", "path": "RawSet", "k": ["nil"], "v": ["nil"]} if False else {"op": "next"})
            h += [{"op": "next"}] * (len(ks) + 2)
            out.append(h)
    return out[:n]


def insert_end_hists(U, M):
    """directed: a list 1..k filled through every path, its last j elements cleared by plain stores (the array part
    keeps the slots) or by table.remove (it shrinks), then table.insert / tb.Insert at #t+1, #t+2, #t+3, then reads"""
    out = []
    top = max(k[1] for k in U if k[0] == "n" and 0 < k[1] < 10)
    for k in range(1, min(top, 4) + 1):
        for j in range(0, k + 1):
            for clear in ("store", "pop"):
                for d in (1, 2, 3):
                    for fill in ("RawSetInt", "lua", "append"):
                        h = [({"op": "append", "v": ["n", 10]} if fill == "append" else {"op": "set", "path": fill, "k": ["n", i], "v": ["n", 10]}) for i in range(1, k + 1)]
                        for c in range(j):
                            h.append({"op": "set", "path": "lua", "k": ["n", k - c], "v": ["nil"]} if clear == "store" else {"op": "pop"})
                        h.append({"op": "insert", "d": d, "v": ["s", "x"]})
                        h += [{"op": "next", "restart": True}] + [{"op": "next"}] * (k + 2)
                        out.append(h)
    return out


def case_key(tr, bad, M=0):
    """Narrow case key for a rejected trace (DESIGN 2.6)."""
    pos, why, det = bad
    ev = tr["ev"][pos - 1]
    if why == "len" and M and ["n", M] in tr["U"]:
        atM = ev["rb1"][tr["U"].index(["n", M])]
        if atM != ["nil"] and all(l == M - 1 for l in ev["len"]):
            return "C09:len:border-across-MaxArrayIndex"
    if why == "rb3" and det and det[0] == "n" and det[1] < 1:
        return "C09:RawGetInt:nonpositive-key-in-hash-part"
    if why == "len":
        return "C09:len:%s" % ev.get("entry", ev["op"])
    if why in ("rb1", "rb2", "rb3"):
        return "C09:%s:%s:%s" % (why, ev.get("entry", ev["op"]), det[0] if det else "?")
    return "C09:%s:%s" % (why, ev.get("entry", ev["op"]))


def validate(tracefile_records, tag, verd, stats, batch=4000, M=0):
    """Validate traces with TableTrace in batches; returns number validated."""
    n = 0
    byid = {t["id"]: t for t in tracefile_records}
    for r in vlib.validate_batches("TableTrace", "TableTrace", list(tracefile_records), "c09_" + tag, batch=batch):
        stats["states"] += r.distinct
        stats["transitions"] += r.generated
        vs = r.tag("VERDICT")
        if len(vs) != r.nrecords:
            raise vlib.Infra("TableTrace: %d verdicts for %d traces (%s)" % (len(vs), r.nrecords, tag))
        for v in vs:
            n += 1
            if not v["ok"]:
                tr = byid[v["id"]]
                key = case_key(tr, v["bad"], M)
                ev = tr["ev"][v["bad"][0] - 1]
                verd.candidate(key, "history %s#%d: %s at event %d (%s) detail=%s" % (
                    tag, v["id"], v["bad"][1], v["bad"][0], ev.get("entry", ev["op"]), json.dumps(v["bad"][2])),
                    {"config": tag, "trace": tr, "verdict": v})
    return n


def run_histories(hists, U, M, tag, verd, stats, obsall=False):
    t0 = time.time()
    sd = vlib.subdir("c09")
    inp = os.path.join(sd, "hist_%s.json" % tag)
    outp = os.path.join(sd, "traces_%s.ndjson" % tag)
    with open(inp, "w") as f:
        json.dump({"U": U, "H": [{"id": i + 1, "h": h} for i, h in enumerate(hists)]}, f)
    args = ["c09-run", "--in", inp, "--out", outp]
    if M:
        args += ["--M", str(M)]
    if obsall:
        args.append("--obsall")
    vlib.run_harness(args, timeout=900)
    recs = vlib.read_ndjson(open(outp).read())
    if len(recs) != len(hists):
        raise vlib.Infra("c09-run returned %d traces for %d histories" % (len(recs), len(hists)))
    os.remove(inp)
    os.remove(outp)
    t1 = time.time()
    n = validate(recs, tag, verd, stats, M=M, batch=250 if obsall else 4000)
    vlib.log("[C09]   %s: harness %.1fs, TLC validation %.1fs" % (tag, t1 - t0, time.time() - t1))
    return recs, n


def run(tier):
    t0 = time.time()
    verd = vlib.Verdicts(PROP)
    stats = {"states": 0, "transitions": 0}
    vlib.build_harness()
    thorough = tier == "thorough"
    # 1. MC: TableImpl refines Table, lowered and default boundary
    mc = []
    for cfg, hist in (("TableMC_lo", 5 if thorough else 4), ("TableMC_hi", 5 if thorough else 4)):
        r = vlib.run_tlc("TableMC", cfg, consts={"MaxHist": hist}, timeout=1500)
        mc.append((cfg, r.generated, r.distinct))
        stats["states"] += r.distinct
        stats["transitions"] += r.generated
        vlib.log("[C09] MC %s depth %d: %d generated / %d distinct states, refinement holds (%.0fs)" % (cfg, hist, r.generated, r.distinct, r.wall))
    # 2. GEN -> replay -> TRACE
    total = 0
    samples = []
    distinct = set()
    for cfg, U, M, tag in (("TableGen_lo", LO_U, 5, "lo"), ("TableGen_hi", HI_U, 0, "hi")):
        r = vlib.run_tlc("TableMC", cfg, consts={"MaxHist": 4 if thorough else 3}, timeout=1500)
        hists = [g["h"] for g in r.tag("GEN")]
        stats["states"] += r.distinct
        stats["transitions"] += r.generated
        recs, n = run_histories(hists, U, M, tag, verd, stats)
        total += n
        for h in hists:
            if len(h) >= 2:
                distinct.add(vlib.canon_hash(h))
        samples.append({"config": tag, "history": hists[len(hists) // 2], "trace_last_event": recs[len(recs) // 2]["ev"][-1]})
        vlib.log("[C09] GEN %s: %d histories (one per transition of TableImpl) replayed and validated" % (tag, n))
    # 3. seeded random long histories, full observation after every event
    rng = random.Random(vlib.seed() * 7919 + 9)
    nrand = 800 if thorough else 200
    for U, M, tag in ((LO_U, 5, "rlo"), (HI_U, 0, "rhi")):
        hists = [rand_hist(rng, U, M or 67108864, rng.choice([20, 40, 80] if not thorough else [40, 80, 160])) for _ in range(nrand)]
        recs, n = run_histories(hists, U, M, tag, verd, stats, obsall=True)
        total += n
        for h in hists:
            distinct.add(vlib.canon_hash(h))
        samples.append({"config": tag, "history_prefix": hists[0][:6]})
        vlib.log("[C09] random %s: %d histories validated" % (tag, n))
        hists = trav_clear_hists(rng, U, M or 67108864, 1500 if thorough else 400)
        recs, n = run_histories(hists, U, M, tag.replace("r", "tc", 1), verd, stats, obsall=True)
        total += n
        for h in hists:
            distinct.add(vlib.canon_hash(h))
        vlib.log("[C09] traversal with the visited key cleared/overwritten %s: %d histories validated" % (tag, n))
        hists = insert_end_hists(U, M or 67108864)
        recs, n = run_histories(hists, U, M, tag.replace("r", "ie", 1), verd, stats, obsall=True)
        total += n
        for h in hists:
            distinct.add(vlib.canon_hash(h))
        vlib.log("[C09] insert at/behind the end after clearing the tail %s: %d histories validated" % (tag, n))
    rc = verd.finish()
    vlib.write_evidence(PROP, tier, "model_checking", {
        "states": stats["states"], "transitions": stats["transitions"],
        "traces_validated_against_impl": total,
        "evaluations": total, "distinct_nontrivial": len(distinct),
        "rule": "histories = one per transition of TableImpl's state graph (BFS, VIEW without history) for lua.MaxArrayIndex=5 and default, plus seeded random histories (traversal steps interleaved with stores, including clearing/overwriting the key just visited) and directed complete traversals clearing the visited key at every step; table.insert / tb.Insert at and behind the end of lists whose tail was cleared by stores or removes; distinct by canonical hash of the operation list, non-trivial = at least 2 operations",
        "samples": samples, "mc_runs": mc, "exhaustive": False,
        "known_findings_hit": sorted(verd.known_hit),
    }, time.time() - t0, len(verd.violations), assumptions=[
        "TLC explores TableImpl only within MaxArr=4, MaxHK=3, history depth 4-5",
        "hash-part accessors are used with hash-part keys only (as the property states)",
        "Append/Insert beyond MaxArrayIndex are not explored"])
    return rc


def replay(path):
    rec = json.load(open(path))
    tr = rec["replay"]["trace"]
    cfgtag = rec["replay"]["config"]
    U = tr["U"]
    M = 5 if cfgtag in ("lo", "rlo", "tclo", "ielo") else 0
    hist = []
    for e in tr["ev"]:
        if e.get("entry") in ("lua:table.remove", "tb.Remove"):
            hist.append({"op": "pop"})
            continue
        if e.get("entry") in ("lua:table.insert", "tb.Insert"):
            hist.append({"op": "insert", "at": e["k"][1], "v": e["v"]})
            continue
        op = {"op": e["op"]}
        for k in ("k", "v"):
            if k in e and e["op"] != "next":
                op[k] = e[k]
        if e["op"] == "set":
            op["path"] = {"tb.RawSet": "RawSet", "lua:t[k]=v": "lua", "lua:rawset": "rawset", "L.SetTable": "RawSet",
                          "L.RawSet": "RawSet", "tb.RawSetInt": "RawSetInt", "L.RawSetInt": "RawSetInt",
                          "RawSetString": "RawSetString", "L.SetField": "RawSetString", "RawSetH": "RawSetH"}.get(e.get("entry"), "RawSet")
        hist.append(op)
    verd = vlib.Verdicts(PROP)
    verd.findings = []
    stats = {"states": 0, "transitions": 0}
    run_histories([hist], U, M, cfgtag, verd, stats, obsall=True)
    return verd.finish()
