"""C20 - require loads each module once, from preload first, and reports loops.
MC : RequireMC.tla - laws of the reference semantics Require.tla (cache hit is
     silent and identical, cached value stable, preload precedence, path order,
     loops are errors, what a failure leaves behind, host registration).
Bind: (1) GEN -> replay: TLC exports every history of the operation alphabet up
     to a depth with the observation the semantics expects; the maximal ones are
     executed on the real module system (fresh state each, instrumented Lua /
     host loaders, module files in a temp package.path) and every step is
     compared with TLC's expectation; every mismatch is re-run and re-decided by
     RequireTrace.tla before it counts.
     Names with 0-3 dots, templates with several marks and files placed where a
     wrong name-to-file conversion would look (decoys) are part of the alphabet.
     Directed alphabets: one name, load -> package.loaded[n] = nil -> require for
     every loader kind; states created with SkipOpenLibs whose libraries the
     history opens in any order; the package library opened again mid-history.
     (2) TRACE: every admissible order of OpenBase/OpenPackage/OpenString/
     OpenTable/RegisterModule/PreloadModule on a SkipOpenLibs state; seeded random longer histories (4 names out of 10 with 0-3 dots,
     leading/trailing/doubled dots; three package.path settings) and
     the libraries opened by the host are executed and what the real code showed
     is validated by TLC against Require.tla (RequireTrace.tla)."""
import json, os, random, time
from concurrent.futures import ThreadPoolExecutor
import vlib

PROP = "C20"
FIELDS = ("log", "res", "ld", "gl", "fl", "fg")
STDLIBS = ["package", "table", "io", "os", "string", "math", "debug", "channel", "coroutine", "_G"]
WORKERS = 8
RECHECK_PER_KEY = 25      # mismatches re-run and re-decided by RequireTrace per case key and GEN configuration


# package.path templates: template > "/"-separated segments > pieces ("?" = mark); same shape as in RequireMC.tla
P1 = [[["d1"], ["?", ".lua"]], [["d2"], ["?", ".lua"]]]
P2 = [[["d1"], ["?", ".lua"]], [["d2"], ["?"], ["init.lua"]], [["d3"], ["?"], ["x-", "?", ".lua"]]]
P3 = [[["d1"], ["?", ".lua"]], [["d2", "sub"], ["?"], ["?", ".lua"]], [["d3"], ["m-", "?", "-", "?", ".lua"]], [["d4"], ["?", ".lua"]]]
GEN_NAMES = {1: ["a", "b", "c"], 2: ["a", "p.q", "p.q.r", "p.q.r.s"], 3: ["string", "package", "x", "y", "table"],
             4: ["package", "a", "b"]}
GEN_PATHS = {1: P1, 2: P2}


def mkrec(i, names, nb, h, path, skip=False):
    """input record; parts = the dot-separated components (RequireTrace checks NameStr(parts) = name);
    skip = the state is created with Options.SkipOpenLibs and the history opens the libraries itself"""
    return {"id": i, "names": names, "parts": [n.split(".") for n in names], "nb": nb, "path": path, "skip": skip, "h": h}


# --------------------------------------------------------------------------
# running histories on the real code

def run_harness(recs, tag):
    """recs: [{id, names, nb, h}] -> same records with 'obs' added."""
    if not recs:
        return []
    sd = vlib.subdir("c20")
    inp = os.path.join(sd, "hist_%s.json" % tag)
    outp = os.path.join(sd, "obs_%s.ndjson" % tag)
    mdir = os.path.join(sd, "mods_%s" % tag)
    os.makedirs(mdir, exist_ok=True)
    with open(inp, "w") as f:
        json.dump({"H": recs}, f, separators=(",", ":"))
    vlib.run_harness(["c20-run", "--in", inp, "--out", outp, "--dir", mdir, "--par", "8"], timeout=900)
    out = vlib.read_ndjson(open(outp).read())
    if len(out) != len(recs):
        raise vlib.Infra("c20-run returned %d records for %d histories" % (len(out), len(recs)))
    os.remove(inp)
    os.remove(outp)
    res = []
    for r, o in zip(recs, out):
        if r["id"] != o["id"]:
            raise vlib.Infra("c20-run: record order")
        res.append(dict(r, obs=o["obs"]))
    return res


def slim(rec):
    """the record as RequireTrace reads it (diagnostic fields dropped)."""
    return {"id": rec["id"], "names": rec["names"], "parts": rec["parts"], "nb": rec["nb"], "path": rec["path"], "skip": rec["skip"], "h": rec["h"],
            "obs": [{k: o[k] for k in FIELDS} for o in rec["obs"]]}


# --------------------------------------------------------------------------
# case keys (DESIGN 2.6): one defect class = one key

def first_diff(a, b):
    for i in range(max(len(a), len(b))):
        if i >= len(a) or i >= len(b) or a[i] != b[i]:
            return i
    return -1


def culprit(rec, pos, field, exp, got):
    """the installing operation of the loader the first difference is about."""
    h = rec["h"]
    lid2op = {"L%d" % (i + 1): h[i] for i in range(len(h))}
    if field == "log":
        k = first_diff(exp["log"], got["log"])
        ev = exp["log"][k] if k < len(exp["log"]) else got["log"][k]
        outer = lid2op.get(ev[1])
        if ev[0] == "res" and outer and outer.get("beh") and ev[2].isdigit():
            i = int(ev[2]) - 1
            if 0 <= i < len(outer["beh"]["reqs"]):
                m = outer["beh"]["reqs"][i]["n"]
                for e in reversed(exp["log"][:k]):
                    if e[0] == "run" and e[2] == m:
                        return lid2op.get(e[1])
                return None
        return outer
    for e in exp["log"]:
        if e[0] == "run":
            return lid2op.get(e[1])
    return None


def value_diff(field, exp, got):
    """the first difference is between two values that require returned successfully"""
    if field == "res":
        return exp["res"][0] == "ok" and got["res"][0] == "ok"
    if field == "log":
        k = first_diff(exp["log"], got["log"])
        if k < len(exp["log"]) and k < len(got["log"]):
            a, b = exp["log"][k], got["log"][k]
            return a[0] == "res" and a[:4] == b[:4] and a[3] == "ok"
    return False


def case_key(rec, v):
    pos, field, exp = v["pos"], v["field"], v["exp"]
    if pos < 1 or pos > len(rec["h"]):
        return "C20:trace:%s" % field
    op = rec["h"][pos - 1]
    got = rec["obs"][pos - 1]
    names = rec["names"]
    ni = names.index(op["n"]) if op["n"] in names else 0
    prev = rec["obs"][pos - 2] if pos >= 2 else None
    if rec["nb"] > 0 and len(rec["names"]) == 1:
        if field == "res" and got["res"][:2] == ["err", "notfound"]:
            return "C20:stdlib:%s:not-in-package.loaded" % op["n"]
        what = {"ld": "missing-from-package.loaded", "gl": "global-differs", "res": "require-result"}.get(field, field)
        return "C20:stdlib:%s:%s" % (op["n"], what)
    gm = "none"
    for o in rec["h"][:pos - 1]:
        if o["op"] == "gmeta":
            gm = o["kind"]
    if op["op"] == "register" and gm != "none":
        return "C20:metatable-on-globals:module()/RegisterModule-look-names-up-through-__index:" + gm
    if op["op"] == "register":
        pl = prev["ld"][ni] if prev else "nil"
        pg = prev["gl"][ni] if prev else "nil"
        if pl.startswith("t"):
            sit = "package.loaded-holds-table"
        elif pg == "nil":
            sit = "new"
        elif pg.startswith("t"):
            sit = "global-table-exists"
        else:
            sit = "global-conflict"
        what = {"fl": "functions-not-registered", "fg": "functions-not-registered"}.get(field, field)
        return "C20:RegisterModule:%s:%s" % (sit, what)
    if op["op"] == "open":
        again = any(o["op"] == "open" and o["lib"] == op["lib"] for o in rec["h"][:pos - 1]) or not rec.get("skip")
        sym = symptom(rec, field, exp, got)
        if field == "ld":
            k = first_diff(exp["ld"], got["ld"])
            if k < len(got["ld"]) and got["ld"][k] == "nil":
                sym = "package.loaded-entries-forgotten"
        return "C20:Open-%s%s:%s" % (op["lib"], "-again" if again else "", sym)
    # sandbox contexts: one defect class each
    hidden, replaced, unloaded, gmeta = False, False, False, "none"
    for o in rec["h"][:pos - 1]:
        if o["op"] == "glob" and o["n"] == "package":
            hidden = o["kind"] in ("nil", "num")
        elif o["op"] == "clearall" or (o["op"] == "clear" and o["n"] == "package"):
            unloaded = True
        elif o["op"] == "gmeta":
            gmeta = o["kind"]
        elif o["op"] in ("req", "register") and o["n"] == "package":
            unloaded = False
        elif o["op"] == "loaders":
            replaced = replaced or o["how"] == "replace"
        elif o["op"] == "open" and o.get("lib") == "package":
            replaced = False
    if op["op"] in ("req", "preload"):
        first = got["res"]
        if field == "log":
            k = first_diff(exp["log"], got["log"])
            if k < len(got["log"]) and got["log"][k][0] == "res":
                first = got["log"][k][3:]
        if hidden and first[:2] == ["err", "other"] and "non-table" in first[2]:
            return "C20:global-package-hidden:require-and-PreloadModule-reach-package.preload/path-through-the-global-variable"
        if unloaded and first[:2] == ["err", "other"]:
            return "C20:package.loaded.package-removed:require-and-PreloadModule-find-the-package-table-through-package.loaded"
        if replaced:
            return "C20:package.loaders-replaced:require-keeps-using-the-original-searcher-table"
    if gmeta != "none" and op["op"] in ("req", "register"):
        return "C20:metatable-on-globals:module()/RegisterModule-look-names-up-through-__index:" + gmeta
    if op["op"] == "preload" and op.get("host"):
        return "C20:PreloadModule:%s" % symptom(rec, field, exp, got)
    if op["op"] != "req":
        return "C20:%s:%s" % (op["op"], field)
    c = culprit(rec, pos, field, exp, got)
    if c is not None and c.get("beh") and not c.get("syn"):
        b = c["beh"]
        assigns = [k for k in (b["pre"], b["post"]) if k not in ("none",)]
        if assigns and b["ret"] != "none" and not b["fail"] and value_diff(field, exp, got):
            return "C20:require:loader-assigns-package.loaded-and-returns-non-nil:returned-value-not-cached"
    return "C20:require:" + symptom(rec, field, exp, got)


def vkind(tok):
    """value token -> kind (identity dropped)"""
    return tok.rstrip("0123456789") if tok[:1] in ("t", "n") and tok[1:].isdigit() else tok.split(":")[0]


def outcome(r):
    if not r:
        return "?"
    if r[0] == "ok":
        return "ok(" + vkind(r[1]) + ")"
    if r[0] == "err":
        return "err." + r[1]
    return r[0]


def dots(name):
    """class of a module name for the path search: number of dots"""
    c = name.count(".")
    return ":name-dots=%s" % (c if c < 2 else "2+")


def nf_diff(a, b):
    """two 'module not found' outcomes <<err, notfound, name, attempts...>> (attempts in message order: "P" the preload
    field, file names, "N:<lid>" a custom searcher's refusal): what differs in what was tried"""
    if a[2] != b[2]:
        return "not-found-message:module-name"

    def kinds(toks):
        out = []
        for t in toks:
            k = "preload" if t == "P" else ("custom" if t.startswith("N:") else "files")
            if not (out and out[-1] == k == "files"):
                out.append(k)
        return "+".join(out) or "nothing"
    ka, kb = kinds(a[3:]), kinds(b[3:])
    if ka != kb:
        return "not-found-message:searchers-tried:expected=%s,observed=%s" % (ka, kb)
    if len(a) != len(b):
        return "not-found-message:number-of-files-listed:expected=%d,observed=%d%s" % (
            sum(1 for t in a[3:] if t != "P" and not t.startswith("N:")), sum(1 for t in b[3:] if t != "P" and not t.startswith("N:")), dots(a[2]))
    return "not-found-message:file-names-tried-differ" + dots(a[2])


def source_of(rec, lid):
    try:
        op = rec["h"][int(lid[1:]) - 1]
    except (ValueError, IndexError):
        return "?"
    if op["op"] == "preload":
        return "preload-host" if op["host"] else "preload-lua"
    if op["op"] == "file":
        return "file-at-decoy-name" if op.get("s", 1) != 1 else "file"
    return "?"


def symptom(rec, field, exp, got):
    """generic key part: the nature of the first difference (no identities, no positions)"""
    if field == "log":
        k = first_diff(exp["log"], got["log"])
        a = exp["log"][k] if k < len(exp["log"]) else None
        b = got["log"][k] if k < len(got["log"]) else None
        if a and b and a[0] == "run" and b[0] == "run":
            if a[2] != b[2] and a[1] == b[1]:
                return "loader-argument-is-not-the-module-name"
            sa, sb = source_of(rec, a[1]), source_of(rec, b[1])
            if sa[:4] != sb[:4]:        # preload vs file: the kind of searcher is what matters
                sa, sb = [x.split("-")[0] if x.startswith("preload") else x for x in (sa, sb)]
            return "wrong-loader-ran:expected=%s,observed=%s%s" % (sa, sb, dots(a[2]) if "file" in sa + sb else "")
        if a and b and a[0] == "res" and b[0] == "res" and a[:3] == b[:3] and a[3:5] == b[3:5] == ["err", "notfound"]:
            return nf_diff(a[3:], b[3:])
        if a and b and a[0] == "res" and b[0] == "res" and a[:3] == b[:3]:
            return "nested-require:expected=%s,observed=%s%s" % (outcome(a[3:]), outcome(b[3:]),
                                                                 ",other-instance" if outcome(a[3:]) == outcome(b[3:]) else "")
        if b and b[0] == "res":
            return "nested-require:expected=raises,observed=%s" % outcome(b[3:])
        if a and a[0] == "res" and (b is None or b[0] == "res"):
            return "nested-require:expected=%s,observed=raises" % outcome(a[3:])
        if a and a[0] == "run":
            src = source_of(rec, a[1])
            return "loader-not-run:%s:observed=%s%s" % (src.split("-")[0] if src.startswith("preload") else src,
                                                        outcome(got["res"]) if b is None else b[0], dots(a[2]) if "file" in src else "")
        if b and b[0] == "run":
            src = source_of(rec, b[1])
            return "loader-run-unexpectedly:%s:expected=%s%s" % (src.split("-")[0] if src.startswith("preload") else src,
                                                                 outcome(exp["res"]) if a is None else a[0], dots(b[2]) if "file" in src else "")
        return "log:expected=%s,observed=%s" % (a[0] if a else "end", b[0] if b else "end")
    if field == "res" and exp["res"][:2] == got["res"][:2] == ["err", "notfound"]:
        return nf_diff(exp["res"], got["res"])
    if field == "res":
        same = outcome(exp["res"]) == outcome(got["res"])
        return "result:expected=%s,observed=%s%s" % (outcome(exp["res"]), outcome(got["res"]), ",other-instance" if same else "")
    names = rec["names"]
    k = first_diff(exp[field], got[field])
    what = {"ld": "package.loaded-after", "gl": "global-after", "fl": "functions-via-package.loaded", "fg": "functions-via-global"}[field]
    a = exp[field][k] if k < len(exp[field]) else "?"
    b = got[field][k] if k < len(got[field]) else "?"
    return "%s:expected=%s,observed=%s" % (what, vkind(a), vkind(b))



def describe(rec, v):
    pos = v["pos"]
    if pos < 1 or pos > len(rec["h"]):
        return "history #%s: %s" % (rec["id"], v["field"])
    op = rec["h"][pos - 1]
    got = rec["obs"][pos - 1]
    f = v["field"]
    return "history #%s (%d ops) op %d %s(%s)%s: field %s expected %s observed %s%s" % (
        rec["id"], len(rec["h"]), pos, op["op"], op["n"], " via " + got["via"] if got.get("via") else "",
        f, json.dumps(v["exp"].get(f)), json.dumps(got.get(f)),
        " msg=" + json.dumps(got["msg"][:160]) if got.get("msg") else "")


# --------------------------------------------------------------------------
# TRACE validation

def validate(recs, tag, verd, stats, batch=1500, report=True):
    """RequireTrace decides every record; rejected ones become candidates (report=True)
    or are returned for a second run (report=False)."""
    n = 0
    byid = {r["id"]: r for r in recs}
    rejected = []
    for r in vlib.validate_batches("RequireTrace", "RequireTrace", [slim(x) for x in recs], "c20_" + tag, batch=batch):
        stats["states"] += r.distinct
        stats["transitions"] += r.generated
        vs = r.tag("VERDICT")
        if len(vs) != r.nrecords:
            raise vlib.Infra("RequireTrace: %d verdicts for %d records (%s)" % (len(vs), r.nrecords, tag))
        for v in vs:
            n += 1
            stats["steps_validated"] += v["n"] if v["ok"] else max(v["pos"] - 1, 0)
            if v["ok"]:
                continue
            rec = byid[v["id"]]
            if v["field"] in ("illformed", "length"):
                raise vlib.Infra("RequireTrace: record %s of %s is %s" % (v["id"], tag, v["field"]))
            rejected.append((rec, v))
            if report:
                verd.candidate(case_key(rec, v), describe(rec, v), {"config": tag, "record": rec, "verdict": v})
    return n, rejected


def validate_reproduced(recs, tag, verd, stats):
    """TRACE validation; a rejected history is run again on a fresh interpreter and
    decided again before it is reported (at most RECHECK_PER_KEY per case key)."""
    s0 = stats["steps_validated"]
    n, rejected = validate(recs, tag, verd, stats, report=False)
    s1 = stats["steps_validated"]
    perkey = {}
    again = []
    for rec, v in rejected:
        k = case_key(rec, v)
        perkey[k] = perkey.get(k, 0) + 1
        if perkey[k] <= RECHECK_PER_KEY:
            again.append(mkrec(rec["id"], rec["names"], rec["nb"], rec["h"][:v["pos"]], rec["path"], rec["skip"]))
    if again:
        _, rej2 = validate(run_harness(again, tag + "_re"), tag, verd, stats)
        if len(rej2) != len(again):
            raise vlib.Infra("TRACE %s: %d of %d rejected histories did not reproduce" % (tag, len(again) - len(rej2), len(again)))
    stats["steps_validated"] = s1        # the second runs are not counted again
    return n, len(rejected), perkey, s1 - s0


# --------------------------------------------------------------------------
# GEN -> replay

def expand(c, behs):
    if c["op"] == "preload":
        return {"op": "preload", "n": c["n"], "host": c["host"], "beh": behs[c["n"]][c["b"] - 1]}
    if c["op"] == "file":
        return {"op": "file", "n": c["n"], "path": c["path"], "syn": c["syn"], "beh": behs[c["n"]][c["b"] - 1], "t": c["t"], "s": c["s"]}
    return c


def gen_replay(tag, consts, names, verd, stats, cover, fut):
    t0 = time.time()
    r = fut.result()
    stats["states"] += r.distinct
    stats["transitions"] += r.generated
    behs = r.tag("BEHS")[0]
    lines = r.tag("GEN")
    depth = int(consts["MaxHist"])
    expect = {}
    for g in lines:
        expect[json.dumps(g["h"], sort_keys=True)] = g["o"]
    if len(expect) != len(lines):
        raise vlib.Infra("GEN %s: duplicate histories" % tag)
    # TLC's workers print in no fixed order: sort, so that ids (which select the entry path) are reproducible
    leaves = [json.loads(k) for k in sorted(k for k, g in ((json.dumps(g["h"], sort_keys=True), g) for g in lines) if len(g["h"]) == depth)]
    t1 = time.time()
    path = GEN_PATHS[int(consts["PathSel"])]
    skip = consts["NameSel"] == "3"
    nb = 1 if consts["NameSel"] == "4" else 0        # sandbox mode observes the library "package" as well
    recs = [mkrec(i + 1, names, nb, [expand(c, behs) for c in h], path, skip) for i, h in enumerate(leaves)]
    recs = run_harness(recs, tag)
    t2 = time.time()
    checked = set()
    bad = {}
    perkey = {}
    mism = set()
    nmis = 0
    for h, rec in zip(leaves, recs):
        for j in range(1, depth + 1):
            pk = json.dumps(h[:j], sort_keys=True)
            if pk in mism:
                break       # diverged at this prefix already: later steps are not judged
            if pk in checked:
                continue
            checked.add(pk)
            exp = expect.get(pk)
            if exp is None:
                raise vlib.Infra("GEN %s: no expectation for a prefix" % tag)
            o = rec["obs"][j - 1]
            if any(o[k] != exp[k] for k in FIELDS):
                nmis += 1
                mism.add(pk)
                b = dict(rec, id=len(bad) + 1, h=rec["h"][:j], obs=rec["obs"][:j])
                pkey = case_key(b, {"pos": j, "field": [k for k in FIELDS if o[k] != exp[k]][0], "exp": exp})
                perkey[pkey] = perkey.get(pkey, 0) + 1
                if perkey[pkey] <= RECHECK_PER_KEY:
                    bad[pk] = b
                break       # later steps of this history are not judged
            if rec["h"][j - 1]["op"] in ("req", "register"):
                cover["probes"] += 1
                if o["log"]:
                    cover["probes_running_loaders"] += 1
                cover["res_classes"][":".join(o["res"][:2]) if o["res"][0] == "err" else "ok:" + o["res"][1].rstrip("0123456789")] = \
                    cover["res_classes"].get(":".join(o["res"][:2]) if o["res"][0] == "err" else "ok:" + o["res"][1].rstrip("0123456789"), 0) + 1
    if len(checked) != len(expect) and not nmis:
        raise vlib.Infra("GEN %s: %d of %d exported transitions were compared" % (tag, len(checked), len(expect)))
    # every mismatch is re-run on a fresh interpreter and re-decided by TLC
    nbad = 0
    if bad:
        again = run_harness([mkrec(b["id"], names, nb, b["h"], path, skip) for b in bad.values()], tag + "_re")
        n, rejected = validate(again, tag, verd, stats)
        nbad = len(rejected)
        if nbad != len(bad):
            raise vlib.Infra("GEN %s: %d mismatches against TLC's expectation but RequireTrace rejects %d" % (tag, len(bad), nbad))
    cover["gen"].append({"config": tag, "constants": consts, "histories_exported": len(lines), "maximal_histories_run": len(leaves),
                         "steps_compared": len(checked), "steps_differing": nmis, "rechecked_and_rejected_by_RequireTrace": nbad,
                         "differing_by_case_key": perkey})
    stats["compared"] += len(checked)
    stats["runs"] += len(leaves)
    for h in leaves:
        if any(c["op"] in ("preload", "file") for c in h) and any(c["op"] == "req" for c in h):
            stats["nontrivial"] += 1
    mid = recs[len(recs) // 2]
    cover["samples"].append({"config": tag, "history": leaves[len(leaves) // 2], "observed_last": {k: mid["obs"][-1][k] for k in FIELDS}})
    vlib.log("[C20] GEN %s: %d histories exported by TLC (%.0fs), %d maximal ones run on the real code (%.0fs), %d steps compared, %d differ (%d re-run and rejected by RequireTrace) (%.0fs)"
             % (tag, len(lines), t1 - t0, len(leaves), t2 - t1, len(checked), nmis, nbad, time.time() - t2))


# --------------------------------------------------------------------------
# random longer histories

# module names with 0 to 3 dots, and leading / trailing / doubled dots (an empty component: the file name gets "//",
# which denotes the same file as "/")
RUNIVERSE = ["a", "b", "c", "p.q", "p.q.r", "p.q.r.s", "x.y.z", ".lead", "trail.", "u..v"]
RPATHS = [P1, P2, P3]


def wchoice(rng, pairs):
    tot = sum(w for _, w in pairs)
    x = rng.random() * tot
    for v, w in pairs:
        x -= w
        if x < 0:
            return v
    return pairs[-1][0]


def subst(tpl, comps):
    """input generation only: the path segments a template denotes when the marks are replaced by comps joined with '/'
    (the expected file of a module is computed by Require.tla, never here)"""
    raw = "/".join("".join(seg) for seg in tpl).replace("?", "/".join(comps))
    return [x for x in raw.split("/") if x]


def rand_split(rng, name):
    """components used to place a file: the right ones (all dots) or, as a decoy, a conversion that leaves dots in"""
    comps = name.split(".")
    if len(comps) == 1 or rng.random() < 0.7:
        return comps, 1
    k = rng.choice(["first", "last", "none"])
    if k == "first":
        alt = [comps[0], ".".join(comps[1:])]
    elif k == "last":
        alt = [".".join(comps[:-1]), comps[-1]]
    else:
        alt = [name]
    return (alt, 2) if alt != comps else (comps, 1)


def rand_beh(rng, n, host, names, allow_module, plainfam=False):
    b = rand_beh0(rng, n, host, names, allow_module)
    # family "plain": a loader either assigns package.loaded[name] itself or returns a non-nil value, not both
    if plainfam and b["ret"] != "none" and (b["pre"] != "none" or b["post"] != "none"):
        if rng.random() < 0.5:
            b["ret"] = "none"
        else:
            b["pre"], b["post"] = "none", "none"
    return b


def rand_beh0(rng, n, host, names, allow_module):
    pre = wchoice(rng, [("none", 60), ("tbl", 15), ("num", 5), ("false", 4), ("nil", 4), ("module", 12)])
    if pre == "module" and (host or not allow_module):
        pre = "none"
    reqs = []
    if pre not in ("false", "nil"):
        for _ in range(wchoice(rng, [(0, 50), (1, 30), (2, 15), (3, 5)])):
            reqs.append({"n": rng.choice(names), "prot": rng.random() < 0.5})
    post = wchoice(rng, [("none", 80), ("tbl", 8), ("num", 4), ("false", 4), ("nil", 4)])
    return {"pre": pre, "reqs": reqs, "post": post, "fail": rng.random() < 0.15,
            "ret": wchoice(rng, [("none", 35), ("tbl", 40), ("num", 15), ("false", 10)])}


def rand_names(rng):
    if rng.random() < 0.15:
        return ["a", "b", "c", "d"]                       # module() in files needs undotted names only
    names = rng.sample(RUNIVERSE, 4)
    if not any(n.count(".") >= 2 for n in names):
        names[rng.randrange(4)] = rng.choice([n for n in RUNIVERSE if n.count(".") >= 2 and n not in names])
    return names


SEARCHER_LISTS = [["C"], ["F", "P"], ["N", "P", "F"], ["P", "N"], [], ["P", "F"], ["P", "F", "C"], ["N"], ["F"]]


def rand_hist(rng, n, names, path, plainfam=False, sandbox=False):
    """names: the 4 module names of this history; path: its initial package.path.  Files are placed where a template
    puts some name (70 % with all dots converted, else at a decoy).  family "plain" (every second history) leaves out
    assign-and-return loaders and RegisterModule (the constructs former findings were about)."""
    h = []
    allnames = names
    names = [x for x in names if x != "package"]     # sandbox family: "package" is observed and required, never installed
    plain = [x for x in names if "." not in x]
    allplain = len(plain) == len(names)
    cur = path
    for _ in range(n):
        k = wchoice(rng, [("req", 45), ("preload", 12), ("file", 16), ("clear", 10), ("unpreload", 4), ("rmfile", 4),
                          ("glob", 4 if plain else 0), ("register", 0 if plainfam or not plain else 6), ("path", 2), ("reopen", 2),
                          ("hidepkg", 6 if sandbox else 0), ("loaders", 6 if sandbox else 0),
                          ("unloadpkg", 5 if sandbox else 0), ("gmeta", 4 if sandbox else 0)])
        nm = rng.choice(names)
        if k == "req":
            h.append({"op": k, "n": rng.choice(allnames)})
        elif k == "hidepkg":      # the script hides / replaces / restores the global variable "package"
            h.append({"op": "glob", "n": "package", "kind": rng.choice(["nil", "num", "loaded"])})
        elif k == "unloadpkg":    # package.loaded.package removed, or every entry (hot reload)
            h.append({"op": "clear", "n": "package"} if rng.random() < 0.5 else {"op": "clearall", "n": "package"})
        elif k == "gmeta":        # a metatable on the table of globals
            h.append({"op": "gmeta", "n": "package", "kind": rng.choice(["strict", "fallback", "none"])})
        elif k == "loaders":      # package.loaders edited in place or replaced by a new table
            h.append({"op": "loaders", "n": "package", "how": rng.choice(["replace", "inplace"]), "list": rng.choice(SEARCHER_LISTS)})
        elif k == "clear" or k == "unpreload":
            h.append({"op": k, "n": nm})
        elif k == "preload":
            host = rng.random() < 0.5
            h.append({"op": "preload", "n": nm, "host": host, "beh": rand_beh(rng, nm, host, names, "." not in nm, plainfam)})
        elif k == "file" or k == "rmfile":
            comps, sp = rand_split(rng, nm)
            t = rng.randrange(len(cur))
            op = {"op": k, "n": nm, "path": subst(cur[t], comps), "t": t + 1, "s": sp}
            if k == "file":
                op.update(syn=rng.random() < 0.08, beh=rand_beh(rng, nm, False, names, allplain, plainfam))
            h.append(op)
        elif k == "glob":
            h.append({"op": "glob", "n": rng.choice(plain), "kind": rng.choice(["tbl", "num", "nil"])})
        elif k == "register":
            h.append({"op": "register", "n": rng.choice(plain), "f": rng.choice(["f1", "f2"])})
        elif k == "reopen":
            h.append({"op": "open", "n": "package", "lib": "package"})       # the host opens the package library again
        else:
            cur = rng.choice(RPATHS)
            h.append({"op": "path", "n": "", "tpl": cur})
    return h


HOSTNAMES = ["string", "table", "package", "x", "y"]


def host_histories():
    """states created with SkipOpenLibs: every order of {OpenBase, OpenPackage, OpenString, OpenTable, RegisterModule(x),
    PreloadModule(y)} in which PreloadModule finds package.preload (i.e. after OpenBase and OpenPackage); then every name
    is required, the package library is opened again, a Lua module is loaded in between, and everything is required again"""
    import itertools
    boot = {"base": {"op": "open", "n": "_G", "lib": "base"}, "package": {"op": "open", "n": "package", "lib": "package"},
            "string": {"op": "open", "n": "string", "lib": "string"}, "table": {"op": "open", "n": "table", "lib": "table"},
            "x": {"op": "register", "n": "x", "f": "f1"},
            "y": {"op": "preload", "n": "y", "host": True,
                  "beh": {"pre": "none", "reqs": [{"n": "x", "prot": True}], "post": "none", "fail": False, "ret": "tbl"}}}
    probes = [{"op": "req", "n": n} for n in HOSTNAMES]
    out = []
    for perm in itertools.permutations(sorted(boot)):
        if perm.index("y") < max(perm.index("base"), perm.index("package")):
            continue
        h = [boot[k] for k in perm] + probes + [{"op": "open", "n": "package", "lib": "package"}] + probes + \
            [{"op": "register", "n": "x", "f": "f2"}, {"op": "clear", "n": "y"}, {"op": "req", "n": "y"}]
        out.append(h)
    return out



# --------------------------------------------------------------------------

ALLB = "{1,2,3,4,5,6,7,8,9,10,11,12,13,14,15}"


def run(tier):
    t0 = time.time()
    verd = vlib.Verdicts(PROP)
    stats = {"states": 0, "transitions": 0, "steps_validated": 0, "compared": 0, "runs": 0, "nontrivial": 0}
    cover = {"gen": [], "samples": [], "probes": 0, "probes_running_loaders": 0, "res_classes": {}}
    vlib.build_harness()
    thorough = tier == "thorough"
    # 1. MC: laws of the reference semantics
    # (host loaders differ from Lua preload functions only in the harness, so MC leaves "H" out)
    def C(NNames, BehIdx, Srcs, Extra, MaxHist, NameSel=1, PathSel=1, Decoys="FALSE"):
        return {"NNames": str(NNames), "NameSel": str(NameSel), "PathSel": str(PathSel), "BehIdx": BehIdx, "Srcs": Srcs,
                "Decoys": Decoys, "Extra": Extra, "MaxHist": str(MaxHist)}
    DOTS = dict(NameSel=2, PathSel=2, Decoys="TRUE")
    mcs = [("all behaviours, preload and both path directories, all operations, 2 names",
            C(2, ALLB, '{"L","F1","F2"}', "TRUE", 3)),
           ("3 names, nested/cyclic/failing loaders", C(3, "{1,4,5,6,11,14}", '{"L","F1"}', "FALSE", 4 if thorough else 3)),
           ("names with 0-3 dots (quick: 0-2), 3 templates with several marks, files also at decoy names",
            C(4 if thorough else 3, "{1,2,4}" if thorough else "{1,4}", '{"L","F1","F2","F3"}', "FALSE", 3, **DOTS))]
    mcs.append(("host mode: state without libraries, base/package/string/table opened in any order (package twice), RegisterModule, "
                "PreloadModule, require", C(5, "{1,4}", '{"H"}', "FALSE", 10 if thorough else 9, NameSel=3)))
    mcs.append(("sandbox mode: global package set to nil / number / restored, package.loaders edited in place or replaced "
                "(custom / reordered / refusing / no searchers)", C(3 if thorough else 2, "{1,4,10}" if thorough else "{1,10}", '{"L","F1"}', "FALSE", 4 if thorough else 3, NameSel=4)))
    if thorough:
        mcs.append(("3 names, depth 5, require/clear/preload of value, fail, require-other, require-self",
                    C(3, "{1,4,5,6}", '{"L"}', "FALSE", 5)))
        mcs.append(("2 names, depth 4, 11 behaviours as Lua preload or file, all operations",
                    C(2, "{1,2,3,4,5,6,8,9,10,12,15}", '{"L","F1"}', "TRUE", 4)))
    # TLC jobs run side by side (two at a time, 4 workers each) while the replay proceeds
    vlib.specdir()
    pool = ThreadPoolExecutor(max_workers=2)
    mcfut = []
    # 2. GEN -> replay
    gens = [("q2-every-behaviour", C(2, ALLB, '{"L","H"}', "FALSE", 3)),
            ("q4-dotted-names-path-search", C(4, "{1}", '{"F1","F2","F3"}', "FALSE", 3, **DOTS)),
            ("q2-every-source-and-op", C(2, "{1,4,8}", '{"L","H","F1","F2"}', "TRUE", 3)),
            ("q2-depth4", C(2, "{1,2,4,6,9}", '{"L","H"}', "FALSE", 4)),
            ("q3-cycles", C(3, "{1,4,5,6,11,14}", '{"L"}', "FALSE", 4)),
            # load -> unload (package.loaded[n] = nil) -> require for every loader kind, 1 name, depth 4
            ("q1-load-unload-reload", C(1, ALLB, '{"L","H"}', "FALSE", 4)),
            ("q1-load-unload-reload-files", C(1, "{2,3,4,10,12}", '{"L","F1"}', "FALSE", 4)),
            # SkipOpenLibs: libraries opened in any order by the history
            ("q5-host-opens-libraries", C(5, "{1}", '{"H"}', "FALSE", 5, NameSel=3)),
            # global "package" hidden / restored, package.loaders edited in place or replaced
            ("q2-sandbox-hidden-package-replaced-loaders", C(2, "{1,10}", '{"L","F1"}', "FALSE", 3, NameSel=4))]
    if thorough:
        gens = [("t2-every-behaviour-depth4", C(2, ALLB, '{"L","H"}', "FALSE", 4)),
                ("t4-dotted-names-path-search", C(4, "{1,4}", '{"L","F1","F2","F3"}', "FALSE", 3, **DOTS)),
                ("t2-everything-depth3", C(2, "{1,2,3,4,5,6,8,9,10,12,15}", '{"L","H","F1","F2"}', "TRUE", 3)),
                ("t3-cycles-depth5", C(3, "{1,4,5,6}", '{"L"}', "FALSE", 5)),
                ("t3-nested-files-depth4", C(3, "{1,4,5,6,11,14}", '{"L","F1"}', "FALSE", 4)),
                ("t2-depth5", C(2, "{1,4,5,8}", '{"L","F1"}', "FALSE", 5)),
                ("t1-load-unload-reload", C(1, "{1,2,3,4,7,8,9,10,12,13,15}", '{"L","H","F1"}', "FALSE", 4)),
                ("t5-host-opens-libraries", C(5, "{1}", '{"H"}', "FALSE", 6, NameSel=3)),
                ("t2-sandbox-hidden-package-replaced-loaders", C(2, "{1,4,10}", '{"L","H","F1"}', "FALSE", 3, NameSel=4)),
                ("t3-sandbox-hidden-package-replaced-loaders", C(3, "{1,10}", '{"L","F1"}', "FALSE", 3, NameSel=4))]
    gens = [(tag, GEN_NAMES[int(c["NameSel"])][:int(c["NNames"])], c) for tag, c in gens]
    genfut = [pool.submit(vlib.run_tlc, "RequireMC", "RequireGen", consts=consts, timeout=1500, workers=4) for _, _, consts in gens]
    mcfut = [pool.submit(vlib.run_tlc, "RequireMC", "RequireMC", consts=consts, timeout=1500, workers=4) for _, consts in mcs]
    try:
        for (tag, names, consts), fut in zip(gens, genfut):
            gen_replay(tag, consts, names, verd, stats, cover, fut)
            genfut[genfut.index(fut)] = None
        mc = []
        for (what, consts), fut in zip(mcs, mcfut):
            r = fut.result()
            stats["states"] += r.distinct
            stats["transitions"] += r.generated
            mc.append({"what": what, "constants": consts, "generated": r.generated, "distinct": r.distinct})
            vlib.log("[C20] MC %s: %d generated / %d distinct states, 4 invariants + 20 step laws hold (%.0fs)" % (what, r.generated, r.distinct, r.wall))
    finally:
        pool.shutdown(wait=True, cancel_futures=True)
    # 3. TRACE: libraries opened by the host, random longer histories
    total = 0
    recs = [mkrec(i + 1, [n], 1, [{"op": "req", "n": n}], P1) for i, n in enumerate(STDLIBS)]
    recs = run_harness(recs, "stdlib")
    n, nrej, _, _ = validate_reproduced(recs, "stdlib", verd, stats)
    total += n
    vlib.log("[C20] TRACE stdlib: %d libraries opened by the host decided (require(name) == _G[name] == package.loaded[name]), %d rejected" % (n, nrej))
    hh = host_histories()
    recs = run_harness([mkrec(i + 1, HOSTNAMES, 0, h, P1, skip=True) for i, h in enumerate(hh)], "host")
    n, nrej, hkeys, hsteps = validate_reproduced(recs, "host", verd, stats)
    total += n
    vlib.log("[C20] TRACE host: %d states created with SkipOpenLibs (every admissible order of OpenBase/OpenPackage/OpenString/OpenTable/"
             "RegisterModule/PreloadModule, then require, OpenPackage again, require) decided, %d steps, %d rejected" % (n, hsteps, nrej))
    rng = random.Random(vlib.seed() * 7919 + 20)
    nrand = 12000 if thorough else 1500
    recs = []
    for i in range(nrand):
        names, path = rand_names(rng), rng.choice(RPATHS)
        sandbox = i % 5 == 4      # every fifth history: the library "package" is observed, its global hidden, package.loaders edited
        if sandbox:
            names = ["package"] + names[:3]
        recs.append(mkrec(i + 1, names, 1 if sandbox else 0, rand_hist(rng, rng.choice([8, 16, 30] if not thorough else [10, 25, 50]), names, path,
                                                     plainfam=(i % 2 == 1), sandbox=sandbox), path))
    hists = [r["h"] for r in recs]
    t1 = time.time()
    recs = run_harness(recs, "random")
    t2 = time.time()
    n, nrej, rkeys, rsteps = validate_reproduced(recs, "random", verd, stats)
    total += n
    nreq = sum(1 for r in recs for o, op in zip(r["obs"], r["h"]) if op["op"] == "req")
    nrun = sum(1 for r in recs for o in r["obs"] if o["log"])
    nnest = sum(1 for r in recs for o in r["obs"] if sum(1 for e in o["log"] if e[0] == "run") >= 2)
    distinct = set(vlib.canon_hash(h) for h in hists)
    cover["samples"].append({"config": "random", "history_prefix": hists[0][:5]})
    vlib.log("[C20] TRACE random: %d histories (%d require steps, %d steps running loaders, %d with nested loads) run in %.0fs, decided by TLC in %.0fs, %d rejected; %d of %d steps judged"
             % (n, nreq, nrun, nnest, t2 - t1, time.time() - t2, nrej, rsteps, sum(len(h) for h in hists)))
    rc = verd.finish()
    vlib.write_evidence(PROP, tier, "model_checking", {
        "states": stats["states"], "transitions": stats["transitions"],
        "traces_validated_against_impl": total + stats["runs"],
        "evaluations": stats["compared"] + stats["steps_validated"],
        "distinct_nontrivial": stats["nontrivial"] + len(distinct),
        "rule": "GEN: every history of the stated operation alphabet up to MaxHist (reductions: first operation concerns name a, "
                "no-op clears/removals skipped, adjacent installations only in increasing slot order since they commute) is exported with TLC's expected observation; maximal histories are run and every step of "
                "every prefix is compared (steps_compared = exported transitions); non-trivial = installs a loader and requires something. "
                "TRACE: seeded random histories over 4 of 10 names (0-3 dots), distinct by canonical hash, each step validated by RequireTrace.tla.",
        "gen_configs": cover["gen"], "mc_runs": mc,
        "gen_probe_steps": cover["probes"], "gen_probe_steps_running_loaders": cover["probes_running_loaders"],
        "gen_result_classes": cover["res_classes"],
        "random_histories": n, "random_histories_rejected": nrej, "random_rejected_by_case_key": rkeys, "random_steps_judged": rsteps, "random_steps_total": sum(len(h) for h in hists), "random_require_steps": nreq, "random_steps_running_loaders": nrun, "random_steps_nested_loads": nnest,
        "stdlib_names": STDLIBS, "host_order_histories": len(hh), "host_order_steps_judged": hsteps,
        "samples": cover["samples"], "exhaustive": True,
        "exhaustive_scope": "operation alphabets of gen_configs up to their MaxHist",
        "known_findings_hit": sorted(verd.known_hit),
    }, time.time() - t0, len(verd.violations), assumptions=[
        "error messages are reduced to classes by the harness (loop / not found + which searcher attempts are listed / loader's own error / "
        "name conflict / file that does not compile); their wording is not compared",
        "loaders follow the behaviour template pre-assign, nested requires, post-assign, fail, return; loaders that un-mark themselves "
        "before requiring (unbounded recursion in Lua itself) are excluded",
        "package.loaders, package.loaded and package.preload are not replaced by other tables; package.path is one of three template "
        "lists (2-4 entries, up to two marks per template, marks inside a segment) and is replaced mid-history only in the random part",
        "module names: a, b, c / names with 1-3 dots / a leading, a trailing and a doubled dot; the name-to-file conversion is the "
        "specification's (CandRaw/CandNorm): the harness writes files at paths it is given and reports the file names a message lists",
        "module()/RegisterModule/global assignment only with undotted names; package.seeall, loadlib and coroutines are not exercised",
        "host side: libraries base, package, string, table opened through the exported Open functions (as LState.OpenLibs does); after "
        "OpenPackage the harness puts package.path back; require/preload/clear are used only once base and package are open",
        "the steps of a history after its first difference are not judged (a listed finding masks the rest of the histories it occurs in)"])
    return rc


def replay(path):
    rec = json.load(open(path))
    r0 = rec["replay"]["record"]
    vlib.build_harness()
    verd = vlib.Verdicts(PROP)
    verd.findings = []
    stats = {"states": 0, "transitions": 0, "steps_validated": 0}
    again = run_harness([mkrec(r0["id"], r0["names"], r0["nb"], r0["h"], r0["path"], r0.get("skip", False))], "replay")
    validate(again, rec["replay"].get("config", "replay"), verd, stats)
    return verd.finish()
