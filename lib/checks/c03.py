"""C03 - closures keep captured variables on every exit path; globals follow fenv.
Oracle: LuaSem cells (one fresh cell per declaration execution, captured by
closures, outliving scopes) and fenv rules, evaluated by TLC."""
import json, random, time
import vlib, lsem, gen_clos, gen_core

PROP = "C03"


def run(tier):
    t0 = time.time()
    thorough = tier == "thorough"
    rng = random.Random(vlib.seed() * 11 + 3)
    fams = []
    cases = gen_clos.all_clos()
    for key, (p, root) in cases:
        fams.append(("clos", p, root, None))
    for p, root in gen_clos.goto_loop_cases():
        fams.append(("gotoloop", p, root, None))
    for p, root in gen_clos.late_capture_cases():
        fams.append(("latecapture", p, root, None))
    for p, root in gen_clos.twin_env_cases():
        fams.append(("twinenv", p, root, None))
    for p, root in gen_clos.selfref_cases():
        fams.append(("selfref", p, root, None))
    for p, root in gen_clos.retry_cases():
        fams.append(("retry", p, root, None))
    for p, root in gen_clos.env_cases(rng, 400 if thorough else 80):
        fams.append(("fenv", p, root, None))
    for i in range(2500 if thorough else 400):
        p, root, src = gen_core.gen_program(vlib.seed() * 1000000 + 300000 + i, feats={"func", "closure", "table", "goto", "pcall", "varargs"}, err_rate=0.15)
        fams.append(("randclos", p, root, src))
    progs = lsem.number(fams)
    verd, cov, allv, allo, stats = lsem.run_families(
        PROP, tier, progs,
        "capture x exit family: closure created in {block, while, repeat, repeat with captured local in the condition, numeric for, generic for, called function} x scope left by {fall-through, break, goto out, goto continue, return, tail call, error caught by pcall (error()/runtime fault/after a nested pcall), error caught by xpcall, coroutine yield then abandon, coroutine death, coroutine error()/runtime fault} x sharing {getter, incrementer+getter, closure over closure, modified after capture}, all %d valid combinations, with register churn before use, plus the same with the captured local in the function's first register; capturing functions retried after a failed protected call / dead coroutine from the same stack position with nothing else captured; fenv programs; random programs with closures" % len(cases),
        [], t0, max_steps=30000, extra_cov={"capture_exit_combinations": len(cases)})
    lsem.foot_pass(PROP, progs, verd, stats, cov)      # Frames stage 2 (specs/FramesStep.tla)
    rc = verd.finish()
    cov["known_findings_hit"] = sorted(verd.known_hit)
    vlib.write_evidence(PROP, tier, "model_checking", cov, time.time() - t0, len(verd.violations), assumptions=[
        "closure observations are made through emit after register churn (calls with many arguments/locals)",
        "yield across pcall/metamethods is not generated (Lua 5.1 rejects it)"])
    return rc


def replay(path):
    rec = json.load(open(path))
    if rec["replay"].get("foot"):
        return lsem.replay_foot(PROP, rec)
    p = rec["replay"]["program"]
    verd = vlib.Verdicts(PROP)
    verd.findings = []
    lsem.decide(PROP, [p], "replay", verd, {"states": 0, "transitions": 0}, {}, [], max_steps=30000)
    return verd.finish()


def selftest():
    return lsem.selftest(PROP, lsem.number([("clos", p, root, None) for key, (p, root) in gen_clos.all_clos()[:150]]))
