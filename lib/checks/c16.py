"""C16 - text <-> value round trips: literals, %q, tostring/tonumber, numeral readers, dates.

MC   : TLC checks the laws of specs/Lexical.tla (Denote(Quote(s)) = s, every literal form
       denotes the intended bytes, numeral laws, Numeral(IntToStr(n)) = n) and of
       specs/Calendar.tla (SecondsOf(Fields(t)) = t, successor law, closed-form cross-check).
BIND : GEN direction - TLC enumerates literal texts / numeral spellings / instants and prints
       what they must denote; the harness feeds the same inputs to the real interpreter
       (lexer, tonumber, tonumber with base, arithmetic coercion, os.date, os.time) and the
       observed results must equal the printed ones.
       TRACE direction - what the real string.format('%q') and tostring produced is
       validated by TLC (LexicalTrace.tla: Denote / Numeral / IntToStr2 of the real text).
Python only moves data, selects inputs and names the case keys."""
import json, os, random, re, threading, time
from concurrent.futures import ThreadPoolExecutor
import vlib

PROP = "C16"
W = 8                       # TLC workers per run (other jobs share the machine)
BASES = [2, 8, 16, 36]
STR_ALPHA = [0, 10, 13, 34, 39, 48, 92, 93, 97, 255]
NUM_ALPHA = [48, 49, 57, 120, 88, 97, 102, 101, 69, 46, 45, 43, 32, 95]
COERCE = ("add", "radd", "unm", "chk")


def S(b):
    """bytes (list of ints) -> printable python repr"""
    return repr(bytes(b))[1:]


# ---------------------------------------------------------------------------
# harness plumbing

def harness(sub, payload, tag, env=None, timeout=1200):
    sd = vlib.subdir("c16")
    inp = os.path.join(sd, "%s_in.json" % tag)
    outp = os.path.join(sd, "%s_out.ndjson" % tag)
    with open(inp, "w") as f:
        json.dump(payload, f, separators=(",", ":"))
    vlib.run_harness([sub, "--in", inp, "--out", outp], timeout=timeout, env=env)
    recs = vlib.read_ndjson(open(outp).read())
    os.remove(inp)
    os.remove(outp)
    return recs


def tlc_gen(mode, maxlen=0, file=None, nchunks=1, timeout=1500):
    r = vlib.run_tlc("LexicalGen", "LexicalGen", workers=W, timeout=timeout, heap="8g",
                     consts={"Mode": '"%s"' % mode, "MaxLen": maxlen, "File": '"%s"' % (file or ""), "NChunks": nchunks})
    return r


def tlc_file(records, tag, stats):
    """expected values (Lexical.tla) for explicit inputs: {id,k:'num',s} / {id,k:'lit',t}"""
    if not records:
        return {}
    fn = "c16_%s.ndjson" % tag
    vlib.write_ndjson(os.path.join(vlib.specdir(), fn), records)
    r = tlc_gen("file", file=fn, nchunks=max(1, min(64, len(records) // 200)))
    os.remove(os.path.join(vlib.specdir(), fn))
    add_stats(stats, r)
    g = {x["id"]: x for x in r.tag("GEN")}
    if len(g) != len(records):
        raise vlib.Infra("LexicalGen file mode: %d results for %d records (%s)" % (len(g), len(records), tag))
    return g


_lock = threading.Lock()


def add_stats(stats, r):
    with _lock:
        stats["states"] += r.distinct
        stats["transitions"] += r.generated


class Collect:
    """stands in for vlib.Verdicts while the parts run side by side; the candidates are handed to the
    real Verdicts afterwards in a fixed order (deterministic replay files and output)"""

    def __init__(self):
        self.items = []

    def candidate(self, key, what, replay):
        self.items.append((key, what, replay))


# ---------------------------------------------------------------------------
# part A: string literals

def feature(b):
    for name, test in (("nul", lambda c: c == 0), ("cr", lambda c: c == 13), ("lf", lambda c: c == 10),
                       ("high-byte", lambda c: c >= 128), ("backslash", lambda c: c == 92),
                       ("quote", lambda c: c in (34, 39)), ("bracket", lambda c: c in (91, 93))):
        if any(test(c) for c in b):
            return name
    return "plain"


def lit_feature(text):
    """the most exotic lexical feature of a literal source text: the case key names only this one,
    so that one defect class gets one key"""
    t = bytes(text)
    body = t[1:-1] if t[:1] in (b'"', b"'") else t
    if t[:1] == b"[" and re.search(rb"\]=+[\r\n]", t[2:]):
        return "near-closer-before-line-end"
    if b"\r\n" in t or b"\n\r" in t:
        return "newline-pair"
    if b"\r" in t:
        return "cr"
    short = t[:1] in (b'"', b"'")
    if short:
        esc = set()
        i = 0
        while i < len(body):
            if body[i] == 92:
                n = body[i + 1] if i + 1 < len(body) else None
                esc.add("esc-eof" if n is None else "esc-decimal" if 48 <= n <= 57 else "esc-newline" if n == 10
                        else "esc-named" if n in b"abfnrtv" else "esc-quote" if n in b"\\\"'" else "esc-other")
                i += 2
            else:
                i += 1
        for k in ("esc-decimal", "esc-newline", "esc-named", "esc-other", "esc-eof", "esc-quote"):
            if k in esc:
                return k
    if 0 in t:
        return "nul"
    if any(c >= 128 for c in t):
        return "high-byte"
    if 10 in body:
        return "lf"
    if not short and (b"]" in t[2:-2] or b"[" in t[2:-2]):
        return "inner-bracket"
    return "plain"


def obs_kind(r):
    if r[0] == "err":
        return "rejected"
    if r[0] == "s":
        return "wrong-bytes"
    return "wrong-type"


def part_literals(thorough, verd, stats, cov):
    t0 = time.time()
    # (i) every byte string over StrAlpha in every literal form that denotes it
    r = tlc_gen("lit", maxlen=4 if thorough else 3)
    add_stats(stats, r)
    cases, meta = [], []
    for g in sorted(r.tag("GEN"), key=lambda g: (len(g["s"]), g["s"])):
        forms = g["forms"] if isinstance(g["forms"], dict) else {}
        for F, text in sorted(forms.items()):
            cases.append({"id": len(cases), "src": text})
            meta.append(("form", F, g["s"], text, "ok"))
    nforms = len(cases)
    # (ii) literal source texts built from atoms, with what they denote
    r = tlc_gen("src", maxlen=3 if thorough else 2)
    add_stats(stats, r)
    seen = set()
    for g in sorted(r.tag("GEN"), key=lambda g: (len(g["c"][0]["t"]), g["c"][0]["t"])):
        for c in g["c"]:
            key = bytes(c["t"])
            if key in seen or c["kind"] == "partial":
                continue
            seen.add(key)
            cases.append({"id": len(cases), "src": c["t"]})
            meta.append(("src", "", c["v"], c["t"], c["kind"]))
    # (ii') long brackets with near-closers ("]", "]=", "]==" ... of lower, equal-but-unterminated and higher level)
    # directly before every kind of line end / other text / the end of the body
    r = tlc_gen("nc")
    add_stats(stats, r)
    nc = [c for g in r.tag("GEN") for c in g["c"].values()]
    for c in sorted(nc, key=lambda c: (len(c["t"]), c["t"])):
        key = bytes(c["t"])
        if key in seen or c["kind"] == "partial":
            continue
        seen.add(key)
        cases.append({"id": len(cases), "src": c["t"]})
        meta.append(("nc", "", c["v"], c["t"], c["kind"]))
    # (iii) seeded random source texts (expected value via the file mode of the spec)
    rng = random.Random(vlib.seed() * 1000003 + 16)
    pool = [92, 92, 34, 39, 10, 13, 48, 49, 50, 53, 57, 97, 110, 114, 120, 91, 93, 61, 0, 255, 32, 45]
    recs = []
    for i in range(6000 if thorough else 1200):
        body = [rng.choice(pool) for _ in range(rng.randint(0, 9))]
        o, c = rng.choice([([34], [34]), ([39], [39]), ([91, 91], [93, 93]), ([91, 61, 91], [93, 61, 93]),
                           ([91, 61, 61, 91], [93, 61, 61, 93])])
        recs.append({"id": i, "k": "lit", "t": o + body + c})
    exp = tlc_file(recs, "rlit", stats)
    for rec in recs:
        e = exp[rec["id"]]
        if e["kind"] == "partial" or bytes(rec["t"]) in seen:
            continue
        seen.add(bytes(rec["t"]))
        cases.append({"id": len(cases), "src": rec["t"]})
        meta.append(("rsrc", "", e["v"], rec["t"], e["kind"]))
    t1 = time.time()
    out = harness("c16-lit", {"cases": cases}, "lit")
    if len(out) != len(cases):
        raise vlib.Infra("c16-lit returned %d results for %d cases" % (len(out), len(cases)))
    judged = lenient = unspec = 0
    lenient_samples = []
    for o, (origin, F, val, text, kind) in zip(out, meta):
        if "panic" in o:
            verd.candidate("C16:lit:go-panic", "Go panic while loading `return %s`: %s" % (S(text), o["panic"]),
                           {"part": "lit", "text": text})
            continue
        obs = o["r"]
        if kind == "unspec":
            unspec += 1
            continue
        if kind == "invalid":
            # a text the grammar does not accept (llex.c reports an error) must be rejected, not read as other bytes
            judged += 1
            if obs[0] != "err":
                lenient += 1
                if len(lenient_samples) < 6:
                    lenient_samples.append({"text": S(text), "observed": obs})
                feat = "decimal-escape-above-255" if re.search(rb"\\(2[6-9]\d|2[5][6-9]|[3-9]\d\d)", bytes(text)) and text[0] in (34, 39) \
                    else lit_feature(text)
                verd.candidate("C16:lit:%s:invalid-accepted:%s" % ("short" if text[0] in (34, 39) else "long", feat),
                               "`return %s` is not a literal of the grammar (llex.c: error) and must be rejected; the interpreter gave %s"
                               % (S(text), json.dumps(obs)[:160]), {"part": "lit", "text": text, "expected": "invalid", "observed": obs})
            continue
        judged += 1
        if obs != ["s", val]:
            key = "C16:lit:%s:%s:%s" % ("short" if text[0] in (34, 39) else "long", obs_kind(obs), lit_feature(text))
            verd.candidate(key, "`return %s` must yield %s, the interpreter gave %s" % (S(text), S(val), json.dumps(obs)[:200]),
                           {"part": "lit", "text": text, "expected": val, "observed": obs})
    cov["literals"] = {"cases_run": len(cases), "judged": judged, "form_cases": nforms,
                       "source_text_cases": len(cases) - nforms,
                       "reference_rejects_but_accepted": lenient, "lenient_samples": lenient_samples,
                       "unspecified_not_judged": unspec}
    vlib.log("[C16] literals: %d texts (%d form renderings, %d source texts) run, %d judged; TLC %.1fs harness %.1fs"
             % (len(cases), nforms, len(cases) - nforms, judged, t1 - t0, time.time() - t1))
    return judged


# ---------------------------------------------------------------------------
# part B (%q) and D (tostring): real output validated by LexicalTrace

def utf8_specials():
    out = []
    for cp in (0x7f, 0x80, 0xa0, 0xad, 0xe9, 0x3b1, 0x2028, 0x2029, 0xfeff, 0xfffd, 0xffff, 0x1f600, 0x10ffff, 0xe000):
        out.append(list(chr(cp).encode("utf-8")))
    out += [[0xc3], [0xc3, 0x28], [0xe2, 0x82], [0xf0, 0x9f, 0x98], [0xed, 0xa0, 0x80], [0xc0, 0x80], [0xff, 0xfe]]
    return out


def q_inputs(thorough, rng):
    ins = [[]]
    for n in (1, 2, 3):
        def rec(p, n=n):
            if len(p) == n:
                ins.append(list(p))
                return
            for c in STR_ALPHA:
                rec(p + [c])
        rec([])
    ins += [[b] for b in range(256)]
    ins += [[97, b, 49] for b in range(256)]          # a byte followed by a digit (\ddd ambiguity)
    ins += utf8_specials()
    for _ in range(4000 if thorough else 600):
        ins.append([rng.randrange(256) if rng.random() < 0.6 else rng.choice(STR_ALPHA) for _ in range(rng.randint(2, 10))])
    return ins


def q_key(rec, v):
    q = bytes(rec["q"])
    if v["why"] == "quote":
        if re.search(rb"\\x[0-9a-f]{2}|\\u[0-9a-f]{4}|\\U[0-9a-f]{8}", q):
            return "C16:%q:go-style-escape"
        return "C16:%q:quote:" + feature(rec["s"])
    return "C16:%q:readback:" + feature(rec["s"])


def pow2_grid():
    xs = set()
    for k in range(0, 54):
        for d in (-1, 0, 1):
            xs.add(2 ** k + d)
    for k in range(0, 16):
        for d in (-1, 0, 1):
            xs.add(10 ** k + d)
    xs |= {2 ** 53 - 1, 2 ** 53 - 2, 2 ** 31, 2 ** 32, 2 ** 63 // 1024, 123456789012345, 99999999, 100000000, 100000001}
    return sorted(x for x in xs if 0 <= x < 2 ** 53)


def ts_inputs(thorough, rng):
    cases = []
    for x in pow2_grid():
        for neg in ((False, True) if x else (False,)):
            cases.append({"k": "ti", "neg": neg, "hi": x // 10 ** 8, "lo": x % 10 ** 8})
    for _ in range(3000 if thorough else 250):
        x = rng.randrange(2 ** rng.randint(1, 53))
        cases.append({"k": "ti", "neg": rng.random() < 0.5, "hi": x // 10 ** 8, "lo": x % 10 ** 8})
    # dyadic rationals m * 2^e whose decimal expansion has at most 9 significant digits
    seen = set()
    for e in range(-9, 0):
        ms = list(range(1, 64, 2)) + [rng.randrange(1, 2 ** 20, 2) for _ in range(60 if thorough else 12)]
        for m in ms:
            if m * 5 ** (-e) < 10 ** 9 and (m, e) not in seen:
                seen.add((m, e))
                cases.append({"k": "tf", "m": m, "e": e})
                cases.append({"k": "tf", "m": -m, "e": e})
    # arbitrary finite float64 values: round trip and well-formedness of the printed numeral
    specials = [0x0000000000000001, 0x000fffffffffffff, 0x0010000000000000, 0x7fefffffffffffff, 0x3fb999999999999a,
                0x3fd5555555555555, 0x4340000000000000, 0x433fffffffffffff, 0x43e0000000000000, 0x4415af1d78b58c40,
                0x3ff0000000000001, 0x400921fb54442d18, 0x3e112e0be826d695, 0x44b52d02c7e14af6, 0x3f1a36e2eb1c432d]
    for b in specials:
        cases.append({"k": "tr", "bits": "%016x" % b})
        cases.append({"k": "tr", "bits": "%016x" % (b | 1 << 63)})
    for _ in range(20000 if thorough else 1500):
        b = rng.getrandbits(64)
        if (b >> 52) & 0x7ff == 0x7ff:
            continue
        cases.append({"k": "tr", "bits": "%016x" % b})
    for i, c in enumerate(cases):
        c["id"] = i
    return cases


def magnitude(c):
    if c["k"] == "ti":
        x = c["hi"] * 10 ** 8 + c["lo"]
        return "int<2^31" if x < 2 ** 31 else ("int<2^53" if x < 2 ** 53 else "int>=2^53")
    return {"tf": "dyadic-fraction", "tr": "float64"}[c["k"]]


def part_trace(thorough, verd, stats, cov):
    t0 = time.time()
    rng = random.Random(vlib.seed() * 7919 + 161)
    qin = q_inputs(thorough, rng)
    qout = harness("c16-q", {"cases": [{"id": i, "s": s} for i, s in enumerate(qin)]}, "q")
    tin = ts_inputs(thorough, rng)
    tout = harness("c16-ts", {"cases": tin}, "ts")
    if len(qout) != len(qin) or len(tout) != len(tin):
        raise vlib.Infra("c16-q / c16-ts: result count mismatch")
    recs, back = [], {}
    for o in qout:
        if "panic" in o:
            verd.candidate("C16:%q:go-panic", "Go panic in string.format('%%q', %s): %s" % (S(qin[o["id"]]), o["panic"]),
                           {"part": "q", "s": qin[o["id"]]})
            continue
        rec = {"id": len(recs), "k": "q", "s": o["s"], "q": o["q"], "rb": o["rb"], "back": o["back"]}
        back[rec["id"]] = ("q", o)
        recs.append(rec)
    nq = len(recs)
    for o, c in zip(tout, tin):
        if "panic" in o:
            verd.candidate("C16:tostring:go-panic", "Go panic printing %s: %s" % (json.dumps(c), o["panic"]), {"part": "ts", "case": c})
            continue
        for p in o["outs"]:
            rec = {"id": len(recs), "k": c["k"], "text": p["text"], "rt": p["rt"]}
            for f in ("neg", "hi", "lo", "m", "e"):
                if f in c:
                    rec[f] = c[f]
            back[rec["id"]] = ("ts", c, p, o["x"])
            recs.append(rec)
    t1 = time.time()
    nval = unmod = 0
    for r in vlib.validate_batches("LexicalTrace", "LexicalTrace", recs, "c16_tr", batch=6000, parallel=3, timeout=900):
        add_stats(stats, r)
        vs = r.tag("VERDICT")
        if len(vs) != r.nrecords:
            raise vlib.Infra("LexicalTrace: %d verdicts for %d records" % (len(vs), r.nrecords))
        for v in sorted(vs, key=lambda v: v["id"]):
            nval += 1
            b = back[v["id"]]
            if v["ok"]:
                unmod += v["why"] == "unmodelled"
                continue
            if b[0] == "q":
                o = b[1]
                verd.candidate(q_key(o, v), "string.format('%%q', %s) gave %s: %s%s" % (
                    S(o["s"]), S(o["q"]), v["msg"], (" (" + o["err"][:120] + ")") if o.get("err") else ""),
                    {"part": "q", "s": o["s"], "q": o["q"], "back": o["back"], "verdict": v})
            else:
                _, c, p, x = b
                txt = bytes(p["text"]).decode("latin-1")
                if v["why"] == "roundtrip" and re.match(r"^-?\d+e[+-]\d+$", txt):
                    key = "C16:tostring:roundtrip:printed-exponent-without-dot-not-read-by-tonumber"
                else:
                    key = "C16:tostring:%s:%s" % (v["why"], magnitude(c))
                verd.candidate(key,
                               "%s of %s printed %s: %s" % (p["path"], json.dumps(c), S(p["text"]), v["msg"]),
                               {"part": "ts", "case": c, "out": p, "verdict": v})
    cov["quote"] = {"strings": nq, "rule": "all strings of length <= 3 over %s, all 256 single bytes alone and before a digit, "
                    "UTF-8 special sequences, seeded random byte strings" % STR_ALPHA}
    cov["tostring"] = {"values": len(tin), "printed_texts_validated": len(recs) - nq, "unmodelled_value_only_roundtrip": unmod,
                       "by_kind": {k: sum(1 for c in tin if c["k"] == k) for k in ("ti", "tf", "tr")}}
    vlib.log("[C16] %%q: %d strings, tostring: %d values / %d printed texts; validated by LexicalTrace (%d records); harness %.1fs TLC %.1fs"
             % (nq, len(tin), len(recs) - nq, nval, t1 - t0, time.time() - t1))
    return nval


# ---------------------------------------------------------------------------
# part C: numerals

BLANKS = {9: "tab", 10: "lf", 11: "vt", 12: "ff", 13: "cr", 32: "space"}


def shape(b):
    out = []
    for c in b:
        ch = chr(c)
        if ch == "0":
            k = "0"
        elif ch.isdigit():
            k = "9"
        elif ch in "eE":
            k = "e"
        elif ch in "xX":
            k = "x"
        elif ch in "abcdfABCDF":
            k = "a"
        elif c in BLANKS:
            k = "<%s>" % BLANKS[c]
        elif 33 <= c < 127:
            k = ch
        else:
            k = "<%d>" % c
        if not out or out[-1] != k or k in "+-.":
            out.append(k)
    return "".join(out)


def num_key(reader, s, exp, obs):
    grp = {"lex": "lexer", "ton": "tonumber", "ton10": "tonumber", "tonb": "tonumber-base", "for": "forloop"}.get(reader, "coerce")
    raw = bytes(s)
    core = raw.strip(b" \t\n\v\f\r")
    txt = core.decode("latin-1")
    rejected = obs[0] in ("nil", "err")
    if obs[0] == "panic":
        return "C16:num:%s:go-panic" % grp
    expn = re.match(r"^[+-]?(?:\d+\.?\d*|\.\d+)[eE]([+-]?\d+)$", txt)
    if obs[0] == "nan":
        if exp[0] == "bad":
            return "C16:num:%s:malformed-numeral-yields-NaN" % grp
        return "C16:num:%s:out-of-range-numeral-yields-NaN" % grp
    if exp[0] in ("v", "valid") and rejected:
        if re.match(r"^0[xX][0-9a-fA-F]{17,}$", txt):
            return "C16:num:%s:hex-beyond-64-bits-rejected" % grp
        if grp == "tonumber-base" and re.match(r"^[+-]?0[xX][0-9a-fA-F]+$", txt):
            return "C16:num:tonumber-base:0x-prefix-with-base-16-rejected"
        if any(c in raw for c in b"\v\f\r") and not any(c in core for c in b"\v\f\r"):
            return "C16:num:%s:blank-cr-vt-ff-not-skipped" % grp
        if reader == "ton10" and re.match(r"^0[xX][0-9a-fA-F]+$", txt):
            return "C16:num:tonumber:hex-rejected-with-explicit-base-10"
        if grp == "tonumber" and expn and "." not in txt:
            return "C16:num:tonumber:exponent-without-dot-rejected"
        if expn and abs(int(expn.group(1))) >= 300:
            return "C16:num:%s:out-of-range-exponent-rejected" % grp
        if re.match(r"^0[xX][0-9a-fA-F]{17,}$", txt):
            return "C16:num:%s:hex-beyond-64-bits-rejected" % grp
        if re.match(r"^[+-]?\d{19,}$", txt):
            return "C16:num:%s:integer-beyond-int64-rejected" % grp
        return "C16:num:%s:rejects:%s" % (grp, shape(core))
    if exp[0] == "v":
        if re.match(r"^[+-]?0\d", txt):
            return "C16:num:%s:leading-zero-read-as-octal" % grp
        return "C16:num:%s:wrong-value:%s" % (grp, shape(core))
    if exp[0] == "bad":
        if any(c >= 128 or 0x1c <= c <= 0x1f for c in core):
            return "C16:num:%s:non-C-blank-skipped" % grp      # e.g. UTF-8 NBSP trimmed by strings.TrimSpace
        if grp == "tonumber-base" and "." in txt:
            return "C16:num:tonumber-base:fraction-accepted-base-ignored"
        if b"_" in core:
            return "C16:num:%s:underscore-accepted" % grp
        if re.match(r"^[+-]?0[bBoO]", txt):
            return "C16:num:%s:0b-0o-prefix-accepted" % grp
        if re.match(r"^0[xX][+-]", txt):
            return "C16:num:%s:sign-after-0x-accepted" % grp
        return "C16:num:%s:accepts:%s" % (grp, shape(core))
    return "C16:num:%s:other:%s" % (grp, shape(core))


READER_NAMES = {"ton": "tonumber(s)", "ton10": "tonumber(s,10)", "add": "s+0", "radd": "0+s", "unm": "-(-s)",
                "chk": "math.max(s)", "lex": "lexer: return <s>", "for": "for i=s,s,0"}


def numeral_failures(e, o, cnt):
    """compares what every reader returned for one spelling (o, from the harness) with what Lexical.tla
    says (e); returns the candidates (key, what, replay)"""
    s = e["s"]
    if "panic" in o:
        return [("C16:num:go-panic", "Go panic reading %s: %s" % (S(s), o["panic"]), {"part": "num", "s": s})]
    fails = []
    obs_all = [(rd, e["n"], o[rd]) for rd in ("ton", "ton10") + COERCE]
    if "for" in o:
        # numeric for-loop bounds (for i = s, s, 0: with step 0 the control variable is exactly the converted
        # init): one more reader, it must agree like the others (gopher-lua converts strings there since a9ad211)
        if o["for"][0] in ("nil", "err"):
            cnt["forloop_no_coercion"] = cnt.get("forloop_no_coercion", 0) + 1
        else:
            obs_all.append(("for", e["n"], o["for"]))
    if "lex" in o:
        lx = o["lex"]
        obs_all.append(("lex", e["lx"], ["err"] if lx[0] == "err" and lx[1] == "load" else lx))
    obs_all += [("tonb", e["b"][j], o["b"][j], BASES[j]) for j in range(len(BASES))]
    agree = {}
    for item in obs_all:
        rd, ex, ob = item[0], item[1], item[2]
        cnt["evals"] += 1
        if ex[0] in ("unspec", "skip"):
            cnt["unspec"] += 1
            continue
        cnt["judged"] += 1
        rdname = READER_NAMES[rd] if rd != "tonb" else "tonumber(s,%d)" % item[3]
        bad = None
        if ex[0] == "bad":
            if rd == "lex" and ob[0] not in ("nil", "err", "v", "x", "inf", "nan"):
                cnt["retok"] += 1   # e.g. `0...0` read as 0. .. 0: not taken as a numeral; tokenisation is not C16's subject
            elif ob[0] not in ("nil", "err"):
                bad = "is not a numeral and must be rejected"
        elif ex[0] == "v":
            if ob != ex:
                bad = "must be %d*2^%d" % (ex[1], ex[2])
        else:   # valid numeral, value outside the integer model: accept, and agree with the other readers
            if ob[0] not in ("v", "x", "inf"):
                bad = "is a numeral (value outside the spec's integer model) and must be accepted"
            elif rd != "tonb":
                agree.setdefault(json.dumps(ob), []).append(rdname)
        if bad:
            fails.append((num_key(rd, s, ex, ob), "%s: %s %s; observed %s" % (rdname, S(s), bad, json.dumps(ob)[:120]),
                          {"part": "num", "s": s, "reader": rdname, "expected": ex, "observed": ob}))
    if len(agree) > 1:
        fails.append(("C16:num:readers-disagree:%s" % shape(bytes(s).strip()),
                      "readers disagree on the value of %s: %s" % (S(s), json.dumps(agree)[:300]),
                      {"part": "num", "s": s, "observed": agree}))
    return fails


# byte sequences some libraries take for white space although C's isspace ("C" locale) does not: UTF-8 encoded
# Unicode spaces (Go's strings.TrimSpace / unicode.IsSpace), the lone bytes of NEL / NBSP, ASCII separators
# 0x1c-0x1f (Python's str.strip).  Lexical.tla: none of them is a blank, so a spelling that contains one is no numeral.
NON_C_BLANKS = [[0xc2, 0x85], [0xc2, 0xa0], [0xe1, 0x9a, 0x80]] + [[0xe2, 0x80, b] for b in range(0x80, 0x8b)] + \
               [[0xe2, 0x80, 0xa8], [0xe2, 0x80, 0xa9], [0xe2, 0x80, 0xaf], [0xe2, 0x81, 0x9f], [0xe3, 0x80, 0x80],
                [0xef, 0xbb, 0xbf], [0x85], [0xa0], [0x1c], [0x1d], [0x1e], [0x1f]]


def tonumber_calls(verd, stats, rng, thorough, only=None):
    """tonumber(arg, base): string or integral number as first argument, every base -2..40 (also as a numeric
    string); expected results from Lexical.tla ToNumberStr / ToNumberNum (lbaselib.c luaB_tonumber)."""
    if only is None:
        strs = ["10", "ff", "FF", "Ff", "zz", "Zz", "7", "8", "19", "1a", "g", "0", "00", "", " ", " 10", "10 ", "\t10\n", " 1 0", "10x", "1.0",
                "1e1", "0x10", "0X1f", "0x", "0xg", "x10", "-ff", "+ff", "-0", "+0", "-", "+", "- 1", "--1", "1-", "11", "101", "777", "z",
                "\v11\f", "11\r", "0x 1", "0x-1", " +0x1F ", "-0x1"]
        recs = [{"k": "tnb", "s": list(t.encode()), "b": b, "bstr": False} for t in strs for b in range(-2, 41)]
        recs += [{"k": "tnb", "s": list(t.encode()), "b": b, "bstr": True} for t in strs[:12] for b in (2, 8, 10, 16, 36, 1, 37)]
        nums = [0, 1, 7, 8, 9, 10, 11, 15, 16, 19, 77, 100, 101, 255, 1000, 65535, 123456, -1, -10] + \
               [rng.randrange(0, 10 ** rng.randint(1, 7)) for _ in range(80 if thorough else 20)]
        recs += [{"k": "tnn", "n": n, "b": b, "bstr": False} for n in nums for b in (0, 1, 2, 8, 9, 10, 11, 16, 36, 37)]
    else:
        recs = [only]
    for i, r in enumerate(recs):
        r["id"] = i
    exp = tlc_file(recs, "tnb", stats)
    out = harness("c16-tnb", {"cases": recs}, "tnb")
    if len(out) != len(recs):
        raise vlib.Infra("c16-tnb returned %d results for %d cases" % (len(out), len(recs)))
    for rec, o in zip(recs, out):
        ex, ob = exp[rec["id"]]["r"], o.get("r", ["panic"])
        arg = S(rec["s"]) if rec["k"] == "tnb" else str(rec["n"])
        call = "tonumber(%s, %s)" % (arg, ('"%d"' if rec["bstr"] else "%d") % rec["b"])
        if ex[0] == "unspec":
            continue
        key = what = None
        if ex[0] == "argerr":
            if ob[0] != "err":
                key, what = "C16:num:tonumber-base:base-out-of-range-not-an-error", "must raise 'base out of range'"
        elif ex[0] == "bad":
            if ob[0] != "nil":
                key, what = "C16:num:tonumber-base:%s" % ("number-argument-not-converted-through-its-text" if rec["k"] == "tnn" else "accepts:" + shape(bytes(rec["s"]).strip())), "must be nil"
        elif ob != ex:
            txt = bytes(rec.get("s", [])).strip().decode("latin-1")
            cls = "number-argument-not-converted-through-its-text" if rec["k"] == "tnn" else \
                  "0x-prefix-with-base-16-rejected" if re.match(r"^[+-]?0[xX]", txt) and rec["b"] == 16 else \
                  "base-as-string" if rec["bstr"] else "value:" + shape(txt.encode("latin-1"))
            key, what = "C16:num:tonumber-base:%s" % cls, "must be %s" % json.dumps(ex)
        if key:
            verd.candidate(key, "%s %s; observed %s" % (call, what, json.dumps(ob)[:120]),
                           {"part": "tnb", "case": {k: v for k, v in rec.items() if k != "id"}, "expected": ex, "observed": ob})
    return len(recs)


def hand_numerals():
    base = ["1", "10", "0x10", "1.5", "1e1", ".5", "5.", "0"]
    out = []
    for b in NON_C_BLANKS:
        for n in ("17", "11", "0x11", "1.5", "1e1", "-17"):
            n = list(n.encode())
            out += [b + n, n + b, b + n + b, n[:1] + b + n[1:], b + [32] + n, [32] + b + n, n + [32] + b, n + b + [32],
                    [9] + b + [10] + n + [13] + b]
    for b in base:
        for bl in (9, 10, 11, 12, 13, 32):
            out += [[bl] + list(b.encode()), list(b.encode()) + [bl], [bl, bl] + list(b.encode()) + [bl]]
    for t in ["inf", "nan", "Inf", "NaN", "infinity", "-inf", "-nan", "nan(1)", "0b1", "0B11", "0o7", "0O17", "1_000", "0x_1", "0_1",
              "1p1", "0x1p1", "0x1P-1", "0x.8p1", "0x1.8", "1e1_0", "1__0", "_1", "1_", "0x1_f", "1e_1",
              "9223372036854775807", "9223372036854775808", "18446744073709551615", "18446744073709551616",
              "-9223372036854775808", "-9223372036854775809", "1" + "0" * 30, "0" * 25 + "1", "0x7fffffff", "0xffffffff", "0XFFFFFFFF", "0xffffffffffffffff", "0x10000000000000000", "0X1" + "0" * 24,
              " 0xfffffffffffffffff ", "0x123456789abcdef0123",
              "2147483647", "2147483648", "4294967296", "9007199254740993", "1e308", "1e309", "1.0e309", "-1.5e999", "1e-400", "1.0e-400",
              "1.7976931348623157e308",
              "4.9e-324", "123456789", "1234567890", "00000000012", "0012", "-0012", "+0012", "0012.5", "0012e1", "08", "09", "-010",
              "1e+05", "1E-05", "1.25e2", "125e-2", "15e-1", "3.", "3.e0", ".5e1", "5e-1", "0.5", "0.25", "0.125", "0.1", "1e", "1e+", ".",
              "", " ", "-", "+", "- 1", "--1", "+-1", "1 1", "0x", "0xg", "x10", "0x 1", "0x-1", "0x+1", "-0x10", "+0x10", "1f", "1d",
              "1.5.5", "1..5", "1e1.5", "1e1e1", "1,5", "1;", "10#", "$1", "1\x001", "1\x00"]:
        out.append(list(t.encode("latin-1")))
    return out


def part_numerals(thorough, verd, stats, cov):
    t0 = time.time()
    r = tlc_gen("num", maxlen=5 if thorough else 4)
    add_stats(stats, r)
    exp = sorted(r.tag("GEN"), key=lambda g: (len(g["s"]), g["s"]))
    nexh = len(exp)
    # explicit and seeded random longer spellings: expected values from the same spec (file mode)
    rng = random.Random(vlib.seed() * 104729 + 1616)
    extra = hand_numerals()
    for _ in range(60000 if thorough else 6000):
        n = rng.randint(5, 9) if not thorough else rng.randint(6, 10)
        extra.append([rng.choice(NUM_ALPHA) for _ in range(n)])
    for _ in range(4000 if thorough else 800):     # well-formed shapes
        ip = "".join(rng.choice("0019") for _ in range(rng.randint(0, 4)))
        fp = rng.choice(["", ".", "." + "".join(rng.choice("0125") for _ in range(rng.randint(1, 3)))])
        ep = rng.choice(["", "", "e%d" % rng.randint(0, 12), "E-%d" % rng.randint(0, 5), "e+%d" % rng.randint(0, 9)])
        sg = rng.choice(["", "", "-", "+"])
        pad = rng.choice(["", "", " ", "\t", "\n"])
        extra.append(list((pad + sg + ip + fp + ep + rng.choice(["", "", " "])).encode()))
    seen = {bytes(e["s"]) for e in exp}
    recs = []
    for s in extra:
        if bytes(s) not in seen:
            seen.add(bytes(s))
            recs.append({"id": len(recs), "k": "num", "s": s})
    fexp = tlc_file(recs, "xnum", stats)
    exp += [fexp[i] for i in range(len(recs))]
    t1 = time.time()
    cases = [{"id": i, "s": e["s"], "lex": e["lx"] != ["skip"]} for i, e in enumerate(exp)]
    out = harness("c16-num", {"cases": cases, "bases": BASES}, "num", timeout=1800)
    if len(out) != len(cases):
        raise vlib.Infra("c16-num returned %d results for %d cases" % (len(out), len(cases)))
    t2 = time.time()
    cnt = {"evals": 0, "judged": 0, "unspec": 0, "retok": 0}
    nontrivial = 0
    samples = []
    for e, o in zip(exp, out):
        s = e["s"]
        if e["n"][0] in ("v", "valid") or e["lx"][0] in ("v", "valid"):
            nontrivial += 1
            if len(samples) < 4 and len(s) >= 4 and e["n"][0] == "v" and "panic" not in o:
                samples.append({"s": S(s), "expected": e["n"], "tonumber": o["ton"], "s+0": o["add"], "lexer": o.get("lex")})
        for item in numeral_failures(e, o, cnt):
            verd.candidate(*item)
    evals, judged, unspec, retok = cnt["evals"], cnt["judged"], cnt["unspec"], cnt["retok"]
    ntnb = tonumber_calls(verd, stats, rng, thorough)
    cov["tonumber_arg_base_calls"] = ntnb
    cov["numerals"] = {"spellings": len(exp), "exhaustive_spellings": nexh,
                       "exhaustive_rule": "all byte strings of length <= %d over %s" % (5 if thorough else 4, S(NUM_ALPHA)),
                       "reader_evaluations": evals, "judged": judged, "unspecified_not_judged": unspec,
                       "spellings_that_are_numerals": nontrivial,
                       "malformed_token_split_into_other_tokens_not_judged": retok,
                       "forloop_bound_not_coerced_not_judged": cnt.get("forloop_no_coercion", 0),
                       "readers": ["tonumber(s)", "tonumber(s,10)", "s+0", "0+s", "-(-s)", "math.max(s)", "lexer: return <s>", "for i=s,s,0"] +
                                  ["tonumber(s,%d)" % b for b in BASES]}
    cov["samples"] += samples
    vlib.log("[C16] numerals: %d spellings (%d exhaustive), %d reader evaluations, %d judged; TLC %.1fs harness %.1fs compare %.1fs"
             % (len(exp), nexh, evals, judged, t1 - t0, t2 - t1, time.time() - t2))
    return evals, nontrivial


# ---------------------------------------------------------------------------
# part E: dates

PASS_THROUGH_OK = ("j", "U", "W")     # C89 directives gopher-lua does not offer: "%j" may come back unchanged
FIELDS = ("year", "month", "day", "hour", "min", "sec", "wday", "yday", "isdst")


def fmt_of(items):
    return "".join("%" + x if k == "d" else x for k, x in items)


def calendar_gen(off, zname, years, extra, workers=W):
    fn = "c16_extra_%s%d.ndjson" % ("w" if off < 0 else "e", abs(off))
    vlib.write_ndjson(os.path.join(vlib.specdir(), fn), [{"t": t} for t in extra])
    r = vlib.run_tlc("CalendarMC", "CalendarGen", workers=workers, timeout=1500, heap="8g",
                     consts={"OffsetAbs": abs(off), "OffsetWest": "TRUE" if off < 0 else "FALSE", "ZoneName": '"%s"' % zname, "Years": "{%s}" % ",".join(map(str, years)),
                             "ExtraFile": '"%s"' % fn})
    os.remove(os.path.join(vlib.specdir(), fn))
    return r


def date_format_matrix(tz, off, zname, ts, stats, only=None):
    """os.date on a matrix of formats (every directive alone, followed / surrounded by literal text, next to %%,
    every ordered pair of directives, also with a literal directive letter between them) at the instants ts.
    Expected renderings come from CalendarMC.tla Mode "fmt" (pieces rendered independently and concatenated).
    Returns (candidates, number of renderings compared)."""
    ts = sorted(set(ts))
    probe = harness("c16-date", {"ts": ts, "dirs": FMT_DIRS, "comps": [], "fields": []}, "fsingle", env={"TZ": tz})[1:]
    fn = "c16_bind_%s%d.ndjson" % ("w" if off < 0 else "e", abs(off))
    vlib.write_ndjson(os.path.join(vlib.specdir(), fn), [{"t": t, "bind": {d: (o["ld"][d] if isinstance(o["ld"][d], str) else "?")
                                                                           for d in FMT_DIRS}} for t, o in zip(ts, probe)])
    r = vlib.run_tlc("CalendarMC", "CalendarFmt", workers=W, timeout=900, heap="4g",
                     consts={"OffsetAbs": abs(off), "OffsetWest": "TRUE" if off < 0 else "FALSE", "ZoneName": '"%s"' % zname,
                             "ExtraFile": '"%s"' % fn})
    os.remove(os.path.join(vlib.specdir(), fn))
    add_stats(stats, r)
    exp = {}
    for g in r.tag("GEN"):
        for f in g["f"]:
            exp.setdefault(g["t"], {})[f["text"]] = f
    if sorted(exp) != ts:
        raise vlib.Infra("CalendarFmt: expected renderings for %d instants, got %d" % (len(ts), len(exp)))
    texts = sorted(exp[ts[0]]) if only is None else [only]
    out = harness("c16-date", {"ts": ts, "dirs": [], "comps": texts, "fields": []}, "fmatrix", env={"TZ": tz})[1:]
    fails, n = [], 0
    for t, o in zip(ts, out):
        for text, ob in zip(texts, o["comps"]):
            f = exp[t][text]
            n += 1
            want = "".join(f["segs"])
            if ob == want:
                continue
            # name the first piece at which the observed text leaves the expected one
            pos, at = 0, len(f["segs"])
            if isinstance(ob, str):
                for i, seg in enumerate(f["segs"]):
                    if ob[pos:pos + len(seg)] != seg:
                        at = i
                        break
                    pos += len(seg)

            def desc(i):
                if i < 0:
                    return "start"
                if i >= len(f["items"]):
                    return "end"
                return "%" + f["items"][i][1] if f["items"][i][0] == "d" else "literal"
            fails.append(("C16:date:format:%s-after-%s" % (desc(at), desc(at - 1)),
                          "TZ=%s t=%d: os.date(%s, t) = %s, must be %s" % (tz, t, json.dumps(text), json.dumps(ob), json.dumps(want)),
                          {"part": "datefmt", "tz": tz, "offset": off, "t": t, "format": text, "observed": ob, "expected": want}))
    return fails, n


def year_class(y):
    return "negative-year" if y < 0 else "year-0-to-999" if y < 1000 else "year-above-9999" if y > 9999 else "year-1000-to-9999"


def date_wide(tz, off, zname, rng, thorough, stats, only=None):
    """instants over the whole range the implementation accepts (years <= 0 ... far future), given to the spec as
    <<day number, second of day>>: os.date('*t') / os.date('!*t') fields, os.time round trip, os.time of the
    spec's fields.  Expected values: CalendarMC.tla Mode "wide"."""
    if only is None:
        extra = [{"d": rng.randrange(-73000000, 73000000), "s": rng.randrange(86400)} for _ in range(3000 if thorough else 300)]
        extra += [{"d": d, "s": s} for d in (-810186, -810185, -719529, -719528, -719163, -719162, -1, 0, 24855, 24856, 2932896, 2932897)
                  for s in (0, 86399)]            # around t = -7e10, 0000-01-01, 0001-01-01, 1970, 2038, 9999-12-31
    else:
        extra = [only]
    fn = "c16_wide_%s%d.ndjson" % ("w" if off < 0 else "e", abs(off))
    vlib.write_ndjson(os.path.join(vlib.specdir(), fn), extra)
    r = vlib.run_tlc("CalendarMC", "CalendarWide", workers=W, timeout=900, heap="4g",
                     consts={"OffsetAbs": abs(off), "OffsetWest": "TRUE" if off < 0 else "FALSE", "ZoneName": '"%s"' % zname,
                             "ExtraFile": '"%s"' % fn})
    os.remove(os.path.join(vlib.specdir(), fn))
    add_stats(stats, r)
    exp = sorted(r.tag("GEN"), key=lambda g: (g["d"], g["s"]))
    if only is not None:
        exp = [g for g in exp if (g["d"], g["s"]) == (only["d"], only["s"])]
    ts = [g["d"] * 86400 + g["s"] for g in exp]
    out = harness("c16-date", {"ts": ts, "dirs": [], "comps": [], "fields": [g["lf"] for g in exp]}, "wide", env={"TZ": tz})[1:]
    if len(out) != len(exp):
        raise vlib.Infra("c16-date (wide) returned %d results for %d instants" % (len(out), len(exp)))
    fails = []
    for g, t, o in zip(exp, ts, out):
        rp = {"part": "datewide", "tz": tz, "offset": off, "d": g["d"], "s": g["s"], "t": t}
        yc = year_class(g["lf"]["year"])
        if "panic" in o:
            fails.append(("C16:date:go-panic", "Go panic for t=%d: %s" % (t, o["panic"]), rp))
            continue
        for pre, fk, ek in (("", "lt", "lf"), ("!", "ut", "uf")):
            for f in FIELDS:
                if o[fk].get(f) != g[ek][f]:
                    fails.append(("C16:date:*t:%s:%s" % (f, yc), "TZ=%s t=%d: os.date('%s*t', t).%s = %s, must be %s" % (
                        tz, t, pre, f, json.dumps(o[fk].get(f)), json.dumps(g[ek][f])), dict(rp, observed=o[fk], expected=g[ek])))
        if o["rt"] != t:
            fails.append(("C16:date:os.time:roundtrip:%s" % yc, "TZ=%s t=%d (%s): os.time(os.date('*t', t)) = %s" % (
                tz, t, json.dumps(g["lf"]), json.dumps(o["rt"])[:160]), dict(rp, observed=o["rt"])))
        back = list(divmod(o["fromspec"], 86400)) if isinstance(o["fromspec"], int) else o["fromspec"]
        if back != g["back"]:
            fails.append(("C16:date:os.time:fields:%s" % yc, "TZ=%s: os.time(%s) = %s, must be day %d second %d" % (
                tz, json.dumps(g["lf"]), json.dumps(o["fromspec"])[:160], g["back"][0], g["back"][1]), dict(rp, observed=o["fromspec"])))
    return fails, len(exp)


FMT_DIRS = ["a", "A", "b", "B", "c", "d", "H", "I", "j", "m", "M", "p", "S", "U", "w", "W", "x", "X", "y", "Y", "Z", "%", "F", "P", "z"]


def part_dates(thorough, verd, stats, cov):
    t0 = time.time()
    rng = random.Random(vlib.seed() * 15485863 + 5)
    total = 0
    zones = [("UTC", 0, "UTC")]
    if os.path.exists("/usr/share/zoneinfo/Etc/GMT-5"):
        zones.append(("Etc/GMT-5", 18000, None))
        zones.append(("Etc/GMT+7", -25200, None))
    cov["dates"] = {"zones": [], "instants": 0, "directive_renderings": 0, "unsupported_passed_through_not_judged": {}}
    for tz, off, zname in zones:
        utc = off == 0
        if thorough:
            years = list(range(1902, 2038)) if utc else list(range(1968, 2038, 3))
            nextra = 12000 if utc else 2000
        else:
            years = ([1902, 1903, 1969, 1970, 1971, 1972, 1999, 2000, 2001, 2004, 2023, 2024, 2036, 2037] if utc else [1970, 2000, 2024])
            nextra = 700 if utc else 150
        extra = {rng.randrange(-2 ** 31 + 200000, 2 ** 31 - 200000) for _ in range(nextra)} | {0, -1, 2 ** 31 - 200000, 951782400}
        # ask the harness which zone the Go runtime really uses under this TZ
        probe = harness("c16-date", {"ts": [], "dirs": [], "comps": [], "fields": []}, "dprobe", env={"TZ": tz})[0]
        if probe["offset"] != off or probe["offset2"] != off:
            vlib.log("[C16] dates: zone %s not available to the Go runtime (offset %s), skipped" % (tz, probe["offset"]))
            continue
        zname = probe["zone"]
        r = calendar_gen(off, zname, years, sorted(extra))
        add_stats(stats, r)
        exp = sorted(r.tag("GEN"), key=lambda g: g["t"])
        dirs = sorted(exp[0]["ld"].keys())
        comps = [fmt_of(c["items"]) for c in exp[0]["comps"]]
        t1 = time.time()
        out = harness("c16-date", {"ts": [g["t"] for g in exp], "dirs": dirs, "comps": comps, "fields": [g["lf"] for g in exp]},
                      "date", env={"TZ": tz})[1:]
        if len(out) != len(exp):
            raise vlib.Infra("c16-date returned %d results for %d instants" % (len(out), len(exp)))
        passed = cov["dates"]["unsupported_passed_through_not_judged"]
        nrend = 0
        for g, o in zip(exp, out):
            t = g["t"]
            if "panic" in o:
                verd.candidate("C16:date:go-panic", "Go panic for t=%d: %s" % (t, o["panic"]), {"part": "date", "tz": tz, "t": t})
                continue

            def cand(key, what, extra=None):
                verd.candidate(key, "TZ=%s t=%d: %s" % (tz, t, what), dict({"part": "date", "tz": tz, "offset": off, "t": t}, **(extra or {})))
            for pre, fk, ek in (("", "lt", "lf"), ("!", "ut", "uf")):
                for f in FIELDS:
                    if o[fk].get(f) != g[ek][f]:
                        cand("C16:date:*t:%s" % f, "os.date('%s*t', t).%s = %s, must be %s" % (pre, f, json.dumps(o[fk].get(f)), json.dumps(g[ek][f])),
                             {"field": f, "observed": o[fk], "expected": g[ek]})
            for d in dirs:
                for pre, ok, ek in (("", "ld", "ld"), ("!", "ud", "ud")):
                    if d not in g[ek]:
                        continue
                    nrend += 1
                    ob, ex = o[ok][d], g[ek][d]
                    if ob == ex:
                        continue
                    if d in PASS_THROUGH_OK and ob == "%" + d:
                        passed[d] = passed.get(d, 0) + 1
                        continue
                    if d == "c":
                        # %c is "the locale's appropriate date and time representation": its layout is
                        # not fixed by the property (gopher-lua renders day month year hour:minute zone
                        # from the same fields); only counted, not judged
                        passed["c(layout)"] = passed.get("c(layout)", 0) + 1
                        continue
                    key = "C16:date:%%%s" % d if (pre == "" or o["ld"][d] != g["ld"][d]) else "C16:date:!%%%s" % d
                    cand(key, "os.date('%s%%%s', t) = %s, must be %s" % (pre, d, json.dumps(ob), json.dumps(ex)),
                         {"format": pre + "%" + d, "observed": ob, "expected": ex})
            for j, c in enumerate(g["comps"]):
                nrend += 1
                if o["comps"][j] != c["out"]:
                    cand("C16:date:format:%s" % comps[j], "os.date(%s, t) = %s, must be %s" % (json.dumps(comps[j]), json.dumps(o["comps"][j]), json.dumps(c["out"])),
                         {"format": comps[j], "observed": o["comps"][j], "expected": c["out"]})
            if o["rt"] != t:
                cand("C16:date:os.time:roundtrip", "os.time(os.date('*t', t)) = %s" % json.dumps(o["rt"]))
            if o["fromspec"] != g["back"]:
                cand("C16:date:os.time:fields", "os.time(%s) = %s, must be %d" % (json.dumps(g["lf"]), json.dumps(o["fromspec"]), g["back"]))
            if o["fromstr"] != g["back"]:
                cand("C16:date:os.time:string-fields", "os.time with zero-padded string fields of %s = %s, must be %d" % (json.dumps(g["lf"]), json.dumps(o["fromstr"]), g["back"]))
            if o["noon"] != g["noon"]:
                cand("C16:date:os.time:default-hour", "os.time{year,month,day} = %s, must be %d (12:00:00)" % (json.dumps(o["noon"]), g["noon"]))
        # the format matrix at a few instants (single/double digit days, AM/PM, leap day, both ends of the range)
        fts = [0, 1000000000, 951782400 + 46800, 1234567890, -1000000000, 2 ** 31 - 200000] + \
              [rng.randrange(-2 ** 31 + 200000, 2 ** 31 - 200000) for _ in range(6 if thorough else 2)]
        if not utc:
            fts = fts[:3]
        ffails, nf = date_format_matrix(tz, off, zname, fts, stats) if (thorough or off >= 0) else ([], 0)
        for item in ffails:
            verd.candidate(*item)
        nrend += nf
        cov["dates"]["format_matrix_renderings"] = cov["dates"].get("format_matrix_renderings", 0) + nf
        wf, nw = date_wide(tz, off, zname, rng, thorough, stats) if (thorough or off == 0) else ([], 0)
        for item in wf:
            verd.candidate(*item)
        cov["dates"]["wide_range_instants"] = cov["dates"].get("wide_range_instants", 0) + nw
        total += len(exp)
        cov["dates"]["zones"].append({"TZ": tz, "offset": off, "abbreviation": zname, "instants": len(exp), "years_with_all_month_boundaries": len(years)})
        cov["dates"]["instants"] += len(exp)
        cov["dates"]["directive_renderings"] += nrend
        if utc:
            mid = exp[len(exp) // 2]
            cov["samples"].append({"t": mid["t"], "expected_%c": mid["ld"]["c"], "observed_%c": out[len(exp) // 2]["ld"]["c"],
                                   "expected_fields": mid["lf"], "observed_fields": out[len(exp) // 2]["lt"]})
        vlib.log("[C16] dates TZ=%s: %d instants, %d renderings compared; TLC %.1fs harness+compare %.1fs"
                 % (tz, len(exp), nrend, t1 - t0, time.time() - t1))
        t0 = time.time()
    return total


# ---------------------------------------------------------------------------

def part_mc(thorough, stats, cov):
    jobs = [("LexicalMC", "LexicalMC_str", {"MaxLen": 5 if thorough else 4}),
            ("LexicalMC", "LexicalMC_num", {"MaxLen": 5 if thorough else 4}),
            ("LexicalMC", "LexicalMC_int", None),
            ("CalendarMC", "CalendarMC", {"Years": "{%s}" % ",".join(map(str, range(1902, 2038) if thorough else range(1960, 2038)))})]
    vlib.specdir()

    def one(j):
        return j, vlib.run_tlc(j[0], j[1], consts=j[2], workers=W if thorough else 4, timeout=1500, heap="8g")
    with ThreadPoolExecutor(max_workers=2 if thorough else 4) as ex:
        res = list(ex.map(one, jobs))
    cov["mc_runs"] = []
    for j, r in res:
        add_stats(stats, r)
        cov["mc_runs"].append({"cfg": j[1], "consts": j[2] if j[1] != "CalendarMC" else "Years=%s" % ("1902..2037" if thorough else "1960..2037"),
                               "generated": r.generated, "distinct": r.distinct})
        vlib.log("[C16] MC %s: %d states, all laws hold (%.0fs)" % (j[1], r.distinct, r.wall))


def run(tier):
    t0 = time.time()
    thorough = tier == "thorough"
    verd = vlib.Verdicts(PROP)
    stats = {"states": 0, "transitions": 0}
    cov = {"samples": []}
    vlib.build_harness()
    vlib.specdir()
    parts = (part_literals, part_trace, part_numerals, part_dates)
    cols = [Collect() for _ in parts]
    covs = [{"samples": []} for _ in parts]
    # the laws (MC) run while the conformance parts run; quick: the parts side by side as well
    with ThreadPoolExecutor(max_workers=1 + (1 if thorough else len(parts))) as pool:
        mc = pool.submit(part_mc, thorough, stats, cov)
        if thorough:
            res = [f(thorough, c, stats, cv) for f, c, cv in zip(parts, cols, covs)]
        else:
            res = [x.result() for x in [pool.submit(f, thorough, c, stats, cv) for f, c, cv in zip(parts, cols, covs)]]
        mc.result()
    for c, cv in zip(cols, covs):
        for item in c.items:
            verd.candidate(*item)
        cov["samples"] += cv.pop("samples")
        cov.update(cv)
    nlit, ntr, (nev, nnum), ndate = res
    rc = verd.finish()
    cov.update({
        "states": stats["states"], "transitions": stats["transitions"],
        "traces_validated_against_impl": ntr,
        "evaluations": nlit + ntr + nev + cov["dates"]["directive_renderings"],
        "distinct_nontrivial": cov["literals"]["judged"] + nnum + cov["quote"]["strings"] + cov["tostring"]["values"] + ndate,
        "rule": "distinct inputs after de-duplication: literal texts that the reference accepts + spellings that are numerals "
                "+ %q strings + printed values + instants; evaluations = one per (input, reader/form/directive)",
        "exhaustive": False,
        "exhaustive_parts": "literal forms and numeral spellings: every string up to the stated length over the stated alphabet; "
                      "the rest is a boundary grid plus seeded random sample",
        "known_findings_hit": sorted(verd.known_hit),
        "violation_keys": sorted(verd.nviol),
    })
    vlib.write_evidence(PROP, tier, "model_checking", cov, time.time() - t0, len(verd.nviol), assumptions=[
        "numeric values are judged exactly only inside the spec's integer model (odd mantissa below 2^31 times a power of two); "
        "other well-formed numerals must be accepted and the readers must agree with each other",
        "C-library dependent spellings (hexadecimal floats, inf/nan, signed hexadecimal, signed numbers with an explicit base, "
        "embedded NUL) and [[ inside a level-0 long bracket are not judged",
        "literal texts the reference lexer rejects (e.g. \\256) are not required to be rejected",
        "dates: TZ=UTC and two fixed-offset zones, -2^31 < t < 2^31; %j %U %W may be passed through unchanged (not offered by gopher-lua)",
        "shortest-digits printing of non-integral floats is not specified; io.read('*n') is not covered"])
    return rc


def replay(path):
    rec = json.load(open(path))
    rp = rec["replay"]
    verd = vlib.Verdicts(PROP)
    verd.findings = []
    stats = {"states": 0, "transitions": 0}
    vlib.build_harness()
    part = rp["part"]
    if part == "lit":
        e = tlc_file([{"id": 0, "k": "lit", "t": rp["text"]}], "rp", stats)[0]
        o = harness("c16-lit", {"cases": [{"id": 0, "src": rp["text"]}]}, "rp")[0]
        vlib.log("text %s: spec %s %s, interpreter %s" % (S(rp["text"]), e["kind"], S(e["v"]), json.dumps(o.get("r"))))
        if (e["kind"] == "ok" and o.get("r") != ["s", e["v"]]) or (e["kind"] == "invalid" and o.get("r", ["err"])[0] != "err"):
            verd.candidate(rec["key"], rec["what"], rp)
    elif part == "num":
        e = tlc_file([{"id": 0, "k": "num", "s": rp["s"]}], "rp", stats)[0]
        o = harness("c16-num", {"cases": [{"id": 0, "s": rp["s"], "lex": e["lx"] != ["skip"]}], "bases": BASES}, "rp")[0]
        vlib.log("spelling %s: spec %s, interpreter %s" % (S(rp["s"]), json.dumps(e), json.dumps(o)))
        for key, what, robj in numeral_failures(e, o, {"evals": 0, "judged": 0, "unspec": 0, "retok": 0}):
            vlib.log("  fails: [%s] %s" % (key, what))
            if key == rec["key"]:
                verd.candidate(key, what, robj)
    elif part in ("q", "ts"):
        if part == "q":
            o = harness("c16-q", {"cases": [{"id": 0, "s": rp["s"]}]}, "rp")[0]
            recs = [{"id": 0, "k": "q", "s": o["s"], "q": o["q"], "rb": o["rb"], "back": o["back"]}]
        else:
            c = dict(rp["case"], id=0)
            o = harness("c16-ts", {"cases": [c]}, "rp")[0]
            recs = []
            for p in o["outs"]:
                r = {"id": len(recs), "k": c["k"], "text": p["text"], "rt": p["rt"]}
                r.update({f: c[f] for f in ("neg", "hi", "lo", "m", "e") if f in c})
                recs.append(r)
        for r in vlib.validate_batches("LexicalTrace", "LexicalTrace", recs, "c16_rp"):
            for v in r.tag("VERDICT"):
                vlib.log("record %s -> %s" % (json.dumps(recs[v["id"]]), json.dumps(v)))
                if not v["ok"]:
                    verd.candidate(rec["key"], rec["what"], rp)
    elif part == "date":
        tz, off, t = rp["tz"], rp["offset"], rp["t"]
        probe = harness("c16-date", {"ts": [], "dirs": [], "comps": [], "fields": []}, "rpp", env={"TZ": tz})[0]
        r = calendar_gen(off, probe["zone"], [], [t], workers=2)
        g = [x for x in r.tag("GEN") if x["t"] == t][0]
        dirs = sorted(g["ld"].keys())
        comps = [fmt_of(c["items"]) for c in g["comps"]]
        o = harness("c16-date", {"ts": [t], "dirs": dirs, "comps": comps, "fields": [g["lf"]]}, "rp", env={"TZ": tz})[1]
        vlib.log("t=%d TZ=%s\n spec: %s\n real: %s" % (t, tz, json.dumps(g), json.dumps(o)))
        bad = False
        if "field" in rp:
            bad = o["lt"].get(rp["field"]) != g["lf"][rp["field"]] or o["ut"].get(rp["field"]) != g["uf"][rp["field"]]
        elif "format" in rp:
            f = rp["format"]
            if f in comps:
                bad = o["comps"][comps.index(f)] != g["comps"][comps.index(f)]["out"]
            else:
                d = f[-1]
                bad = (o["ud"][d] != g["ud"][d]) if f.startswith("!") else (o["ld"][d] != g["ld"][d])
        else:
            bad = o["rt"] != t or o["fromspec"] != g["back"] or o["fromstr"] != g["back"] or o["noon"] != g["noon"]
        if bad:
            verd.candidate(rec["key"], rec["what"], rp)
    elif part == "tnb":
        c = Collect()
        tonumber_calls(c, stats, None, False, only=dict(rp["case"]))
        for item in c.items:
            vlib.log("  fails: [%s] %s" % (item[0], item[1]))
            verd.candidate(*item)
    elif part == "datewide":
        probe = harness("c16-date", {"ts": [], "dirs": [], "comps": [], "fields": []}, "rpp", env={"TZ": rp["tz"]})[0]
        fails, _ = date_wide(rp["tz"], rp["offset"], probe["zone"], None, False, stats, only={"d": rp["d"], "s": rp["s"]})
        for key, what, robj in fails:
            vlib.log("  fails: [%s] %s" % (key, what))
            verd.candidate(key, what, robj)
    elif part == "datefmt":
        probe = harness("c16-date", {"ts": [], "dirs": [], "comps": [], "fields": []}, "rpp", env={"TZ": rp["tz"]})[0]
        fails, _ = date_format_matrix(rp["tz"], rp["offset"], probe["zone"], [rp["t"]], stats, only=rp["format"])
        for key, what, robj in fails:
            vlib.log("  fails: [%s] %s" % (key, what))
            verd.candidate(key, what, robj)
    else:
        raise vlib.Infra("unknown replay part %r" % part)
    return verd.finish()
