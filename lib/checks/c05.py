"""C05 - errors at any point are contained by protected calls and leave state intact.
(A) error values of every type through every catcher, validated by LuaSemTrace;
(B) fault enumeration: a one-shot fault at EVERY instruction boundary of every
    corpus program on the real VM; LuaSemFault (TLC) computes, for every spec step
    boundary j, the trace with the fault injected there, and each real fault point k
    must be explained by some j, non-decreasing in k;
(C) control-skeleton snapshots around the Go-side protected call (FramesTrace)."""
import itertools, json, os, random, time
import vlib, lsem, gen_prot
from luagen import render

PROP = "C05"


def sweep_records(progs, stats_out):
    """fault-free run, then one run per dispatch poll with a one-shot fault"""
    clean = lsem.run_real([dict(p, snap=True) for p in progs], "c05clean")
    runs = []
    index = {}
    for p in progs:
        n = clean[p["id"]]["polls"]
        if clean[p["id"]]["outcome"][0] not in ("ok", "err"):
            raise vlib.Infra("fault-free run of corpus program %d ended %s" % (p["id"], clean[p["id"]]["outcome"]))
        for k in range(1, n + 1):
            rid = len(runs) + 1
            index[rid] = (p["id"], k)
            runs.append({"id": rid, "src": p["src"], "fault": {"mode": "oneshot", "k": k}, "snap": True})
    outs = lsem.run_real(runs, "c05sweep", timeout=2400)
    stats_out["fault_runs"] = len(runs)
    per = {p["id"]: [None] * clean[p["id"]]["polls"] for p in progs}
    for rid, o in outs.items():
        pid, k = index[rid]
        per[pid][k - 1] = o
    return clean, per


def validate_sweep(progs, clean, per, verd, stats, tag, max_steps=6000):
    recs = []
    direct = 0
    for p in progs:
        traces = []
        for k, o in enumerate(per[p["id"]], 1):
            oc = o["outcome"][0]
            if oc in ("crash", "hang", "gopanic", "loaderr", "budget"):
                verd.candidate("C05:sweep:%s" % oc, "program %d (%s): fault at poll %d ended in %s" % (p["id"], p["fam"], k, o["outcome"]),
                               {"program": p, "k": k, "real": o})
                direct += 1
            traces.append({"emits": o["emits"], "outcome": o["outcome"][:2]})
        c = clean[p["id"]]
        recs.append({"id": p["id"], "root": p["root"], "nodes": p["nodes"],
                     "clean": {"emits": c["emits"], "outcome": c["outcome"][:2]}, "traces": traces})
    matches = {p["id"]: {} for p in progs}
    cleanok = {}
    for r in vlib.validate_batches("LuaSemFault", "LuaSemFault", recs, "c05_" + tag, batch=6, parallel=4, timeout=2400,
                                   extra_consts={"MaxSteps": str(max_steps)}, heap="5g"):
        stats["states"] += r.distinct
        stats["transitions"] += r.generated
        for m in r.tag("MATCH"):
            matches[m["id"]][m["j"]] = m
        for c in r.tag("CLEAN"):
            cleanok[c["id"]] = c
    explained = 0
    unexplained = []
    inconclusive = 0
    for p in progs:
        pid = p["id"]
        if pid not in cleanok:
            raise vlib.Infra("no CLEAN line for program %d" % pid)
        if cleanok[pid]["mode"] != "done":
            inconclusive += len(per[pid])
            continue            # the fault-free run left the model: nothing judged
        if not cleanok[pid]["ok"]:
            verd.candidate("C05:sweep:fault-free-trace", "program %d (%s): fault-free trace is not the one LuaSem defines" % (pid, p["fam"]),
                           {"program": p, "real": clean[pid]})
            continue
        n = len(per[pid])
        J = {k: [] for k in range(1, n + 1)}
        unmod_js = []
        for j, m in sorted(matches[pid].items()):
            if m["mode"] != "done":
                unmod_js.append(j)
            for k in m["ks"]:
                J[k].append(j)
        cur = 0
        for k in range(1, n + 1):
            cands = [j for j in J[k] if j >= cur]
            if cands:
                cur = min(cands)
                explained += 1
            elif unmod_js:
                inconclusive += 1      # some injection point left the model: cannot decide this k
            else:
                unexplained.append((p, k, bool(J[k])))
    return explained, unexplained, inconclusive, direct


def validate_snapshots(progs, clean, per, verd, stats):
    """FramesTrace (TLC): invariants of every accessor snapshot, restoration around the
    Go-side protected call, equality of the snapshots taken before/after the Lua-level
    protected call - for the fault-free run and EVERY faulted run"""
    recs, where = [], {}
    for p in progs:
        runs = [(0, clean[p["id"]])] + list(enumerate(per[p["id"]], 1))
        for k, o in runs:
            if not o.get("snaps"):
                continue
            rid = len(recs) + 1
            where[rid] = (p, k)
            nres = len(o["outcome"][1]) if o["outcome"][0] == "ok" else 0
            recs.append({"id": rid, "snaps": o["snaps"], "nres": nres})
    bad = 0
    for r in vlib.validate_batches("FramesTrace", "FramesTrace", recs, "c05fr", batch=3000, parallel=4, timeout=1200, heap="3g"):
        stats["states"] += r.distinct
        stats["transitions"] += r.generated
        vs = r.tag("VERDICT")
        if len(vs) != r.nrecords:
            raise vlib.Infra("FramesTrace: %d verdicts for %d runs" % (len(vs), r.nrecords))
        for v in vs:
            if not v["ok"]:
                bad += 1
                p, k = where[v["id"]]
                verd.candidate("C05:frames:%s" % v["rule"], "program %d (%s), fault at poll %d: control skeleton violates '%s' at snapshot %d" % (p["id"], p["fam"], k, v["rule"], v["at"]),
                               {"program": p, "k": k, "verdict": v})
    return len(recs), bad


def classify(p, v, out):
    """the one divergence with a name of its own; everything else gets the default family/kind/source key"""
    exp, got = v.get("exp"), v.get("got")
    txt = lambda t: bytes(t[1]).decode("latin-1") if isinstance(t, list) and len(t) == 2 and t[0] == "s" else ""
    if p["fam"].startswith("overflow") and isinstance(exp, list) and isinstance(got, list) and exp and len(got) == 3 \
            and txt(exp[0]) == "handler" and txt(got[0]) == "r" and got[1] == ["b", False] and txt(got[2]).endswith("stack overflow"):
        return "C05:xpcall:handler-not-run-on-stack-overflow"
    return lsem.default_classify(PROP)(p, v, out)


def run(tier):
    t0 = time.time()
    thorough = tier == "thorough"
    seed = vlib.seed()
    rng = random.Random(seed * 17 + 5)
    vlib.build_harness()
    # ---- (A) error values x catchers
    fams = []
    for kind, catcher, level, via in itertools.product(gen_prot.ERRVALS, ["pcall", "xpcall", "nested", "none"], [None, 1, 2, 0], ["error", "gerr", "gpanic", "assert"]):
        if via != "error" and (level is not None):
            continue
        if via in ("gerr", "gpanic") and kind not in gen_prot.STRKINDS:
            continue        # the host raisers take a message string
        fams.append(("errval",) + gen_prot.errval_program(kind, catcher, level, via) + (None,))
        if kind == "str" and level in (None, 2):
            for cs in ("emptykey", "oddkey", "method"):
                fams.append(("errval",) + gen_prot.errval_program(kind, catcher, level, via, cs) + (None,))
        if kind in ("str", "table", "nil") and level is None and catcher in ("pcall", "xpcall"):
            for cs in ("callable", "uncallable"):      # the protected call is handed an object with __call / a number
                fams.append(("callobj",) + gen_prot.errval_program(kind, catcher, level, via, cs) + (None,))
    # errors escaping coroutine.wrap functions, caught in the resumer (main thread or a coroutine)
    for rk, res, cat in itertools.product(["error", "errtab", "fault", "gerr", "gpanic", "after-yield"], ["main", "coroutine"], ["pcall", "xpcall"]):
        fams.append(("wraperr",) + gen_prot.wraperr_program(rk, res, cat) + (None,))
    for level, where, kind in itertools.product([None, 1, 2, 3, 4], ["wrap", "resume", "pcall", "xpcall", "gcall"], ["str", "tab", "nil"]):
        fams.append(("bottomtail",) + gen_prot.bottom_tail_program(level, where, kind) + (None,))
    # capturing functions retried after a failed protected call (the failed attempt's upvalues must be gone)
    import gen_clos
    for p, root in gen_clos.retry_cases():
        fams.append(("retry", p, root, None))
    # protected calls at every call depth 1..20 (frame-stack segment boundaries), fixed and auto-growing call stack
    ndepth = 0
    for target, catcher in itertools.product(range(1, 21), ["pcall", "xpcall"]):
        for _ in range(2):
            fams.append(("depth",) + gen_prot.depth_program(target, catcher) + (None,))
            ndepth += 1
    # protected calls inside coroutines: yields below them (also in tail position) are faults delivered to that pcall,
    # errors caught below further host boundaries leave the coroutine able to yield (programs of the C06 generator that
    # contain such an operation)
    import gen_co
    crng = random.Random(vlib.seed() * 41 + 5)
    nco = 0
    while nco < (400 if thorough else 100):
        cp, croot = gen_co.script_program(crng)
        src = render(cp, croot)
        if "-ypc" in src or "-ebb" in src:
            fams.append(("coprotect", cp, croot, None))
            nco += 1
    # recursion without bound under a protected call: "stack overflow" is an ordinary error (LuaSem's glimit)
    for c, sh in itertools.product(["pcall", "xpcall", "co"], ["plain", "capture", "method", "pcall-inside"]):
        for hd in (("plain", "calls") if c == "xpcall" else ("plain",)):
            fams.append(("overflow",) + gen_prot.overflow_program(c, sh, hd) + (None,))
    progsA = lsem.number(fams)
    flip = False
    for pr in progsA:
        if pr["fam"] == "depth":
            if flip:
                pr["opts"] = {"msm": True}
            flip = not flip
    verd, cov, allv, allo, stats = lsem.run_families(
        PROP, tier, progsA,
        "(A) error(v[,level]) for v of 13 kinds (strings containing '%' among them) x level {default,1,2,0} x raised via error/host RaiseError/Go panic in a host function/assert x caught by pcall/xpcall/nested pcall/nothing; capturing functions retried after failed protected calls; errors escaping coroutine.wrap functions caught in a main-thread / coroutine resumer, thread identity and other coroutines afterwards; protected calls at call depth 1..20 with the fixed and the auto-growing (MinimizeStackMemory) frame stack; recursion without bound (plain, capturing, through methods, re-raised through inner pcalls) caught by pcall / xpcall with a plain or calling handler / a coroutine's resumer, and the state's behaviour afterwards; (B) corpus of protected bodies (pcall, xpcall, nested, inside a metamethod, inside a for-in iterator, unprotected up to the Go-side PCall) with a one-shot fault at every dispatch poll",
        [], t0, max_steps=20000, nontrivial_min_emits=2, classify=classify)
    # ---- (B) fault sweep
    nprog = 260 if thorough else 36
    progsB = []
    for i in range(nprog):
        p, root, src, mode = gen_prot.prot_program(seed * 1000000 + 700000 + i, mode=gen_prot.MODES[i % len(gen_prot.MODES)], size=rng.choice([3, 4, 5]))
        progsB.append({"id": i + 1, "fam": mode, "root": root, "nodes": p.nodes[1:], "src": src})
    sw = {}
    t1 = time.time()
    clean, per = sweep_records(progsB, sw)
    t2 = time.time()
    explained, unexplained, inconclusive, direct = validate_sweep(progsB, clean, per, verd, stats, "s")
    vlib.log("[C05] sweep timing: real runs %.1fs, TLC %.1fs" % (t2 - t1, time.time() - t2))
    nsnap, badsnap = validate_snapshots(progsB, clean, per, verd, stats)
    vlib.log("[C05] FramesTrace: control-skeleton snapshots of %d runs validated (restoration of call depth, stack height, panic mode, open upvalues): %d rejected" % (nsnap, badsnap))
    # reproduce each unexplained fault point on a fresh interpreter
    if unexplained:
        again = {}
        for p, k, _ in unexplained:
            again.setdefault(p["id"], p)
        ps = list(again.values())
        clean2, per2 = sweep_records(ps, {})
        e2, un2, inc2, d2 = validate_sweep(ps, clean2, per2, verd, stats, "re")
        still = {(p["id"], k) for p, k, _ in un2}
        for p, k, somej in unexplained:
            if (p["id"], k) not in still:
                raise vlib.Infra("unexplained fault point did not reproduce: program %d poll %d" % (p["id"], k))
            verd.candidate("C05:sweep:%s:%s" % (p["fam"], "non-monotone" if somej else "unexplained"),
                           "program %d (%s): the run with a fault at dispatch poll %d is not explained by injecting the fault at any admissible step of LuaSem" % (p["id"], p["fam"], k),
                           {"program": p, "k": k, "real": per[p["id"]][k - 1], "fault_free": clean[p["id"]]})
    total_k = sw["fault_runs"]
    vlib.log("[C05] sweep: %d programs, %d faulted runs (every dispatch poll): %d explained, %d unexplained, %d inconclusive" % (
        len(progsB), total_k, explained, len(unexplained), inconclusive))
    if inconclusive > 0.10 * max(1, total_k):
        raise vlib.Infra("inconclusive fault points %.1f%% exceed 10%%" % (100.0 * inconclusive / total_k))
    rc = verd.finish()
    cov["states"], cov["transitions"] = stats["states"], stats["transitions"]
    cov["traces_validated_against_impl"] += explained
    cov["evaluations"] += total_k
    cov["distinct_nontrivial"] += len({(p["id"], tuple(map(json.dumps, o["emits"])), json.dumps(o["outcome"][:2])) for p in progsB for o in per[p["id"]]})
    cov["frames_snapshots_validated"] = nsnap
    cov["fault_sweep"] = {"programs": len(progsB), "faulted_runs": total_k, "explained_monotone": explained,
                          "unexplained": len(unexplained), "inconclusive": inconclusive, "crash_or_hang": direct,
                          "exhaustive_over_dispatch_polls": True}
    cov["samples"].append({"sweep_program": progsB[0]["src"][:800], "fault_at_poll_5": per[progsB[0]["id"]][4] if len(per[progsB[0]["id"]]) > 4 else None})
    cov["known_findings_hit"] = sorted(verd.known_hit)
    vlib.write_evidence(PROP, tier, "fault_enumeration", cov, time.time() - t0, len(verd.violations), assumptions=[
        "faults are injected at every instruction boundary of main-thread Lua code (dispatch poll of mainLoopWithContext); faults inside Go library functions happen only at their Lua callbacks",
        "runs combining an injected fault with a failing error handler are outside the single-fault quantifier (inconclusive)",
        "distinct_nontrivial counts distinct (program, observable trace) pairs among the faulted runs plus distinct validated programs of part A"])
    return rc


def replay(path):
    rec = json.load(open(path))
    r = rec["replay"]
    verd = vlib.Verdicts(PROP)
    verd.findings = []
    stats = {"states": 0, "transitions": 0}
    p = r["program"]
    if "k" in r:
        clean, per = sweep_records([p], {})
        e, un, inc, d = validate_sweep([p], clean, per, verd, stats, "replay")
        for q, k, somej in un:
            verd.candidate("C05:sweep:replay", "fault at poll %d unexplained" % k, {"program": p, "k": k})
    else:
        lsem.decide(PROP, [p], "replay", verd, stats, {}, [])
    return verd.finish()
