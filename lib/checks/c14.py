"""C14 - Lua patterns match as the 5.1 matcher does; bad patterns are errors.
Spec: specs/Pattern.tla (transcription of lstrlib.c's matcher and drivers).
MC : PatternMC.tla - laws that make the transcription a credible oracle
     (static well-formedness = lazy errors, soundness/completeness against a
     declarative set semantics, greedy/lazy extremal ends, capture bookkeeping,
     driver consistency, known vectors) over a bounded-exhaustive scope.
Bind, both directions:
  GEN  : the same TLC run exports the reference result (as the list of
         admissible outcomes) for every pattern x subject x init/replacement of
         the scope; the harness calls the real string.find/match/gmatch/gsub
         and reports every observed result outside the list.
  TRACE: seeded random longer patterns/subjects/replacements are run on the
         real functions, the recorded results are validated by
         PatternTrace.tla.
plus a robustness run on large inputs (no panic / hang / crash)."""
import json, os, random, time
import vlib

PROP = "C14"
WORKERS = 8

# bracket-set scope: body bytes ] ^ - + / % a ; subjects: the bytes around the range bounds
SETB = [93, 94, 45, 43, 47, 37, 97]
SETS = [37, 42, 43, 44, 45, 46, 47, 48, 93, 94, 96, 97, 98]     # % * + , - . / 0 ] ^ ` a b
# escape scope: '%' followed by every kind of byte (class / non-class letters of both cases, digits,
# punctuation, control and high bytes); %f (frontier) is outside the property
ESCQ = ([c for c in range(65, 91)] + list(b"acdlpsuwxz") + list(b"egkq") + [48, 49, 57] +
        [33, 35, 37, 40, 45, 46, 91, 93, 94] + [10, 127, 128, 233, 255])
ESCT = [c for c in range(1, 256) if c != 102]
P16 = [97, 98, 46, 37, 91, 93, 94, 36, 40, 41, 42, 43, 45, 63, 49, 100]   # a b . % [ ] ^ $ ( ) * + - ? 1 d


def tlaset(xs):
    return "{" + ", ".join(str(x) for x in xs) + "}"


def b2s(a):
    return bytes(a).decode("latin1")


def argtxt(tok):
    """Lua source text of an argument token ('' = absent)."""
    k = tok[0]
    return {"nil": "", "xnil": "nil", "bad": "'x'"}.get(k) if k in ("nil", "xnil", "bad") else (
        str(tok[1]) if k == "n" else str(tok[1] + 0.5) if k == "h" else "2^%d" % tok[1] if k == "big" else
        "-2^%d" % tok[1] if k == "nbig" else "'%s'" % argtxt(tok[1]) if k == "str" else
        str(tok[1]).lower() if k == "b" else repr(b2s(tok[1])))


def arglist(*toks):
    a = [argtxt(x) for x in toks]
    while a and a[-1] == "":
        a.pop()
    return "".join(", " + (x or "nil") for x in a)


INIT_FORMS = [["nil"], ["xnil"], ["n", 0], ["n", 2], ["n", -2], ["n", 100], ["n", -100], ["h", 1], ["h", -3],
              ["str", ["n", 2]], ["str", ["h", 1]], ["str", ["n", -1]], ["big", 31], ["big", 53], ["nbig", 31],
              ["nbig", 53], ["bad"], ["b", True]]
PLAIN_FORMS = [["nil"], ["xnil"], ["b", False], ["b", True], ["n", 0], ["s", []], ["n", 1], ["s", [120]]]
LIMIT_FORMS = [["nil"], ["xnil"], ["n", 0], ["n", -1], ["n", 1], ["n", 2], ["h", 1], ["h", 0], ["h", -1],
               ["str", ["n", 2]], ["str", ["h", 1]], ["big", 31], ["big", 53], ["nbig", 31], ["str", ["big", 53]], ["bad"]]
FAMILY_PAIRS = [(b"hello world", b"o"), (b"a.b.a", b"."), (b"abc", b""), (b"aXbXc", b"X%a*"), (b"x%ay%a", b"%a"),
                (b"", b"a*")]


def family_cases(first_id):
    """The family of optional-argument forms: every form of init x every form of plain for find,
    every form of init for match, every form of the limit for gsub (deterministic, not seeded)."""
    out = []
    for s, p in FAMILY_PAIRS:
        base = {"s": list(s), "p": list(p), "i": ["nil"], "n": ["nil"], "repl": ["s", [45]]}
        for i in INIT_FORMS:
            for pl in PLAIN_FORMS:
                out.append(dict(base, fn="find", i=i, pl=pl))
            out.append(dict(base, fn="match", i=i))
        for n in LIMIT_FORMS:
            out.append(dict(base, fn="gsub", n=n))
            out.append(dict(base, fn="gsub", n=n, repl=["t", [[["s", list(p)], ["s", [61]]]]]))
    for k, c in enumerate(out):
        c["id"] = first_id + k
    return out


def show(rec):
    """One-line rendering of a case for messages."""
    fn = rec["fn"]
    s, p = repr(b2s(rec["s"])), repr(b2s(rec["p"]))
    if fn in ("find", "match"):
        return "string.%s(%s, %s%s)" % (fn, s, p, arglist(rec.get("i") or ["nil"], rec.get("pl") or ["nil"]))
    if fn == "gmatch":
        return "string.gmatch(%s, %s)" % (s, p)
    if fn == "gmatchiter":
        return "A=string.gmatch(%s, %s) B=string.gmatch(%s, %s); %d x {A(%s) B(%s)}" % (
            s, p, repr(b2s(rec["s2"])), p, rec["k"], *(("", "") if rec["mode"] == 0 else ("stA", "stB")))
    repl = rec["repl"]
    r = repr(b2s(repl[1])) if repl[0] == "s" else str(repl[1]) if repl[0] == "n" else ("<table %s>" if repl[0] == "t" else "<function over %s>") % json.dumps(repl[1])
    return "string.gsub(%s, %s, %s%s)" % (s, p, r, arglist(rec.get("n") or ["nil"]))


# ---------------------------------------------------------------------------
# seeded random cases (TRACE direction)

CLASSES = b"adlsuwxpczADLSUWXPCZ"
LITS = b"ab1 .-_(){}AZ"
NOISE = [97, 98, 49, 32, 46, 45, 95, 40, 41, 123, 125, 65, 90, 10, 0, 233, 255, 37, 93, 94, 42, 43, 44, 47]
# '-' in every position relative to ranges: range start, range end, after a complete range,
# leading, trailing, alone, after a %class, with ']' first ({lo}/{hi}: bytes around '-')
DASH_SETS = ["--{hi}", "{lo}--", "a--", "{lo}--z", "{lo}-{hi}-a", "a-c-e", "-a", "a-", "-", "%w-", "%a-z",
             "]-a", "]--", "{lo}---{hi}", "--", "---", "%--{hi}", "{lo}-{hi}-"]
SPECIAL = b"^$()%.[]*+-?"
# bytes that may follow '%' as a plain escape: every letter except b/f (balance, frontier), punctuation,
# control and high bytes (digits are back-references and are generated elsewhere)
ESCAPABLE = ([c for c in range(65, 91)] + [c for c in range(97, 123) if c not in (98, 102)] +
             [33, 35, 36, 37, 38, 40, 41, 42, 43, 44, 45, 46, 47, 58, 63, 64, 91, 93, 94, 95, 96, 123, 126] +
             [1, 10, 127, 128, 160, 233, 255])


def twin(c):
    return c + 32 if 65 <= c <= 90 else c - 32 if 97 <= c <= 122 else c


class PatGen:
    """Builds a pattern (bytes) together with a sampler for a subject that is
    likely to match it."""

    def __init__(self, rng):
        self.rng = rng
        self.ncap = 0          # captures opened so far
        self.closed = []       # indices of closed non-position captures
        self.nquant = 0

    def single(self):
        """(pattern bytes, function -> one matching byte or None)"""
        rng = self.rng
        r = rng.random()
        if r < 0.40:
            c = rng.choice(LITS)
            if c in SPECIAL:
                return bytes([37, c]), lambda: c
            return bytes([c]), lambda: c
        if r < 0.50:
            return b".", lambda: rng.choice(NOISE)
        if r < 0.58:
            x = rng.choice(ESCAPABLE)
            if chr(x) in "acdlpsuwxzACDLPSUWXZ":
                return bytes([37, x]), lambda: rng.choice([self.member(x), x, twin(x), 35])
            return bytes([37, x]), lambda: rng.choice([x, x, twin(x), 35])
        if r < 0.72:
            cl = rng.choice(CLASSES)
            return bytes([37, cl]), lambda: self.member(cl)
        return self.cset()

    def member(self, cl):
        rng = self.rng
        table = {"a": b"abzAZ", "d": b"0159", "l": b"abz", "s": b" \t\n", "u": b"AZQ", "w": b"ab1Z9",
                 "x": b"09afAF", "p": b".-_(){}%", "c": b"\n\x00\x7f", "z": b"\x00"}
        lo = chr(cl).lower()
        if chr(cl).islower():
            return rng.choice(table[lo])
        return rng.choice([c for c in NOISE if c not in table[lo]] or [33])

    def cset(self):
        """a [set] with ranges, classes, complement and the awkward members"""
        rng = self.rng
        neg = rng.random() < 0.3
        if rng.random() < 0.2:
            lo, hi = rng.choice("!*+,"), rng.choice("./0:")
            body = rng.choice(DASH_SETS).format(lo=lo, hi=hi).encode()
            pat = b"[" + (b"^" if neg else b"") + body + b"]"
            near = [ord(lo) - 1, ord(lo), ord(lo) + 1, 44, 45, 46, ord(hi) - 1, ord(hi), ord(hi) + 1, 97, 98, 100, 101, 122, 93]
            return pat, lambda: rng.choice(near)
        body = b""
        members = []
        if rng.random() < 0.12:
            body += b"]"
            members.append(93)
        if rng.random() < 0.10:
            body += b"-"
            members.append(45)
        for _ in range(rng.randint(1, 3)):
            r = rng.random()
            if r < 0.40:
                lo = rng.choice(b"a0A")
                hi = lo + rng.randint(0, 5)
                body += bytes([lo, 45, hi])
                members.append(rng.randint(lo, hi))
            elif r < 0.65:
                cl = rng.choice(CLASSES)
                body += bytes([37, cl])
                members.append(self.member(cl))
            elif r < 0.75:
                c = rng.choice(b"]%-^") if rng.random() < 0.5 else rng.choice(ESCAPABLE)
                body += bytes([37, c])
                members.append(c if chr(c) not in "acdlpsuwxzACDLPSUWXZ" else self.member(c))
            else:
                c = rng.choice(b"ab1 ._(A^")
                body += bytes([c])
                members.append(c)
        if rng.random() < 0.12:
            body += b"-"
            members.append(45)
        if body.startswith(b"^") and not neg:
            body = b"a" + body
        pat = b"[" + (b"^" if neg else b"") + body + b"]"
        if neg:
            return pat, lambda: rng.choice([c for c in NOISE if c not in members] or [33])
        return pat, lambda: rng.choice(members)

    def item(self):
        """single char class with an optional quantifier -> (pat, sampler of bytes)"""
        rng = self.rng
        pat, one = self.single()
        if rng.random() < 0.45 and self.nquant < 4:
            self.nquant += 1
            q = rng.choice(b"*+-?")
            lo, hi = {42: (0, 3), 43: (1, 3), 45: (0, 2), 63: (0, 1)}[q]
            return pat + bytes([q]), lambda: bytes(one() for _ in range(rng.randint(lo, hi)))
        return pat, lambda: bytes([one()])

    def seq(self, depth, n):
        """sequence of items / captures / back-references / %b -> (pat, sampler(caps))"""
        rng = self.rng
        parts = []
        for _ in range(n):
            r = rng.random()
            if r < 0.16 and depth < 2 and self.ncap < 4:
                self.ncap += 1
                me = self.ncap
                ip, isam = self.seq(depth + 1, rng.randint(1, 3))
                self.closed.append(me)

                def csam(caps, isam=isam, me=me):
                    t = isam(caps)
                    caps[me] = t
                    return t
                parts.append((b"(" + ip + b")", csam))
            elif r < 0.22 and self.ncap < 4:
                self.ncap += 1
                parts.append((b"()", lambda caps: b""))
            elif r < 0.30 and (self.closed or rng.random() < 0.1):
                k = rng.choice(self.closed) if self.closed and rng.random() < 0.9 else rng.randint(0, 5)
                parts.append((bytes([37, 48 + k]), lambda caps, k=k: caps.get(k, b"")))
            elif r < 0.36:
                x, y = rng.choice([(40, 41), (123, 125), (97, 98), (34, 34)])

                def bsam(caps, x=x, y=y):
                    inner = bytes(rng.choice([97, 32, 49]) for _ in range(rng.randint(0, 2)))
                    if rng.random() < 0.4 and x != y:
                        inner = bytes([x]) + inner + bytes([y])
                    return bytes([x]) + inner + bytes([y])
                parts.append((bytes([37, 98, x, y]), bsam))
            else:
                ip, isam = self.item()
                parts.append((ip, lambda caps, isam=isam: isam()))
        return b"".join(p for p, _ in parts), lambda caps: b"".join(f(caps) for _, f in parts)


def rand_bytes(rng, n, alpha=NOISE):
    return bytes(rng.choice(alpha) for _ in range(n))


def gen_pattern(rng):
    """-> (pattern bytes, subject bytes)"""
    g = PatGen(rng)
    pat, sam = g.seq(0, rng.randint(1, 5))
    core = sam({})
    anchored_head = rng.random() < 0.2
    anchored_tail = rng.random() < 0.2
    if anchored_head:
        pat = b"^" + pat
    if anchored_tail:
        pat = pat + b"$"
    # subject: the sample, usually embedded, sometimes disturbed
    pre = b"" if (anchored_head and rng.random() < 0.7) else rand_bytes(rng, rng.randint(0, 4))
    post = b"" if (anchored_tail and rng.random() < 0.7) else rand_bytes(rng, rng.randint(0, 4))
    subj = bytearray(pre + core + post)
    if rng.random() < 0.35 and subj:
        for _ in range(rng.randint(1, 2)):
            k = rng.randrange(len(subj) + 1)
            r = rng.random()
            if r < 0.4 and k < len(subj):
                del subj[k]
            elif r < 0.7 and k < len(subj):
                subj[k] = rng.choice(NOISE)
            else:
                subj.insert(k, rng.choice(NOISE))
    if rng.random() < 0.15:
        subj = bytearray(bytes(subj) * 2)
    subj = bytes(subj[:24])
    # malformed / odd patterns
    r = rng.random()
    if r < 0.10:
        k = rng.randrange(len(pat) + 1)
        pat = pat[:k] + bytes([rng.choice(SPECIAL)]) + pat[k:]
    elif r < 0.16 and len(pat) > 1:
        k = rng.randrange(len(pat))
        pat = pat[:k] + pat[k + 1:]
    elif r < 0.20:
        pat = pat[:rng.randrange(len(pat) + 1)]
    elif r < 0.24:
        pat = rand_bytes(rng, rng.randint(1, 6), list(SPECIAL) + [97, 98, 49])
    pat = pat.replace(b"\x00", b"a")
    while b"%f" in pat:                      # frontier: not part of the property
        pat = pat.replace(b"%f", b"%g")
    return pat[:40], subj


def gen_repl(rng, subj):
    r = rng.random()
    if r < 0.04:
        return ["n", rng.randint(0, 120)]     # a number is accepted as the replacement string
    if r < 0.6:
        out = b""
        for _ in range(rng.randint(0, 4)):
            q = rng.random()
            if q < 0.45:
                out += bytes([rng.choice(b"xy <>-")])
            elif q < 0.85:
                out += bytes([37, rng.choice(b"0011223")])
            elif q < 0.93:
                out += b"%%"
            else:
                out += bytes([37, rng.choice(b"ax. ")])
        if rng.random() < 0.04:
            out += b"%"
        return ["s", list(out)]
    keys, pairs = set(), []
    for _ in range(rng.randint(0, 6)):
        if rng.random() < 0.7:
            a = rng.randrange(len(subj) + 1)
            k = ("s", bytes(subj[a:a + rng.randint(0, 3)]))
        else:
            k = ("n", rng.randint(1, len(subj) + 1))
        if k in keys:
            continue
        keys.add(k)
        q = rng.random()
        v = (["s", list(rand_bytes(rng, rng.randint(0, 3), b"XY%0"))] if q < 0.55 else ["b", False] if q < 0.70
             else ["n", rng.randint(-3, 120)] if q < 0.85 else ["nil"] if q < 0.93 else ["b", True])
        pairs.append([[k[0], list(k[1]) if k[0] == "s" else k[1]], v])
    return ["t" if r < 0.8 else "f", pairs]


def gen_cases(rng, n):
    cases = []
    for i in range(n):
        pat, subj = gen_pattern(rng)
        if rng.random() < 0.03:
            pat = b""
        c = {"id": i + 1, "s": list(subj), "p": list(pat)}
        r = rng.random()
        if r < 0.06:
            # the iterator driven by hand: two iterators stepped alternately, past exhaustion
            c["fn"] = "gmatchiter"
            c["s2"] = list(gen_pattern(rng)[1][:12]) if rng.random() < 0.6 else list(subj[::-1])
            c["k"] = rng.randint(1, 6)
            c["mode"] = rng.randint(0, 1)
        elif r < 0.35:
            c["fn"] = "find"
        elif r < 0.55:
            c["fn"] = "match"
        elif r < 0.70:
            c["fn"] = "gmatch"
        else:
            c["fn"] = "gsub"
        c["i"] = ["nil"]
        c["n"] = ["nil"]
        c["repl"] = ["s", []]
        if c["fn"] in ("find", "match") and rng.random() < 0.6:
            c["i"] = ["n", rng.randint(-len(subj) - 3, len(subj) + 4)]
            if rng.random() < 0.25:     # other forms of the same optional argument
                c["i"] = rng.choice([["xnil"], ["h", c["i"][1]], ["str", c["i"]], ["str", ["h", c["i"][1]]],
                                     ["big", 31], ["big", 53], ["nbig", 53], ["bad"]])
        if c["fn"] == "find":
            c["pl"] = rng.choice(PLAIN_FORMS) if rng.random() < 0.15 else ["nil"]
        if c["fn"] == "gsub":
            c["repl"] = gen_repl(rng, subj)
            if rng.random() < 0.3:
                c["n"] = ["n", rng.randint(-1, 4)]
                if rng.random() < 0.3:
                    c["n"] = rng.choice([["xnil"], ["h", c["n"][1]], ["str", c["n"]], ["big", 31], ["big", 53],
                                         ["nbig", 31], ["bad"]])
        cases.append(c)
    return cases


# ---------------------------------------------------------------------------
# TRACE direction: record on the real functions, validate with PatternTrace

def observe(cases, tag):
    """Run the cases on the real functions; returns (records with 'o', hang)."""
    sd = vlib.subdir("c14")
    inp = os.path.join(sd, "cases_%s.ndjson" % tag)
    outp = os.path.join(sd, "obs_%s.ndjson" % tag)
    vlib.write_ndjson(inp, cases)
    rc, out, err = vlib.run_harness(["c14-run", "--in", inp, "--out", outp, "--workers", "4"],
                                    timeout=900, check=False)
    if rc == 3:
        return [], json.loads(out.strip().splitlines()[-1])["hang"]
    if rc != 0:
        raise vlib.Infra("c14-run failed (rc=%d): %s" % (rc, err[-2000:]))
    recs = vlib.read_ndjson(open(outp).read())
    if len(recs) != len(cases):
        raise vlib.Infra("c14-run returned %d records for %d cases" % (len(recs), len(cases)))
    os.remove(inp)
    os.remove(outp)
    return recs, None


def validate(recs, tag, stats, batch=5000):
    """PatternTrace on the records; returns the list of rejected records
    (each with 'exp' and 'mal' added)."""
    byid = {r["id"]: r for r in recs}
    rejected = []
    d = vlib.specdir()
    for b in range(0, len(recs), batch):
        part = recs[b:b + batch]
        fn = "c14_%s_%d.ndjson" % (tag, b)
        vlib.write_ndjson(os.path.join(d, fn), part)
        r = vlib.run_tlc("PatternTrace", "PatternTrace", consts={"File": '"%s"' % fn},
                         workers=WORKERS, timeout=1200, heap="4g")
        os.remove(os.path.join(d, fn))
        stats["states"] += r.distinct
        stats["transitions"] += r.generated
        vs = r.tag("VERDICT")
        if len(vs) != len(part) or len({v["id"] for v in vs}) != len(part):
            raise vlib.Infra("PatternTrace: %d verdicts for %d records (%s)" % (len(vs), len(part), tag))
        for v in vs:
            if not v["ok"]:
                rec = dict(byid[v["id"]])
                rec["exp"] = v["exp"]
                rec["mal"] = v["mal"]
                rejected.append(rec)
    return rejected


def keys_for(rejected):
    """Narrow case keys from the shared classifier in the harness."""
    if not rejected:
        return {}
    sd = vlib.subdir("c14")
    inp = os.path.join(sd, "rej.ndjson")
    vlib.write_ndjson(inp, rejected)
    rc, out, err = vlib.run_harness(["c14-key", "--in", inp], timeout=300)
    ks = vlib.read_ndjson(out)
    for r in rejected:
        r["feat"] = next(k["feat"] for k in ks if k["id"] == r["id"])
    return {k["id"]: k["key"] for k in ks}


def report(verd, key, rec, origin, total=None):
    exp = rec.get("exp", rec.get("adm"))
    what = "%s returned %s, reference %s: %s%s" % (
        show(rec), json.dumps(rec["o"])[:160], "result" if "exp" in rec else "admits",
        json.dumps(exp)[:160], " [%d such cases in %s]" % (total, origin) if total else " [%s]" % origin)
    if rec.get("feat"):
        what += " {pattern features: %s}" % rec["feat"]
    case = {k: rec[k] for k in ("fn", "s", "p", "i", "pl", "repl", "n", "s2", "k", "mode") if k in rec}
    verd.candidate(key, what, {"case": case, "observed": rec["o"], "reference": exp, "origin": origin,
                               "lua": show(rec)})


# ---------------------------------------------------------------------------
# MC + GEN direction

def mc_gen(tag, palpha, salpha, maxp, maxs, stats, verd, cov, timeout, module="PatternMC", cfg="PatternMCGen"):
    t0 = time.time()
    consts = {"PAlpha": tlaset(palpha), "SAlpha": tlaset(salpha), "MaxP": maxp, "MaxS": maxs}
    if module == "PatternMC":
        consts["First"] = tlaset(palpha)
    r = vlib.run_tlc(module, cfg, consts=consts, workers=WORKERS, timeout=timeout)
    stats["states"] += r.distinct
    stats["transitions"] += r.generated
    nsub = sum(len(salpha) ** k for k in range(maxs + 1))
    vlib.log("[C14] MC %s: %d patterns (all over %d symbols, length <= %d) x %d subjects (length <= %d over %s): "
             "laws WellFormed/Regular/Captures/Drivers hold, reference results exported (%.0fs)" % (
                 tag, r.distinct, len(palpha), maxp, nsub, maxs, repr(b2s(salpha))[:48], r.wall))
    sd = vlib.subdir("c14")
    genf = os.path.join(sd, "gen_%s.txt" % tag)
    outf = os.path.join(sd, "gen_%s.json" % tag)
    with open(genf, "w") as f:
        f.write(r.raw)
    r.raw, r.lines = "", []
    t1 = time.time()
    rc, out, err = vlib.run_harness(["c14-gen", "--in", genf, "--out", outf, "--workers", "6"],
                                    timeout=1500, check=False)
    os.remove(genf)
    if rc == 3:
        hang = json.loads(out.strip().splitlines()[-1])["hang"]
        verd.candidate("C14:hang", "the real matcher did not return within the deadline on pattern %r" % b2s(hang),
                       {"pattern": hang, "origin": "GEN " + tag})
        return
    if rc != 0:
        raise vlib.Infra("c14-gen failed (rc=%d): %s" % (rc, err[-2000:]))
    res = json.load(open(outf))
    if res["patterns"] != r.generated or res["pairs"] != r.generated * nsub:
        raise vlib.Infra("c14-gen consumed %d patterns / %d pairs, TLC exported %d x %d" % (
            res["patterns"], res["pairs"], r.generated, nsub))
    cov["gen"].append({"scope": tag, "patterns": res["patterns"], "pattern_subject_pairs": res["pairs"],
                       "real_calls_compared": res["calls"], "calls_where_reference_matches": res["calls_with_reference_match"],
                       "rejected_calls": res["mismatches"],
                       "rejected_by_key": {k: v["n"] for k, v in sorted(res["keys"].items())}})
    cov["samples"] += [{"call": show(s), "observed": s["o"]} for s in res["samples"][:3]]
    # every reported example is re-run and re-decided by TLC in TRACE mode
    ex = []
    for key, v in sorted(res["keys"].items()):
        for e in v["ex"]:
            e = dict(e)
            e["id"] = len(ex) + 1
            e["_key"], e["_n"] = key, v["n"]
            ex.append(e)
    if ex:
        clean = [{k: v for k, v in e.items() if k not in ("o", "adm", "feat", "_key", "_n")} for e in ex]
        recs, hang = observe(clean, "confirm_" + tag)
        rej = {x["id"]: x for x in validate(recs, "confirm_" + tag, stats)}
        cov["confirmed"] += len(rej)
        for e in ex:
            if e["id"] not in rej:
                raise vlib.Infra("GEN candidate not reproduced in TRACE mode: %s" % show(e))
            rej[e["id"]]["feat"] = e.get("feat")
            report(verd, e["_key"], rej[e["id"]], "GEN " + tag, e["_n"])
    vlib.log("[C14] GEN %s: %d real calls compared with the exported results (%d with a reference match), "
             "%d rejected in %d classes (harness %.0fs)" % (tag, res["calls"], res["calls_with_reference_match"],
                                                          res["mismatches"], len(res["keys"]), time.time() - t1))


def stress(verd, cov, scale):
    rc, out, err = vlib.run_harness(["c14-stress", "--scale", str(scale), "--deadline", "60"], timeout=600, check=False)
    rows = [json.loads(l) for l in out.splitlines() if l.startswith("{")]
    last = [l for l in err.splitlines() if l.startswith("begin ")]
    last = last[-1][6:] if last else "?"
    for r in rows:
        if "hang" in r:
            verd.candidate("C14:stress:hang:" + str(r["hang"]), "no result within 60 s: " + str(r["hang"]), r)
        elif r["kind"] not in ("nil", "m", "g", "r", "err", "none"):
            verd.candidate("C14:stress:%s:%s" % (r["kind"], r["name"]),
                           "large input %s ends in %s: %s" % (r["name"], r["kind"], r.get("msg", "")), r)
    if rc not in (0, 3):
        verd.candidate("C14:stress:crash:" + last, "the process died (rc=%d) on %s: %s" % (rc, last, err[-400:]),
                       {"case": last, "stderr": err[-2000:]})
    cov["stress"] = [{k: r[k] for k in ("name", "kind", "ms", "slen") if k in r} for r in rows]
    vlib.log("[C14] stress: %d large inputs, outcomes %s" % (len(rows), sorted({r.get("kind", "hang") for r in rows})))


def random_direction(n, verd, stats, cov):
    t0 = time.time()
    rng = random.Random(vlib.seed() * 104729 + 14)
    cases = gen_cases(rng, n)
    cases += family_cases(len(cases) + 1)
    recs, hang = observe(cases, "rand")
    if hang is not None:
        verd.candidate("C14:%s:hang" % hang.get("fn", "?"), "no result within the deadline: " + show(hang),
                       {"case": hang, "origin": "random"})
        return
    t1 = time.time()
    rejected = validate(recs, "rand", stats)
    keys = keys_for(rejected)
    bykey = {}
    for r in rejected:
        bykey.setdefault(keys[r["id"]], []).append(r)
    for key, rs in sorted(bykey.items()):
        rs.sort(key=lambda r: (len(r["p"]) + len(r["s"]), r["id"]))
        for r in rs[:2]:
            report(verd, key, r, "random", len(rs))
    kinds = {}
    for r in recs:
        kinds[r["fn"] + ":" + str(r["o"][0])] = kinds.get(r["fn"] + ":" + str(r["o"][0]), 0) + 1
    nontrivial = sum(1 for r in recs if r["o"][0] in ("m", "i") or (r["o"][0] == "g" and r["o"][1]) or (r["o"][0] == "r" and r["o"][2] > 0))
    cov["random"] = {"cases": len(recs), "observed_outcomes": dict(sorted(kinds.items())),
                     "cases_where_real_code_matched": nontrivial, "rejected": len(rejected),
                     "rejected_by_key": {k: len(v) for k, v in sorted(bykey.items())}}
    cov["samples"] += [{"call": show(r), "observed": r["o"]} for r in recs[:3]]
    vlib.log("[C14] TRACE: %d seeded random calls recorded (%.0fs) and validated by PatternTrace (%.0fs): "
             "%d rejected in %d classes; %d calls with a match" % (len(recs), t1 - t0, time.time() - t1,
                                                                  len(rejected), len(bykey), nontrivial))


def run(tier):
    t0 = time.time()
    verd = vlib.Verdicts(PROP)
    stats = {"states": 0, "transitions": 0}
    cov = {"gen": [], "samples": [], "confirmed": 0}
    vlib.build_harness()
    thorough = tier == "thorough"
    if thorough:
        mc_gen("P16^<=4 x {a,b}^<=2", P16, [97, 98], 4, 2, stats, verd, cov, 2400)
        mc_gen("P16^<=3 x {a,b,1}^<=4", P16, [97, 98, 49], 3, 4, stats, verd, cov, 2400)
    else:
        mc_gen("P16^<=3 x {a,b}^<=2", P16, [97, 98], 3, 2, stats, verd, cov, 600)
    # every bracket set "[" body "]": '-' in every position relative to ranges
    # (quick: body without '/', the ranges "--a" and "+-a" take the place of "--/" and "+-/")
    mc_gen("sets [body<=%d] x 1 byte" % (5 if thorough else 4), SETB if thorough else [c for c in SETB if c != 47],
           SETS, 5 if thorough else 4, 1,
           stats, verd, cov, 2400, module="PatternSets", cfg="PatternSets")
    # '%x' for every kind of byte x, outside and inside sets, against x, its twin and neutral bytes
    if thorough:
        # two halves (the other-case twin of x always lies in the same half)
        mc_gen("escapes %%x, x in 1..127 x 1 byte" % (), [c for c in ESCT if c < 128], list(range(0, 128)) + [233],
               6, 1, stats, verd, cov, 2400, module="PatternEsc", cfg="PatternEsc")
        mc_gen("escapes %%x, x in 128..255 x 1 byte" % (), [c for c in ESCT if c >= 128], [0, 35, 65, 97] + list(range(128, 256)),
               6, 1, stats, verd, cov, 2400, module="PatternEsc", cfg="PatternEsc")
    else:
        mc_gen("escapes %%x, %d bytes x x 1 byte" % len(ESCQ), ESCQ, sorted(set(ESCQ + [102])), 4, 1, stats, verd, cov,
               900, module="PatternEsc", cfg="PatternEsc")
    random_direction(60000 if thorough else 4000, verd, stats, cov)
    stress(verd, cov, 1)
    rc = verd.finish()
    gen_calls = sum(g["real_calls_compared"] for g in cov["gen"])
    gen_match = sum(g["calls_where_reference_matches"] for g in cov["gen"])
    rnd = cov.get("random", {"cases": 0, "cases_where_real_code_matched": 0})
    vlib.write_evidence(PROP, tier, "model_checking", {
        "states": stats["states"], "transitions": stats["transitions"],
        "traces_validated_against_impl": rnd["cases"] + cov["confirmed"],
        "evaluations": gen_calls + rnd["cases"],
        "distinct_nontrivial": gen_match + rnd["cases_where_real_code_matched"],
        "rule": "one evaluation = one call of the real string.find/match/gmatch/gsub whose result was compared with the "
                "result computed by TLC from Pattern.tla; all (pattern, subject, init/replacement) tuples are distinct by "
                "construction (exhaustive enumeration) or by seed; non-trivial = the reference (GEN) / the real code (TRACE) "
                "reports at least one match",
        "exhaustive": True,
        "exhaustive_scope": [g["scope"] for g in cov["gen"]],
        "gen": cov["gen"], "random": cov.get("random"), "stress": cov.get("stress"),
        "gen_candidates_confirmed_in_trace_mode": cov["confirmed"],
        "samples": cov["samples"][:8],
        "known_findings_hit": sorted(verd.known_hit),
    }, time.time() - t0, len(verd.violations), assumptions=[
        "patterns contain no byte 0 (C strings in 5.1) and no %f (frontier is outside the property statement)",
        "exhaustive scope: pattern alphabet a b . % [ ] ^ $ ( ) * + - ? 1 d, init in -5..5 and absent, 7 replacement cases",
        "set scope: every '[' body ']' with body <= 4 (thorough 5) over ] ^ - + / % a (quick without /) x subjects of <= 1 byte around the range bounds",
        "escape scope: '%x' and 4 (thorough 6) shapes around it, outside and inside sets, for x = all letters but f, digits, punctuation, control and high bytes (thorough: every byte 1..255 but f) x subjects of <= 1 byte containing x and its other-case twin",
        "optional-argument family (every run, 1164 calls): init of find/match and the gsub limit absent / nil / 0 / negative / beyond the length / fraction / numeric string / +-2^31 / +-2^53 / non-numeric, plain flag of find absent / nil / false / true / 0 / '' / 1 / 'x'; fractions are truncated towards zero (C cast of luaL_optinteger on LP64), a limit of 2^e admits both 'all' and 'none' (implementation-defined (int) cast)",
        "random scope: patterns <= 40 bytes, subjects <= 24 bytes, <= 4 captures, <= 4 quantifiers",
        "a malformed pattern/replacement may give a Lua error, no match, or the reference result",
        "error message texts are not compared",
        "large inputs (stress) are only checked for 'returns a value or a Lua error in time'"])
    return rc


def replay(path):
    rec = json.load(open(path))
    case = dict(rec["replay"]["case"])
    case["id"] = 1
    vlib.build_harness()
    recs, hang = observe([case], "replay")
    if hang is not None:
        vlib.log("VIOLATION property=%s replay=%s (hang)" % (PROP, path))
        return 1
    stats = {"states": 0, "transitions": 0}
    rej = validate(recs, "replay", stats)
    vlib.log("[C14] replay %s: observed %s" % (show(case), json.dumps(recs[0]["o"])))
    if not rej:
        vlib.log("[C14] replay: admissible (conforms to Pattern.tla)")
        return 0
    key = keys_for(rej)[1]
    vlib.log("VIOLATION property=%s replay=%s" % (PROP, path))
    vlib.log("  key=%s: reference %s (malformed=%s)" % (key, json.dumps(rej[0]["exp"]), rej[0]["mal"]))
    return 1


def selftest():
    """The binding must notice a wrong result: corrupt recorded results that
    PatternTrace accepted (extent, capture, count, missing iteration) and
    require that every corrupted record is rejected."""
    vlib.build_harness()
    rng = random.Random(vlib.seed() * 31 + 7)
    recs, hang = observe(gen_cases(rng, 600), "self")
    stats = {"states": 0, "transitions": 0}
    bad = {r["id"] for r in validate(recs, "self", stats)}
    corrupted = []
    for r in recs:
        o = r["o"]
        if r["id"] in bad or o[0] not in ("m", "r", "g") or r["fn"] == "gmatchiter":
            continue
        c = json.loads(json.dumps(r))
        o = c["o"]
        if r["fn"] == "find":
            o[2] += 1
        elif r["fn"] == "match":
            if o[1][0][0] == "s":
                o[1][0][1].append(120)
            else:
                o[1][0][1] += 1
        elif r["fn"] == "gmatch":
            if not o[1]:
                continue
            o[1].pop()
        else:
            o[2] += 1
        corrupted.append(c)
    rejected = {r["id"] for r in validate(corrupted, "self2", stats)}
    missed = [c for c in corrupted if c["id"] not in rejected]
    vlib.log("[C14] selftest: %d corrupted records, %d rejected by PatternTrace" % (len(corrupted), len(rejected)))
    for c in missed[:5]:
        vlib.log("  NOT rejected: %s -> %s" % (show(c), json.dumps(c["o"])[:200]))
    return 0 if corrupted and not missed else 2
