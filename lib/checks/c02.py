"""C02 - calls pass/return exactly the prescribed values; proper tail calls.
Oracle: LuaSem's call rules (Adjust by syntactic context, varargs, arg table,
method sugar, __call, host callees) evaluated by TLC on every call shape."""
import json, random, time
import vlib, lsem, gen_calls, gen_core, gen_shapes
from luagen import render

PROP = "C02"


def run(tier):
    t0 = time.time()
    thorough = tier == "thorough"
    rng = random.Random(vlib.seed() * 7 + 2)
    fams = []
    shapes, nshapes = gen_calls.gen_shapes(rng, 12000 if thorough else 1600)
    for s, (p, root) in shapes:
        fams.append(("shape", p, root, None))
    for p, root in gen_calls.gen_nested(rng, 1500 if thorough else 300):
        fams.append(("nested", p, root, None))
    for p, root in gen_shapes.tabcons_cases(rng, 1500 if thorough else 300):
        fams.append(("tabcons", p, root, None))
    for i in range(600 if thorough else 150):
        p, root, src = gen_core.gen_program(vlib.seed() * 1000000 + 500000 + i, feats={"func", "varargs", "table", "closure"}, err_rate=0.05)
        fams.append(("randcall", p, root, src))
    for p, root in gen_calls.minimal_callees():
        fams.append(("minimal", p, root, None))
    for p, root in gen_calls.vararg_after_call_cases():
        fams.append(("vaaftercall", p, root, None))
    for p, root in gen_calls.short_return_cases():
        fams.append(("shortret", p, root, None))
    for p, root in gen_calls.xpcall_surplus_cases():
        fams.append(("xpsurplus", p, root, None))
    for p, root in gen_calls.select_cases():
        fams.append(("select", p, root, None))
    # the same call shapes among many constants (operands beyond the RK range live in registers)
    import copy
    padded = [sp for sp in shapes if sp[0][-1] in ("method", "callobj", "lua")]
    for s, (p, root) in rng.sample(padded, min(len(padded), 500 if thorough else 90)):
        p2 = copy.deepcopy(p)
        p2, root2 = gen_shapes.pad(p2, root, rng.choice([0, 20, 80]), rng.choice([250, 255, 256, 257, 300, 511, 513, 600]))
        fams.append(("padshape", p2, root2, None))
    progs = lsem.number(fams)
    # deep tail calls under a small call stack (far beyond CallStackSize)
    tails = []
    for css, msm in ((32, False), (32, True)):
        for p, root in gen_calls.tail_loops(500):
            tails.append(("tail", p, root, None))
    tprogs = lsem.number(tails)
    k = 0
    for css, msm in ((32, False), (32, True)):
        for _ in range(len(tprogs) // 2):
            # a small fixed register file: a tail call that leaves anything behind overflows it
            tprogs[k]["opts"] = {"css": css, "msm": msm, "rs": 700, "rms": 700}
            tprogs[k]["id"] = len(progs) + k + 1
            k += 1
    verd, cov, allv, allo, stats = lsem.run_families(
        PROP, tier, progs + tprogs,
        "call shapes = product of (#params 0..3) x (fixed/.../arg/return ...) x (#args 0..4) x 21 result contexts x (#results 0..3) x callee kind (Lua, __call object, host, method, host re-entry), sampled from %d shapes; random nestings; callees that use nothing but their parameters reached by call/tail call/pcall/method/host re-entry with too few and too many arguments; select(n, ...) for every n around the list bounds in every all-results context; random programs with functions; tail-call loops of depth 500 under CallStackSize 32 (fixed and auto-growing stack); distinct by source hash, non-trivial = validated ok with >= 1 emit event" % nshapes,
        [], t0, max_steps=80000, nontrivial_min_emits=1)
    # tail family: every loop (except the non-tail control) must have completed without error
    for p in tprogs:
        o = allo[p["id"]]
        if "pcall" in p["src"]:
            continue
        if o["outcome"][0] != "ok" and allv[p["id"]]["v"] == "ok":
            pass
    # Frames (TLC): successive iterations of a tail-call loop see the same call depth, stack height and frame skeleton
    recs = [{"id": p["id"], "snaps": allo[p["id"]].get("snaps") or [], "nres": 0} for p in tprogs if allo[p["id"]].get("snaps")]
    nfr = 0
    for r in vlib.validate_batches("FramesTrace", "FramesTrace", recs, "c02fr", batch=4, parallel=4, timeout=900, heap="3g"):
        for v in r.tag("VERDICT"):
            nfr += 1
            if not v["ok"]:
                pp = [p for p in tprogs if p["id"] == v["id"]][0]
                verd.candidate("C02:frames:tail-loop:%s" % v["rule"], "tail-call loop: control skeleton violates '%s' at snapshot %d of %d" % (v["rule"], v["at"], v["n"]), {"program": pp, "verdict": v})
    vlib.log("[C02] FramesTrace: %d tail-call loops with per-iteration snapshots validated" % nfr)
    cov["frames_tail_loops_validated"] = nfr
    lsem.foot_pass(PROP, progs, verd, stats, cov)      # Frames stage 2 (specs/FramesStep.tla)
    rc = verd.finish()
    cov["known_findings_hit"] = sorted(verd.known_hit)
    cov["shape_space"] = nshapes
    vlib.write_evidence(PROP, tier, "model_checking", cov, time.time() - t0, len(verd.violations), assumptions=[
        "values are small integers / strings; host callees are the harness functions gret (returns k of its arguments) and gcall (re-enters Lua)",
        "call-stack consumption of tail calls is judged by completion at depth 500 under CallStackSize 32 (no 'stack overflow'), and by the control case that the same depth without a tail call does fail"])
    return rc


def replay(path):
    rec = json.load(open(path))
    if rec["replay"].get("foot"):
        return lsem.replay_foot(PROP, rec)
    p = rec["replay"]["program"]
    verd = vlib.Verdicts(PROP)
    verd.findings = []
    lsem.decide(PROP, [p], "replay", verd, {"states": 0, "transitions": 0}, {}, [], max_steps=80000)
    return verd.finish()


def selftest():
    return lsem.selftest(PROP, lsem.number([("shape", p, root, None) for s, (p, root) in gen_calls.gen_shapes(random.Random(5), 150)[0]]))
