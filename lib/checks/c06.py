"""C06 - coroutines transfer values and control exactly as Lua 5.1 coroutines.
Oracle: LuaSem's coroutine rules (one continuation per thread, status machine,
value transfer) evaluated by TLC; the status-machine invariants (exactly one
running thread, normal = resumer chain, dead keeps nothing) are checked by TLC
on every state of every validated program."""
import json, random, time
import vlib, lsem, gen_co

PROP = "C06"


def run(tier):
    t0 = time.time()
    thorough = tier == "thorough"
    rng = random.Random(vlib.seed() * 19 + 6)
    fams = []
    for p, root in gen_co.fixed_programs():
        fams.append(("fixed", p, root, None))
    for i in range(6000 if thorough else 900):
        p, root = gen_co.script_program(rng)
        fams.append(("script", p, root, None))
    progs = lsem.number(fams)
    verd, cov, allv, allo, stats = lsem.run_families(
        PROP, tier, progs,
        "coroutine scripts: 1-3 coroutines (create or wrap), bodies of 1-4 operations from {yield v*, resume any coroutine (incl. its resumer, itself, dead ones) v*, status/running, yield from nested and tail-called Lua calls, pcall inside the body, loop with locals and a shared upvalue across yields, return v*, error v}, main script of 2-6 resumes/status calls, payloads of 0-3 distinguishable values; fixed programs: generator in for-in, mutual resume, nesting depth 3, wrap error propagation, misuse from the main thread, locals/closures surviving suspension",
        [], t0, max_steps=20000, nontrivial_min_emits=3)
    lsem.foot_pass(PROP, progs, verd, stats, cov)      # Frames stage 2 (specs/FramesStep.tla)
    # the Go API: a host drives a thread with LState.Resume; the resumer's own stack is the same before and after every
    # resume, however many values the coroutine yields (Frames: GoBracket around the first resume, SamePlace between the rest)
    api_srcs = []
    for nvals in (0, 1, 3, 40):
        vals = ", ".join(str(10 + i) for i in range(nvals))
        api_srcs.append("local a, b = coroutine.yield(%s) emit('got', a, b) local c = coroutine.yield(%s) emit('got2', c) for i = 1, 30 do coroutine.yield(i%s) end return 'done'" % (vals, vals, (", " + vals) if vals else ""))
        api_srcs.append("local function deep(n) if n == 0 then return coroutine.yield(%s) end return (deep(n - 1)) end emit(deep(5)) emit(deep(2)) return %s" % (vals, vals or "nil"))
        api_srcs.append("emit('once') return %s" % (vals or "nil"))
        api_srcs.append("coroutine.yield(%s) error('after-yield')" % vals)
    aprogs = [{"id": i + 1, "fam": "apiresume", "src": src, "opts": {"resumed": True}, "snap": True} for i, src in enumerate(api_srcs)]
    aouts = lsem.run_real(aprogs, "c06api")
    recs = []
    for ap in aprogs:
        o = aouts[ap["id"]]
        if o["outcome"][0] not in ("ok", "err"):
            verd.candidate("C06:api-resume:%s" % o["outcome"][0], "driving %r with LState.Resume ended in %s" % (ap["src"][:60], o["outcome"]), {"program": ap, "real": o})
        recs.append({"id": ap["id"], "snaps": o.get("snaps") or [], "nres": 0})
    napi = 0
    for r in vlib.validate_batches("FramesTrace", "FramesTrace", recs, "c06api", batch=50, parallel=1, timeout=600, heap="2g"):
        stats["states"] += r.distinct
        for v in r.tag("VERDICT"):
            napi += 1
            if not v["ok"]:
                ap = aprogs[v["id"] - 1]
                verd.candidate("C06:api-resume:%s" % v["rule"], "LState.Resume on %r: the resumer's control skeleton violates '%s' at snapshot %d of %d" % (ap["src"][:60], v["rule"], v["at"], v["n"]),
                               {"program": ap, "verdict": v, "api": True})
    vlib.log("[C06] LState.Resume: %d host-driven threads, resumer snapshots validated by FramesTrace" % napi)
    cov["api_resume_runs"] = napi
    rc = verd.finish()
    cov["known_findings_hit"] = sorted(verd.known_hit)
    cov["spec_invariants_checked_on_every_state"] = ["CoInv: exactly one running, normal = resumer chain, dead keeps nothing"]
    vlib.write_evidence(PROP, tier, "model_checking", cov, time.time() - t0, len(verd.violations), assumptions=[
        "no yield across pcall, metamethods or for-in iterators (Lua 5.1 rejects them)",
        "error message texts of refused resumes are implementation-defined (any string accepted)"])
    return rc


def replay(path):
    rec = json.load(open(path))
    if rec["replay"].get("foot"):
        return lsem.replay_foot(PROP, rec)
    if rec["replay"].get("api") or rec["replay"]["program"].get("fam") == "apiresume":
        return run("quick")
    p = rec["replay"]["program"]
    verd = vlib.Verdicts(PROP)
    verd.findings = []
    lsem.decide(PROP, [p], "replay", verd, {"states": 0, "transitions": 0}, {}, [])
    return verd.finish()


def selftest():
    return lsem.selftest(PROP, lsem.number([("script",) + gen_co.script_program(random.Random(i)) + (None,) for i in range(150)]))
