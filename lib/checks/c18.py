"""C18 - table library keeps list semantics; sort gives an ordered permutation.
MC: ListRef (ltablib.c/lbaselib.c transcribed element by element over the
abstract Table map, with a reference sort that logs comparator calls) agrees
with the sequence specification ListLib on every history, query and sort law
(TLC).  Bind: histories exported by TLC from that state graph (all histories
to a depth, seeded random long ones) and enumerated sort cases (element
sequences x comparators x ways the list was built) are executed on the real
table library; ListTrace.tla validates every result, the list read back and a
battery of concat/unpack calls against ListLib (sort results are validated,
not compared: SortOK).  Histories also assign numeric keys outside the list
(0, negative, 1.5, 2^40, keys beyond a hole: maxn is the largest positive
numeric key of the whole table) and build lists longer than the registry
(concat compared by length + hashes, ListLib!ConcatDigest)."""
import itertools, json, os, random, time
import vlib

PROP = "C18"
INFRA_WHY = ("ood", "sortlog", "window")


# --------------------------------------------------------------------------
# case keys (DESIGN 2.6): one defect class = one key

def case_key(tr, b):
    pos, why, det, npre = b["pos"], b["why"], b["det"], b["npre"]
    ev = tr["ev"][pos - 1]
    op = ev["op"]
    arr_pre = tr["ev"][pos - 2]["arr"] if pos > 1 else 0
    tail_pre = arr_pre - npre          # nil slots the raw array kept behind the list before this call
    if why == "maxn" and det["exp"] != ["n", det["n"]]:
        return "C18:maxn:numeric-key-outside-the-list-ignored"     # the expected maximum is a key outside the list
    if op == "sort" and ev["cmp"]["kind"] == "ltnil" and why == "sort:error" and "function expected" in ev.get("msg", ""):
        return "C18:sort:explicit-nil-comparator-rejected"
    if op == "insx" and why == "noerr":
        return "C18:insert:extra-arguments-accepted"
    if op in ("rem", "rem_end") and why == "res" and ev["res"] == [["nil"]] and \
            (npre == 0 if op == "rem_end" else (ev["pos"] > npre or npre == 0)):
        return "C18:remove:no-element-returns-nil"                 # one nil instead of no value at all
    if op == "rem" and ev["pos"] < 1 and why in ("res", "rd", "len", "getn") and npre > 0:
        return "C18:remove:position-below-1-removes-last"
    if op == "rem_end" and tail_pre > 0 and why in ("res", "rd", "len", "getn"):
        return "C18:remove:trailing-nil-in-array"
    if op == "sort" and tail_pre > 0:
        nil_called = any(c[0] == ["nil"] or c[1] == ["nil"] for c in ev["calls"])
        nil_inside = any(x == ["nil"] for x in ev["rd"][1:npre + 1])
        if (why == "sort:args" and nil_called) or (why == "sort:perm" and nil_inside) or \
                (why == "sort:error" and "nil" in ev.get("msg", "")):
            return "C18:sort:trailing-nil-in-array"
    if why == "q":
        q = ev["q"][det["k"] - 1]
        exp = det["exp"]
        n = exp["n"]
        if q["q"] == "concatd":
            if q["err"] and not exp["err"] and "registry overflow" in q.get("msg", ""):
                return "C18:concat:long-list-registry-overflow"
            return "C18:concat:long-list:%s" % ("unexpected-error" if q["err"] else ("missing-error" if exp["err"] else "wrong-digest"))
        if q["q"] == "concat":
            # the argument region outside the list: i < 1, i > n or j > n given explicitly
            i_out = q["i"][0] == "n" and (q["i"][1] < 1 or q["i"][1] > n)
            j_out = q["j"][0] == "n" and q["j"][1] > n
            if i_out or j_out:
                return "C18:concat:index-outside-list-clamped"
        if q["q"] == "concat" and not exp["err"] and not q["err"] and q["r"][0] == "n" and str(q["r"][1]) == exp["s"]:
            return "C18:concat:single-number-returned-as-number"
        return "C18:%s:%s" % (q["q"], "unexpected-error" if q["err"] else ("missing-error" if exp["err"] else "wrong-result"))
    if op == "sort":
        # two code paths in the sorter: Lua comparator re-entry and the built-in order
        return "C18:sort:%s:%s" % (why.split(":")[-1], "default-order" if ev["cmp"]["kind"] in ("lt", "ltnil", "mt") else "comparator")
    return "C18:%s:%s" % (op, why)


def describe(tr, b):
    pos, why, det = b["pos"], b["why"], b["det"]
    v = b
    ev = tr["ev"][pos - 1]
    call = {k: ev[k] for k in ("op", "pos", "i", "v", "cmp", "k", "n", "a", "m") if k in ev}
    s = "history #%d event %d %s: %s (list length before the call %d, raw array %d)" % (
        tr["id"], pos, json.dumps(call), why, v["npre"], tr["ev"][pos - 2]["arr"] if pos > 1 else 0)
    if why == "q":
        q = ev["q"][det["k"] - 1]
        s += " query %s expected %s" % (json.dumps(q), json.dumps(det["exp"]))
    elif op_is(ev, "sort"):
        s += " out=%s calls=%s list after=%s %s" % (ev["out"], json.dumps(ev["calls"][:4]), json.dumps(ev["rd"][1:v["npre"] + 2]), ev.get("msg", "").split("\n")[0])
    else:
        s += " returned %s err=%s t[%d..]=%s #t=%s maxn=%s keys outside=%s detail=%s" % (
            json.dumps(ev["res"]), ev["err"], ev["rdfrom"], json.dumps(ev["rd"][:v["npre"] + 4]), ev["len"], json.dumps(ev["maxn"]),
            json.dumps(ev["xk"]), json.dumps(det))
    return s


def op_is(ev, name):
    return ev["op"] == name


# --------------------------------------------------------------------------
# run + validate

class Params:
    def __init__(self, W, QA=(0, 1, 2), QR=(-1, 0, 1, 2)):
        self.W, self.QA, self.QR = W, list(QA), list(QR)

    def obj(self):
        return {"W": self.W, "QA": self.QA, "QR": self.QR}


def run_histories(hists, par, tag, verd, stats, batch=1500, chunk=25000):
    """hists: list of dicts {h:[ops], q:.., keys:[..], mt:bool}.  Executes them on
    the real library (in chunks) and validates the traces with ListTrace.
    Returns (a sample trace, number of histories validated)."""
    n = 0
    sample = None
    for c0 in range(0, len(hists), chunk):
        smp, k = run_chunk(hists[c0:c0 + chunk], c0, par, tag, verd, stats, batch)
        n += k
        sample = sample or smp
    return sample, n


TLC_EV_FIELDS = ("op", "pos", "i", "v", "cmp", "k", "n", "a", "m", "err", "res", "rd", "rdfrom", "xk", "len", "getn", "maxn", "out", "calls")
TLC_Q_FIELDS = ("q", "sep", "sepb", "i", "j", "err", "r", "rs", "len", "h1", "h2")


def slim(t):
    """The fields of a trace ListTrace reads (TLC's JSON parsing is the bottleneck)."""
    evs = []
    for e in t["ev"]:
        d = {k: e[k] for k in TLC_EV_FIELDS if k in e}
        d["q"] = [{k: q[k] for k in TLC_Q_FIELDS if k in q} for q in e["q"]]
        evs.append(d)
    return {"id": t["id"], "keys": t["keys"], "ev": evs}


def run_chunk(hists, base, par, tag, verd, stats, batch):
    t0 = time.time()
    sd = vlib.subdir("c18")
    inp = os.path.join(sd, "hist_%s.json" % tag)
    outp = os.path.join(sd, "traces_%s.ndjson" % tag)
    H = []
    for i, h in enumerate(hists):
        H.append({"id": h.get("id", base + i + 1), "h": h["h"], "q": h.get("q", "last"), "keys": h.get("keys", []), "mt": h.get("mt", False),
                  "xkeys": h.get("xkeys", []), "dq": h.get("dq", [])})
    with open(inp, "w") as f:
        json.dump(dict(par.obj(), H=H), f)
    vlib.run_harness(["c18-run", "--in", inp, "--out", outp], timeout=900)
    recs = vlib.read_ndjson(open(outp).read())
    if len(recs) != len(hists):
        raise vlib.Infra("c18-run returned %d traces for %d histories" % (len(recs), len(hists)))
    os.remove(inp)
    os.remove(outp)
    t1 = time.time()
    byid = {t["id"]: t for t in recs}
    hbyid = {h["id"]: h for h in H}
    n = 0
    nq = 0
    done = {}
    nb = (len(recs) + batch - 1) // batch
    for r in vlib.validate_batches("ListTrace", "ListTrace", [slim(t) for t in recs], "c18_%s_%d" % (tag, base), batch=batch,
                                   parallel=6 if nb >= 6 else 4):
        stats["states"] += r.distinct
        stats["transitions"] += r.generated
        vs = r.tag("VERDICT")
        if len(vs) != r.nrecords:
            raise vlib.Infra("ListTrace: %d verdicts for %d traces (%s)" % (len(vs), r.nrecords, tag))
        for v in sorted(vs, key=lambda x: x["id"]):      # TLC workers print verdicts in any order
            n += 1
            tr = byid[v["id"]]
            stats["events"] += v["done"]
            done[v["id"]] = v["done"]
            resynced = any(b["why"] != "q" for b in v["bads"])
            forked = any(e["op"] == "ins" and e["pos"] <= 0 for e in tr["ev"][:v["done"]])   # the spec left a choice open
            if v["stop"] == "ood" and (resynced or forked):
                v["stop"] = "ood-after-resync"      # the rest of the history was planned for the expected list: not judged
            if v["stop"] in INFRA_WHY:
                raise vlib.Infra("history %s#%d left the model: %s at event %d: %s" % (
                    tag, v["id"], v["stop"], v["done"] + 1, json.dumps(tr["ev"][v["done"]])[:600]))
            if v["ok"]:
                continue
            stats["rejected"] += 1
            if v["stop"]:
                stats["stopped"][v["stop"]] = stats["stopped"].get(v["stop"], 0) + 1
            seen = set()
            for b in v["bads"]:
                if b["why"] == "q" and not b["det"]["exp"].get("sup", True):
                    raise vlib.Infra("history %s#%d: digest query outside what ConcatDigest defines" % (tag, v["id"]))
                key = case_key(tr, b)
                if key in seen:
                    continue            # one candidate per defect class and history
                seen.add(key)
                verd.candidate(key, tag + " " + describe(tr, b),
                               {"tag": tag, "params": par.obj(), "hist": hbyid[v["id"]], "trace": tr, "bad": b, "verdict": v})
    for t in recs:
        for e in t["ev"][:done[t["id"]]]:        # only what validation actually reached
            nq += len(e["q"])
            if e["op"] == "sort":
                stats["sorts"] += 1
                stats["cmpcalls"] += len(e["calls"])
                stats["sort_out"][e["out"]] = stats["sort_out"].get(e["out"], 0) + 1
            if e["arr"] > e["len"] >= 0:
                stats["tail_states"] += 1
    stats["queries"] += nq
    vlib.log("[C18]   %s[%d..]: %d histories, harness %.1fs, TLC validation %.1fs" % (tag, base + 1, n, t1 - t0, time.time() - t1))
    return recs[len(recs) // 3], n


# --------------------------------------------------------------------------
# sort cases: element sequences x comparators x ways the list was built

def N(i):
    return ["n", i]


def build_ops(xs, prep):
    """Operations (all inside the property's domain) that leave the list xs."""
    n = len(xs)
    if prep == "assign":            # t[1]=.., t[2]=.., ...
        return [{"op": "set", "i": i + 1, "v": x} for i, x in enumerate(xs)]
    if prep == "append":            # table.insert(t, v)
        return [{"op": "ins_end", "v": x} for x in xs]
    if prep == "front":             # table.insert(t, 1, v) in reverse
        return [{"op": "ins", "pos": 1, "v": x} for x in reversed(xs)]
    if prep.startswith("tail"):     # k more elements, deleted again by t[#t]=nil (trailing holes)
        k = int(prep[4:])
        ops = [{"op": "set", "i": i + 1, "v": x} for i, x in enumerate(xs + [N(9)] * k)]
        return ops + [{"op": "set", "i": n + k - d, "v": ["nil"]} for d in range(k)]
    if prep == "removed":           # two more elements taken away by table.remove
        ops = [{"op": "ins_end", "v": x} for x in xs[:1] + [N(8)] + xs[1:] + [N(9)]]
        return ops + [{"op": "rem_end"}, {"op": "rem", "pos": 2 if n >= 1 else 1}]
    raise ValueError(prep)


AFTER = [{"op": "ins_end", "v": N(7)}, {"op": "rem", "pos": 1}, {"op": "rem_end"}]

NUM_KINDS = [{"kind": k} for k in ("lt", "ltnil", "ltf", "gt", "lt0", "true", "false", "none", "alt")] + \
            [{"kind": "errat", "j": j} for j in (1, 2, 4, 7)]
OBJ_KINDS = [{"kind": k} for k in ("bykey", "true", "false", "alt", "ltf")]
MT_KINDS = [{"kind": k} for k in ("mt", "bykey", "none")]


def sort_cases(tier, rng):
    thorough = tier == "thorough"
    cases = []
    maxn = 5 if thorough else 4
    preps = ["assign", "append", "front", "tail1", "tail2", "removed"] if thorough else ["assign", "tail1", "removed"]
    # all sequences over three numbers
    for n in range(0, maxn + 1):
        for seq in itertools.product((1, 2, 3), repeat=n):
            xs = [N(x) for x in seq]
            for ci, c in enumerate(NUM_KINDS):
                for pi, prep in enumerate(preps):
                    if not thorough and n == maxn and (ci + pi + sum(seq)) % 3 != 0:
                        continue        # quick tier: a third of the longest sequences per (comparator, prep)
                    cases.append({"h": build_ops(xs, prep) + [{"op": "sort", "cmp": c}] + AFTER, "q": "none"})
    # strings and mixed element types (the default order fails on mixed pairs)
    for n in range(1, 4 if thorough else 3):
        for seq in itertools.product((["s", "a"], ["s", "b"], ["s", "c"], N(2)), repeat=n):
            for c in ({"kind": "lt"}, {"kind": "ltnil"}, {"kind": "ltf"}, {"kind": "gt"}, {"kind": "false"}):
                for prep in ("assign", "tail1"):
                    cases.append({"h": build_ops(list(seq), prep) + [{"op": "sort", "cmp": c}] + AFTER, "q": "none"})
    # objects: distinct identities with equal keys
    for n in range(1, maxn + 1):
        for keys in itertools.product((1, 2, 3), repeat=n):
            if not thorough and n >= 4 and sum(keys) % 2:
                continue
            xs = [["t", i + 1] for i in range(n)]
            for c in OBJ_KINDS:
                for prep in ("assign", "tail1") if not thorough else ("assign", "tail1", "front"):
                    cases.append({"h": build_ops(xs, prep) + [{"op": "sort", "cmp": c}] + AFTER, "q": "none", "keys": list(keys)})
            for c in MT_KINDS:
                for prep in ("assign", "tail1"):
                    cases.append({"h": build_ops(xs, prep) + [{"op": "sort", "cmp": c}] + AFTER, "q": "none", "keys": list(keys), "mt": True})
    # longer lists (Go's sort switches algorithm above 12 elements): seeded random
    small, cases = cases, []
    nbig = 600 if thorough else 90
    for _ in range(nbig):
        n = rng.choice([13, 14, 17, 24, 33, 50] if thorough else [13, 17, 30])
        shape = rng.choice(["rand", "sorted", "reversed", "fewdistinct", "organ"])
        if shape == "rand":
            vals = [rng.randint(1, 9) for _ in range(n)]
        elif shape == "sorted":
            vals = sorted(rng.randint(1, 9) for _ in range(n))
        elif shape == "reversed":
            vals = sorted((rng.randint(1, 9) for _ in range(n)), reverse=True)
        elif shape == "fewdistinct":
            vals = [rng.choice((1, 2)) for _ in range(n)]
        else:
            half = sorted(rng.randint(1, 9) for _ in range(n // 2))
            vals = half + sorted((rng.randint(1, 9) for _ in range(n - n // 2)), reverse=True)
        prep = rng.choice(["assign", "append", "tail1", "tail2", "removed"])
        if rng.random() < 0.3:
            n = min(n, 24)
            xs = [["t", i + 1] for i in range(n)]
            mt = rng.random() < 0.4
            c = rng.choice(MT_KINDS if mt else OBJ_KINDS)
            cases.append({"h": build_ops(xs, prep) + [{"op": "sort", "cmp": c}] + AFTER, "q": "none", "keys": vals[:n], "mt": mt})
        else:
            c = rng.choice(NUM_KINDS + [{"kind": "errat", "j": rng.randint(5, 60)}])
            cases.append({"h": build_ops([N(x) for x in vals], prep) + [{"op": "sort", "cmp": c}] + AFTER, "q": "none"})
    return small, cases


XKEYS_MC = [["n", 0], ["n", -1], ["f", 1], ["p", 40], ["n", 2], ["n", 3], ["n", 4]]
XKEYS_SIM = [["n", 0], ["n", -1], ["n", -3], ["f", 1], ["f", 0], ["f", -2], ["p", 40], ["p", 33]] + [["n", i] for i in range(2, 11)]


def long_cases(thorough):
    """Lists around and beyond the default registry size (5120 slots; concat used to push every
    element and separator): fill, optionally a few list calls, then concat with and without
    separator, whole list and sub-ranges.  Elements are (a*k)%m, 0 <= value < m."""
    NIL = ["nil"]
    cases = []
    lens = [2555, 2556, 2560, 5120, 30000]
    for ci, n in enumerate(lens):
        variants = [(7, 10, [])]
        if thorough:
            variants += [(1, 1000, [{"op": "rem_end"}, {"op": "ins_end", "v": N(5)}, {"op": "ins", "pos": 2, "v": N(77)}]),
                         (3, 7, [{"op": "rem", "pos": 1}, {"op": "set", "i": n, "v": N(123)}])]
        for a, m, more in variants:
            n2 = n + sum(1 for o in more if o["op"].startswith("ins") or (o["op"] == "set" and o["i"] == n)) \
                   - sum(1 for o in more if o["op"].startswith("rem"))
            dq = [{"sepb": [], "i": NIL, "j": NIL}, {"sepb": [44], "i": NIL, "j": NIL},
                  {"sepb": [44, 32], "i": N(2), "j": N(n2 - 1)}, {"sepb": [], "i": N(n2 - 2554), "j": NIL},
                  {"sepb": [45], "i": N(n2), "j": N(n2)}, {"sepb": [44], "i": N(n2 - 1), "j": N(n2 + 1)},
                  {"sepb": [44], "i": N(0), "j": N(3000)}, {"sepb": [44], "i": N(5), "j": N(4)}]
            if n > 10000 and not thorough:
                dq = dq[1:3]
            cases.append({"h": [{"op": "fill", "n": n, "a": a, "m": m}] + more, "q": "last", "dq": dq})
    return cases


def dedupe_sim(gen):
    """TLC -simulate evaluates the export on every successor it generates; keep
    one full-length history per prefix (a deterministic choice)."""
    groups = {}
    order = []
    for g in gen:
        k = vlib.canon_hash(g["h"][:-1])
        if k not in groups:
            groups[k] = []
            order.append(k)
        groups[k].append(g["h"])
    return [groups[k][int(k[:6], 16) % len(groups[k])] for k in order]


# --------------------------------------------------------------------------

def run(tier):
    t0 = time.time()
    thorough = tier == "thorough"
    verd = vlib.Verdicts(PROP)
    stats = {"states": 0, "transitions": 0, "events": 0, "queries": 0, "sorts": 0, "cmpcalls": 0,
             "rejected": 0, "tail_states": 0, "sort_out": {}, "stopped": {}}
    vlib.build_harness()
    seed = vlib.seed()
    # 1. MC: the reference transcription agrees with ListLib; sort laws
    mc = []
    runs = [("ListMC", {"MaxLen": 5 if thorough else 4, "MaxHist": 99})]
    runs.append(("ListMC_ex", {"MaxLen": 3 if thorough else 2, "MaxHist": 99}))
    if thorough:
        runs.append(("ListMC_nosort", {"MaxLen": 6, "MaxHist": 99}))
    for cfg, consts in runs:
        r = vlib.run_tlc("ListMC", cfg, consts=consts, timeout=1500, workers=8)
        mc.append({"cfg": cfg, "MaxLen": consts["MaxLen"], "generated": r.generated, "distinct": r.distinct})
        stats["states"] += r.distinct
        stats["transitions"] += r.generated
        vlib.log("[C18] MC %s MaxLen=%d: %d generated / %d distinct states; ListView, ResultsAgree, QueriesAgree%s hold (%.0fs)" % (
            cfg, consts["MaxLen"], r.generated, r.distinct, "" if "nosort" in cfg else ", SortLaws", r.wall))
    total = 0
    distinct = set()
    samples = []
    # 2. GEN: every history of the state graph to a depth, replayed, battery after the last call
    depth = 5 if thorough else 4
    r = vlib.run_tlc("ListMC", "ListGen", consts={"MaxLen": 4, "MaxHist": depth}, timeout=1500, workers=8)
    stats["states"] += r.distinct
    stats["transitions"] += r.generated
    hs = sorted((g["h"] for g in r.tag("GEN")), key=lambda h: (len(h), json.dumps(h, sort_keys=True)))
    if len(hs) != r.distinct - 1:
        raise vlib.Infra("ListGen: %d histories for %d states" % (len(hs), r.distinct))
    nfull = 0
    hists = []
    nall = len(hs)
    for i, h in enumerate(hs):
        # thorough: all histories to depth 4 and a seeded quarter of depth 5 (279 k histories cost > 10 min)
        if thorough and len(h) == depth and (i + seed) % 4 != 0:
            continue
        # quick: at depth 4 skip histories that end in a direct assignment (its effect is C09's subject; the
        # assignment still occurs inside every longer history) or in sort(>) (sort(<), sort(true) stay)
        if not thorough and len(h) == depth and (h[-1]["op"] == "set" or (h[-1]["op"] == "sort" and h[-1]["cmp"]["kind"] == "gt")):
            continue
        # quick: ... and those that start with a call that does nothing on the empty table (remove, sort,
        # insert(t,nil)): the remaining three calls are replayed as a history of their own
        if not thorough and len(h) == depth and (h[0]["op"] in ("rem_end", "sort") or (h[0]["op"] == "ins_end" and h[0]["v"] == ["nil"])):
            continue
        # the query battery after every shorter history and every 10th of the deepest level
        full = len(h) < depth or (i // 4 + seed) % 10 == 0
        nfull += full
        hists.append({"h": h, "q": "last" if full else "none", "id": i + 1})
        distinct.add(vlib.canon_hash(h))
    smp, n = run_histories(hists, Params(W=7), "gen", verd, stats)
    total += n
    samples.append({"kind": "exhaustive", "history": [{k: e[k] for k in ("op", "pos", "i", "v", "cmp", "res", "rd", "len") if k in e} for e in smp["ev"]]})
    vlib.log("[C18] GEN: %d of the %d histories of depth <= %d (one fresh value per depth) replayed and validated; %d with the concat/unpack battery" % (n, nall, depth, nfull))
    # 3. GEN -simulate: seeded random long histories, battery after every call
    nsim = 1200 if thorough else 60
    r = vlib.run_tlc("ListMC", "ListSim", consts={"MaxLen": 8, "MaxHist": 30}, timeout=900, workers=1,
                     simulate="num=%d" % nsim, depth=40, tlc_seed=seed)
    hs = dedupe_sim(r.tag("GEN"))
    if len(hs) < nsim // 2:
        raise vlib.Infra("ListSim produced only %d histories" % len(hs))
    for h in hs:
        distinct.add(vlib.canon_hash(h))
    smp, n = run_histories([{"h": h, "q": "all", "xkeys": XKEYS_SIM} for h in hs], Params(W=11, QA=(0, 1), QR=(0, 1, 2)), "sim", verd, stats, batch=40 if not thorough else 120)
    total += n
    samples.append({"kind": "simulated", "history_prefix": hs[0][:8]})
    vlib.log("[C18] SIM: %d random histories of 30 calls (TLC -simulate, seed %d) replayed and validated" % (n, seed))
    # 3b. GEN with numeric keys outside the list (setx: 0, -1, 1.5, 2^40, keys beyond a hole) mixed with list calls
    xdepth = 4 if thorough else 3
    r = vlib.run_tlc("ListMC", "ListGenX", consts={"MaxLen": 2, "MaxHist": xdepth}, timeout=1500, workers=8)
    stats["states"] += r.distinct
    stats["transitions"] += r.generated
    hs = sorted((g["h"] for g in r.tag("GEN")), key=lambda h: (len(h), json.dumps(h, sort_keys=True)))
    nallx = len(hs)
    hists = []
    for i, h in enumerate(hs):
        if not any(o["op"] == "setx" for o in h):
            continue                    # without setx: family 2
        if (i + seed) % (24 if not thorough else (2 if len(h) < xdepth else 100)) != 0:
            continue
        hists.append({"h": h, "q": "last", "id": i + 1, "xkeys": XKEYS_MC})
        distinct.add(vlib.canon_hash(h))
    smp, n = run_histories(hists, Params(W=7), "genx", verd, stats, batch=480)
    total += n
    samples.append({"kind": "keys-outside-the-list", "history": [{k: e[k] for k in ("op", "pos", "i", "v", "k", "cmp", "res", "rd", "xk", "len", "maxn") if k in e} for e in smp["ev"]]})
    vlib.log("[C18] GENX: %d of the %d histories of depth <= %d with assignments to numeric keys outside the list replayed and validated" % (n, nallx, xdepth))
    # 3c. long lists (beyond the registry size): concat compared by length + hashes (ListLib!ConcatDigest)
    longs = long_cases(thorough)
    for c in longs:
        distinct.add(vlib.canon_hash([c["h"], c["dq"]]))
    _, n = run_histories(longs, Params(W=7), "long", verd, stats, batch=3)
    total += n
    vlib.log("[C18] LONG: %d long-list histories (lengths %s) with %d digest-compared concat calls validated" % (
        n, sorted({c["h"][0]["n"] for c in longs}), sum(len(c["dq"]) for c in longs)))
    # 4. sort cases
    rng = random.Random(seed * 7919 + 18)
    cases, big = sort_cases(tier, rng)
    for c in cases + big:
        distinct.add(vlib.canon_hash([c["h"], c.get("keys"), c.get("mt")]))
    smp, n = run_histories(cases, Params(W=9), "sort", verd, stats, batch=2100)
    total += n
    nsmall = n
    _, n = run_histories(big, Params(W=56), "sortbig", verd, stats, batch=60 if not thorough else 150)
    total += n
    n += nsmall
    sev = [e for e in smp["ev"] if e["op"] == "sort"][0]
    samples.append({"kind": "sort", "calls_before": [{k: e[k] for k in ("op", "pos", "i", "v") if k in e} for e in smp["ev"] if e["op"] != "sort"][:8],
                    "sort_event": {k: sev[k] for k in ("cmp", "out", "calls", "rd")}})
    vlib.log("[C18] SORT: %d sort cases (element sequences x comparators x list construction) validated; outcomes %s, %d comparator calls logged" % (
        n, json.dumps(stats["sort_out"], sort_keys=True), stats["cmpcalls"]))
    rc = verd.finish()
    vlib.write_evidence(PROP, tier, "model_checking", {
        "states": stats["states"], "transitions": stats["transitions"],
        "traces_validated_against_impl": total,
        "evaluations": stats["events"] + stats["queries"],
        "events_validated": stats["events"], "concat_unpack_queries_validated": stats["queries"],
        "sort_runs_validated": stats["sorts"], "comparator_calls_logged": stats["cmpcalls"], "sort_outcomes": stats["sort_out"],
        "observed_states_with_trailing_nil_slots": stats["tail_states"],
        "rejected_traces": stats["rejected"], "validation_stopped_early": stats["stopped"],
        "distinct_nontrivial": len(distinct),
        "rule": "histories = every path of ListRef's state graph to depth 4 (quick: without those ending in an assignment or sort(>) or starting with a no-op on the empty table; thorough: plus a seeded quarter of depth %d; one fresh value per depth, list length <= 4), "
                "TLC -simulate histories of 30 calls (list length <= 8), and sort cases = all sequences over 3 values up to length "
                "%d x comparators x constructions plus seeded longer lists; plus histories of ListRef with setx (keys outside the list) to depth 3-4 and fill+concat histories on lists of 2555..30000 elements; distinct by canonical hash of the call list" % (depth, 5 if thorough else 4),
        "samples": samples, "mc_runs": mc, "exhaustive": False,
        "known_findings_hit": sorted(verd.known_hit),
    }, time.time() - t0, len(verd.violations), assumptions=[
        "every library call is made on a proper list (1<=pos<=n+1 for insert, 1<=pos<=n for remove, assignments to t[1..n+1], t[n]=nil), possibly with numeric keys outside it (0, negative, i+0.5, 2^e); "
        "while a positive integer key beyond a hole exists #t is ambiguous: only reads, maxn, # being a border and explicit concat/unpack ranges are judged, list calls resume when it is cleared",
        "concat of long lists (2555..30000 elements of non-negative integers) is compared by length and two 15-bit polynomial hashes of the bytes, both sides defined by ListLib!ConcatDigest",
        "insert and remove are judged at every integer position as ltablib.c defines them (outside 1..#t remove does nothing and returns no value; insert beyond #t+1 stores without shifting; more than three arguments raise); "
        "insert at pos <= 0 is left open between the reference's literal loop (t[0] shifts into t[1]) and a plain store at pos - nothing else is admitted",
        "error message texts are not compared, only whether a call raises",
        "elements are small integers, one-letter strings, true and tables; number formatting in concat is not exercised beyond integers",
        "TLC explores ListRef within list length <= %d over 5 values; histories replayed: depth <= 4 exhaustive (thorough: a quarter of depth %d), 30 random" % (5 if thorough else 4, depth),
        "lua.MaxArrayIndex is left at its default (lists never reach the hash part)"])
    return rc


class _ReplayVerdicts:
    """Collects the case keys a replayed history is rejected with (writes nothing)."""

    def __init__(self):
        self.hits = {}
        self.known_hit = {}
        self.violations = []

    def candidate(self, key, what, replay):
        self.hits.setdefault(key, what)
        return True


def replay(path):
    rec = json.load(open(path))
    rp = rec["replay"]
    par = Params(rp["params"]["W"], rp["params"]["QA"], rp["params"]["QR"])
    h = rp["hist"]
    verd = _ReplayVerdicts()
    stats = {"states": 0, "transitions": 0, "events": 0, "queries": 0, "sorts": 0, "cmpcalls": 0,
             "rejected": 0, "tail_states": 0, "sort_out": {}, "stopped": {}}
    vlib.build_harness()
    run_histories([{"id": h["id"], "h": h["h"], "q": h.get("q", "last"), "keys": h.get("keys", []), "mt": h.get("mt", False)}],
                  par, rp["tag"], verd, stats)
    for key, what in sorted(verd.hits.items()):
        if key != rec["key"]:
            vlib.log("  (the same history is also rejected with key=%s)" % key)
    if rec["key"] in verd.hits:
        vlib.log("VIOLATION property=%s replay=%s" % (PROP, path))
        vlib.log("  key=%s: %s" % (rec["key"], verd.hits[rec["key"]]))
        return 1
    vlib.log("replay %s: key=%s did not reproduce" % (path, rec["key"]))
    return 0


def selftest():
    """Vacuity guard: a correct run of the real code is accepted by ListTrace and
    each single-field corruption of its trace is rejected with the expected reason."""
    import copy
    vlib.build_harness()
    h = [{"op": "ins_end", "v": N(2)}, {"op": "ins_end", "v": N(1)}, {"op": "ins", "pos": 1, "v": N(3)},
         {"op": "rem", "pos": 2}, {"op": "sort", "cmp": {"kind": "ltf"}}, {"op": "rem_end"}]
    sd = vlib.subdir("c18self")
    inp, outp = os.path.join(sd, "in.json"), os.path.join(sd, "out.ndjson")
    with open(inp, "w") as f:
        json.dump(dict(Params(W=6).obj(), H=[{"id": 1, "h": h, "q": "none", "keys": [], "mt": False}]), f)
    vlib.run_harness(["c18-run", "--in", inp, "--out", outp], timeout=120)
    base = vlib.read_ndjson(open(outp).read())[0]

    def mut(fn, expect):
        t = copy.deepcopy(base)
        fn(t["ev"])
        return t, expect
    def swap_sorted(ev):
        ev[4]["rd"][1], ev[4]["rd"][2] = ev[4]["rd"][2], ev[4]["rd"][1]
        ev[5]["res"] = [ev[4]["rd"][2]]
    muts = [
        (copy.deepcopy(base), None),
        mut(lambda ev: ev[2]["rd"].__setitem__(2, N(9)), "rd"),
        mut(lambda ev: ev[3].__setitem__("res", [N(9)]), "res"),
        mut(lambda ev: ev[1].__setitem__("len", 3), "len"),
        mut(lambda ev: ev[1].__setitem__("maxn", ["n", 0]), "maxn"),
        mut(lambda ev: ev[0].__setitem__("err", True), "err"),
        mut(swap_sorted, "sort:order"),
        mut(lambda ev: ev[4]["rd"].__setitem__(2, ev[4]["rd"][1]), "sort:perm"),
        mut(lambda ev: ev[4]["calls"].__setitem__(0, [["n", 7], ev[4]["calls"][0][1], "F" if ev[4]["calls"][0][1][1] <= 7 else "T"]), "sort:args"),
        mut(lambda ev: ev[4].__setitem__("out", "error"), "sort:error"),
        mut(lambda ev: ev[4].__setitem__("out", "gopanic"), "sort:outcome"),
    ]
    recs = []
    for i, (t, _) in enumerate(muts):
        t["id"] = i + 1
        recs.append(t)
    res = vlib.validate_batches("ListTrace", "ListTrace", recs, "c18_self", batch=100, parallel=1)
    vs = {v["id"]: v for r in res for v in r.tag("VERDICT")}
    bad = 0
    for i, (t, expect) in enumerate(muts):
        v = vs.get(i + 1)
        got = None if v is None or v["ok"] else (v["bads"][0]["why"] if v["bads"] else v["stop"])
        ok = got == expect
        vlib.log("[C18 selftest] %-28s expected %-12s got %-12s %s" % ("unmodified trace" if expect is None else "corrupted trace %d" % i, expect, got, "ok" if ok else "FAILED"))
        bad += not ok
    if bad:
        raise vlib.Infra("C18 selftest: %d corrupted traces were not rejected as expected" % bad)
    return 0
