"""C12 - limits surface as catchable errors; options never change behaviour
below them.

MC   : CallStackImpl (fixed + segmented stack) refines CallStack, RegistryImpl
       (grow/resize transcription) refines Registry, LuaOptions laws (TLC).
Bind : (1) histories exported from the state graphs of CallStackImpl /
           RegistryImpl (one per transition) + seeded random histories are
           executed on the real stacks / registry through the tagged wrappers;
           CallStackTrace / RegistryTrace validate every answer.
       (2) TLC enumerates raw option tuples and predicts the normalised
           options and limits; the real NewState/NewThread must agree.
       (3) configuration sweep: limit probes (recursion shapes, unpack, huge
           argument lists, ...) and a corpus of programs run on the real
           interpreter (lua-run) under the tuples; LuaLimitsTrace validates the
           thresholds, catchability, the follow-up computation and that
           within-limit programs have identical traces everywhere."""
import json, os, random, time
import vlib

import threading

PROP = "C12"
LOCK = threading.Lock()
BREAKDOWN = {}     # key -> {(part, family, reason): rejected cases}
INCONCLUSIVE = [0]
TOTALRUNS = [0]


def note(key, part, fam, why):
    d = BREAKDOWN.setdefault(key, {})
    d[(part, fam, why)] = d.get((part, fam, why), 0) + 1


# ---------------------------------------------------------------------------
# part 1: call-frame stacks and register file against their list models

def _validate(module, recs, tag, verd, stats, keyfn, batch):
    n = 0
    t0 = time.time()
    byid = {t["id"]: t for t in recs}
    for r in vlib.validate_batches(module, module, recs, "c12_%s_%s" % (module, tag), batch=batch, parallel=2):
        with LOCK:
            stats["states"] += r.distinct
            stats["transitions"] += r.generated
        vs = r.tag("VERDICT")
        if len(vs) != r.nrecords:
            raise vlib.Infra("%s: %d verdicts for %d traces (%s)" % (module, len(vs), r.nrecords, tag))
        for v in vs:
            n += 1
            if v["ok"]:
                continue
            tr = byid[v["id"]]
            pos, op, why = v["bad"]
            if why.startswith("harness:"):
                raise vlib.Infra("%s: history %s#%d violates a protocol precondition at event %d (%s): generator bug"
                                 % (module, tag, v["id"], pos, why))
            key, what = keyfn(tr, pos, op, why)
            with LOCK:
                note(key, module[:-5], tag, why)
                verd.candidate(key, "%s history %s#%d: %s" % (module[:-5], tag, v["id"], what),
                               {"part": module, "tag": tag, "trace": tr, "verdict": v})
    vlib.log("[C12]   %s/%s: %d traces validated by TLC in %.1fs" % (module, tag, n, time.time() - t0))
    return n


def stack_key(tr, pos, op, why):
    ev = tr["ev"][pos - 1]
    impl, size = tr["impl"], tr["size"]
    prev = None
    for e in reversed(tr["ev"][:pos - 1]):
        if "o" in e:
            prev = e["o"]["sp"]
            break
    if impl == "auto" and op == "setsp" and why in ("Sp", "Last", "At", "IsEmpty"):
        o = ev["o"]
        if ev["n"] % 8 == 0 and ev["n"] > 0 and o["sp"] == ev["n"] - 8:
            return ("C12:autostack:SetSp(Sp)-on-full-segment",
                    "autoGrowingCallFrameStack(size %d): SetSp(%d) with Sp()==%d (current segment full) leaves Sp()=%d; "
                    "8 frames are dropped" % (size, ev["n"], ev["n"], o["sp"]))
    if impl == "auto" and why == "push-overflow-below-configured-size" and size > 8 * 65536:
        return ("C12:autostack:segIdx-uint16-wrap",
                "autoGrowingCallFrameStack(size %d): Push panics (%s) although at most %d frames are in use; the segment index "
                "is a uint16 and the bound segIdx(len(segments)-1) wraps" % (
                    size, ev.get("msg"), sum(1 for e in tr["ev"][:pos - 1] if e["op"] == "push")))
    return ("C12:%sstack:%s:%s" % (impl, op, why),
            "%s stack (size %d): %s at event %d (%s), event=%s" % (impl, size, why, pos, op, json.dumps(ev)[:300]))


def reg_key(tr, pos, op, why):
    ev = tr["ev"][pos - 1]
    return ("C12:registry:%s:%s" % (op, why),
            "registry cfg(size,growBy,maxSize)=%s: %s at event %d, event=%s" % (tr["cfg"], why, pos, json.dumps(ev)[:300]))


def run_stack_hists(hists, tag, verd, stats, obsall=False, batch=3000):
    sd = vlib.subdir("c12")
    inp, outp = os.path.join(sd, "sh_%s.json" % tag), os.path.join(sd, "st_%s.ndjson" % tag)
    with open(inp, "w") as f:
        json.dump({"H": hists}, f)
    vlib.run_harness(["c12-stack", "--in", inp, "--out", outp] + (["--obsall"] if obsall else []), timeout=600)
    recs = vlib.read_ndjson(open(outp).read())
    os.remove(inp), os.remove(outp)
    if len(recs) != len(hists):
        raise vlib.Infra("c12-stack returned %d traces for %d histories" % (len(recs), len(hists)))
    return recs, _validate("CallStackTrace", recs, tag, verd, stats, stack_key, batch)


def run_reg_hists(hists, tag, verd, stats, obsall=False, batch=4000):
    sd = vlib.subdir("c12")
    inp, outp = os.path.join(sd, "rh_%s.json" % tag), os.path.join(sd, "rt_%s.ndjson" % tag)
    with open(inp, "w") as f:
        json.dump({"H": hists}, f)
    vlib.run_harness(["c12-reg", "--in", inp, "--out", outp] + (["--obsall"] if obsall else []), timeout=600)
    recs = vlib.read_ndjson(open(outp).read())
    os.remove(inp), os.remove(outp)
    if len(recs) != len(hists):
        raise vlib.Infra("c12-reg returned %d traces for %d histories" % (len(recs), len(hists)))
    return recs, _validate("RegistryTrace", recs, tag, verd, stats, reg_key, batch)


def rand_stack_hist(rng, n):
    """Seeded random Push/Pop/SetSp history.  The generator only keeps the
    protocol preconditions (Pop on non-empty, SetSp(n) with n <= pushes-pops,
    counted pessimistically: a refused Push is not counted because SetSp/Pop
    arguments are derived from the number of frames that certainly exist)."""
    h, sure = [], 0          # sure: frames that exist whatever the overflow answers were
    cap = rng.choice([6, 9, 17, 30])
    for _ in range(n):
        x = rng.random()
        if x < 0.55 and sure < cap:
            h.append({"op": "push"})
            # counted only when it certainly succeeded, see run(): sizes >= cap
            sure += 1
        elif x < 0.8 and sure > 0:
            h.append({"op": "pop"})
            sure -= 1
        elif sure >= 0:
            k = rng.choice([sure, sure, max(0, sure - 1), rng.randint(0, sure), (sure // 8) * 8])
            h.append({"op": "setsp", "n": k})
            sure = k
    return h, cap


def rand_reg_hist(rng, cfg, n):
    """Seeded random registry history around the growth boundaries of cfg.
    Only `top` is tracked (needed for the protocol preconditions); whether an
    operation overflows follows from required > max(size, maxSize), the
    abstract rule - if the real code disagrees the trace is rejected at that
    event and later events are not judged."""
    size, grow, mx = cfg
    lim = max(size, mx)
    h, top = [], 0
    for pos in range(1, n + 1):
        v = pos
        x = rng.random()
        near = [size - 1, size, size + 1, lim - 1, lim, lim + 1, size + grow, size + grow + 1]
        if x < 0.2:
            o, req, nt = {"op": "push", "v": v}, top + 1, top + 1
        elif x < 0.3 and top > 0:
            o, req, nt = {"op": "pop"}, 0, top - 1
        elif x < 0.45:
            i = rng.choice([rng.randint(0, top), top, top + 1, max(0, rng.choice(near) - 1)])
            o, req, nt = {"op": "set", "i": i, "v": v}, i + 1, max(top, i + 1)
        elif x < 0.6:
            k = max(0, rng.choice(near + [rng.randint(0, lim + 1), 0, top, max(0, top - 2)]))
            o, req, nt = {"op": "settop", "n": k}, k, k
        elif x < 0.78:
            regv = rng.randint(0, top)
            cnt = rng.choice([0, 1, 2, 3, grow, grow + 1, max(0, lim - regv), max(0, lim - regv + 1)])
            if rng.random() < 0.7:
                start = rng.randint(regv, top + 1)              # destination not above the source
                limit = rng.choice([-1, -1, top, max(0, top - 1), top + 2])
            else:
                limit = rng.randint(0, regv)                    # source entirely below the destination
                start = rng.randint(-1, regv)
            o, req, nt = {"op": "copyrange", "regv": regv, "start": start, "limit": limit, "n": cnt}, regv + cnt, regv + cnt
        elif x < 0.9:
            m = rng.choice([rng.randint(0, top), top, top + 1])
            cnt = rng.choice([0, 1, 2, grow, max(0, lim - m), max(0, lim - m + 1)])
            o, req, nt = {"op": "fillnil", "regm": m, "n": cnt}, m + cnt, m + cnt
        else:
            g = rng.choice([rng.randint(0, top), top, top + 1, 0])
            o = {"op": "insert", "v": v, "reg": g}
            req = g + 1 if g >= top else top + 1
            nt = req
        h.append(o)
        if req <= lim:
            top = nt
    return h


def component_part(tier, verd, stats, cov):
    """Stacks and registry against their list models.  The TLC jobs are
    independent and run side by side (2-3 workers each)."""
    from concurrent.futures import ThreadPoolExecutor
    thorough = tier == "thorough"
    rng = random.Random(vlib.seed() * 104729 + 12)
    sizes = "{" + ",".join(str(i) for i in range(1, 18)) + "}"
    w = 3

    def tlc(module, cfg, consts):
        r = vlib.run_tlc(module, cfg, workers=w, timeout=1500, consts=consts)
        with LOCK:
            stats["states"] += r.distinct
            stats["transitions"] += r.generated
        return r

    def mc_stack():
        r = tlc("CallStackImpl", "CallStackMC", {"Impls": '{"fixed","auto"}', "Sizes": sizes, "MaxHist": 30,
                                                 "DepthInView": "TRUE" if thorough else "FALSE"})
        cov["mc_runs"].append(("CallStackImpl sizes 1..17, fixed+auto", r.generated, r.distinct))
        vlib.log("[C12] MC CallStackImpl (fixed+auto, sizes 1..17): %d generated / %d distinct, refinement holds "
                 "outside the flagged SetSp defect (%.0fs)" % (r.generated, r.distinct, r.wall))

    def mc_reg():
        r = tlc("RegistryMC", "RegistryMC_" + tier, {"MaxN": 2, "MaxJunk": 1 if not thorough else 2, "MaxHist": 12})
        cov["mc_runs"].append(("RegistryImpl " + tier, r.generated, r.distinct))
        vlib.log("[C12] MC RegistryImpl: %d generated / %d distinct, refinement holds (%.0fs)" % (r.generated, r.distinct, r.wall))

    def gen_stack():
        # GEN -> replay -> TRACE: stacks
        r = tlc("CallStackImpl", "CallStackGen", {"Impls": '{"fixed","auto"}', "Sizes": sizes,
                                                  "MaxHist": 30 if not thorough else 16,
                                                  "DepthInView": "TRUE" if thorough else "FALSE"})
        gens = r.tag("GEN")
        hists = [{"id": i + 1, "impl": g["impl"], "size": g["size"], "h": g["h"]} for i, g in enumerate(gens)]
        recs, n = run_stack_hists(hists, "gen", verd, stats)
        cov["stack_gen"] = n
        cov["samples"].append({"part": "stack-gen", "history": hists[len(hists) // 2], "last_event": recs[len(recs) // 2]["ev"][-1]})
        vlib.log("[C12] GEN stacks: %d histories (one per transition of CallStackImpl) replayed and validated" % n)
        # the same histories on very large configured sizes (segment-index type boundary)
        big = []
        for sz in (524288, 524289, 1000000):
            for g in gens:
                if g["impl"] == "auto" and g["size"] == 17:
                    big.append({"impl": "auto", "size": sz, "h": g["h"]})
        big = random.Random(vlib.seed()).sample(big, min(len(big), 3000 if thorough else 300))
        for i, b in enumerate(big):
            b["id"] = i + 1
        recs, n = run_stack_hists(big, "big", verd, stats)
        cov["stack_big"] = n

    def rand_stack():
        # seeded random long histories, every observer after every event
        rg = random.Random(vlib.seed() * 31 + 1)
        rh = []
        for i in range(2000 if thorough else 250):
            h, cap = rand_stack_hist(rg, rg.choice([30, 60, 120] if thorough else [30, 60]))
            rh.append({"id": i + 1, "impl": rg.choice(["fixed", "auto"]), "size": rg.choice([cap, cap + 1, 64, 256]), "h": h})
        recs, n = run_stack_hists(rh, "rand", verd, stats, obsall=True, batch=400)
        cov["stack_rand"] = n
        vlib.log("[C12] random stacks: %d histories validated" % n)

    def gen_reg():
        r = tlc("RegistryMC", "RegistryGen_" + tier, {"MaxN": 2, "MaxJunk": 1, "MaxHist": 12})
        gens = r.tag("GEN")
        cov["reg_gen_exported"] = len(gens)
        # a seeded sample of the exported transitions bounds the validation time
        gens = random.Random(vlib.seed() * 7 + 3).sample(gens, min(len(gens), 200000 if thorough else 8000))
        hists = [{"id": i + 1, "cfg": g["cfg"], "h": g["h"]} for i, g in enumerate(gens)]
        recs, n = run_reg_hists(hists, "gen", verd, stats, batch=3000)
        cov["reg_gen"] = n
        cov["samples"].append({"part": "registry-gen", "history": hists[len(hists) // 2], "last_event": recs[len(recs) // 2]["ev"][-1]})
        vlib.log("[C12] GEN registry: %d of %d exported histories (one per transition of RegistryImpl) replayed and validated"
                 % (n, cov["reg_gen_exported"]))

    def rand_reg():
        rg = random.Random(vlib.seed() * 131 + 7)
        rh, cfgs = [], []
        for size, grow in ((4, 1), (4, 3), (8, 2), (8, 5), (128, 32), (128, 1), (129, 32)):
            for mx in (0, size - 1, size, size + 1, size + grow, size + grow + 1, 2 * size, 10 * size):
                cfgs.append([size, grow, mx])
        for i in range(2000 if thorough else 250):
            cfg = rg.choice(cfgs)
            rh.append({"id": i + 1, "cfg": cfg, "h": rand_reg_hist(rg, cfg, rg.choice([15, 30, 50] if cfg[0] < 100 else [15, 25]))})
        recs, n = run_reg_hists(rh, "rand", verd, stats, obsall=True, batch=250)
        cov["reg_rand"] = n
        vlib.log("[C12] random registry: %d histories validated" % n)

    vlib.specdir()           # create the scratch spec copy before the threads start
    vlib.subdir("c12")
    with ThreadPoolExecutor(max_workers=3 if thorough else 6) as ex:
        futs = [ex.submit(f) for f in (gen_reg, mc_reg, gen_stack, rand_stack, rand_reg, mc_stack)]
        for f in futs:
            f.result()
    return cov["stack_gen"] + cov["stack_big"] + cov["stack_rand"] + cov["reg_gen"] + cov["reg_rand"]


# ---------------------------------------------------------------------------
# part 2: options - TLC predicts, the real NewState / NewThread must agree

CSS = [0, 1, 2, 7, 8, 9, 15, 16, 17, 64]
OPT_FIELDS = ("css", "rs", "rms", "rgs", "msm")


def options_part(tier, verd, stats, cov):
    r = vlib.run_tlc("LuaOptionsGen", "LuaOptionsGen", workers=3, timeout=600,
                     consts={"CssSet0": "{0,1,2,7,8,9,15,16,17,64}", "RsSet0": "{0,127,128,129,256}",
                             "RgsSet0": "{0,1,31,32}", "Extra": "TRUE"})
    with LOCK:
        stats["states"] += r.distinct
        stats["transitions"] += r.generated
    gens = sorted(r.tag("GEN"), key=lambda g: json.dumps(g["raw"], sort_keys=True))
    T = []
    for i, g in enumerate(gens):
        for j, noctx in enumerate((False, True)):
            T.append({"id": 2 * i + j, "raw": dict(g["raw"], noctx=noctx)})
    sd = vlib.subdir("c12")
    inp, outp = os.path.join(sd, "opts.json"), os.path.join(sd, "opts.ndjson")
    with open(inp, "w") as f:
        json.dump({"T": T}, f)
    vlib.run_harness(["c12-opts", "--in", inp, "--out", outp], timeout=600)
    recs = {o["id"]: o for o in vlib.read_ndjson(open(outp).read())}
    os.remove(inp), os.remove(outp)
    if len(recs) != len(T):
        raise vlib.Infra("c12-opts returned %d records for %d tuples" % (len(recs), len(T)))
    n = 0
    for t in T:
        g = gens[t["id"] // 2]
        o = recs[t["id"]]
        n += 1
        bad = None
        if "panic" in o:
            bad = ("panic", o["panic"])
        else:
            for who, pred in (("main", g["norm"]), ("thread", g["thread"])):
                for k in OPT_FIELDS:
                    if o[who][k] != pred[k] and not bad:
                        bad = ("%s:%s" % (who, k), "%s options: %s=%r, predicted %r" % (who, k, o[who][k], pred[k]))
                if o[who]["auto"] != g["auto"] and not bad:
                    bad = (who + ":stack-kind", "%s stack auto-growing=%r, predicted %r" % (who, o[who]["auto"], g["auto"]))
                if o[who]["reglen"] != pred["rs"] and not bad:
                    bad = (who + ":registry-size", "%s register file has %d slots, predicted %d" % (who, o[who]["reglen"], pred["rs"]))
            if o["thread_ctx"] != (not t["raw"]["noctx"]) and not bad:
                bad = ("thread:context", "thread context attached=%r although the parent %s one" % (
                    o["thread_ctx"], "has no" if t["raw"]["noctx"] else "has"))
        if bad:
            with LOCK:
                verd.candidate("C12:options:" + bad[0], "raw options %s: %s" % (json.dumps(t["raw"], sort_keys=True), bad[1]),
                               {"part": "options", "raw": t["raw"], "predicted": g, "observed": o})
    cov["option_tuples"] = n
    cov["samples"].append({"part": "options", "raw": T[len(T) // 3]["raw"], "predicted": gens[len(T) // 6], "observed": recs[T[len(T) // 3]["id"]]})
    vlib.log("[C12] options: %d raw tuples x context: NewState/NewThread agree with LuaOptions (laws checked by TLC on %d tuples)"
             % (n, len(gens)))
    # the tuples of the configuration sweep: the DESIGN value sets only
    sweep = [dict(g["raw"], lim=g["lim"]["lim"]) for g in gens if g["raw"]["css"] >= 0 and g["raw"]["rs"] >= 0 and g["raw"]["rgs"] >= 0
             and g["raw"]["rms"] not in (-1, 1)]
    return sweep


# ---------------------------------------------------------------------------
# part 3: configuration sweep on the real interpreter

def dec(t):
    if t[0] == "s":
        return bytes(t[1]).decode("latin-1")
    if t[0] in ("n", "b"):
        return t[1]
    if t[0] == "nil":
        return None
    return json.dumps(t)


def uncaught(o):
    """class of the error a run ended with (data extraction for the case key)"""
    if o["outcome"][0] != "err":
        return ""
    m = dec(o["outcome"][1]) if isinstance(o["outcome"][1], list) else str(o["outcome"][1])
    m = str(m)
    for c in ("registry overflow", "lua callstack overflow", "stack overflow", "index out of range", "nil pointer"):
        if c in m:
            return c.replace(" ", "-")
    return "other"


def run_matrix(items, tag, timeout=1500):
    """items: list of (src, opts); returns list of lua-run results"""
    import lsem
    progs = [{"id": i + 1, "src": src, "opts": {k: v for k, v in o.items() if v}} for i, (src, o) in enumerate(items)]
    outs = lsem.run_real(progs, "c12" + tag, extra=["--deadline", "40s"], timeout=timeout)
    # a run that hit the wall-clock deadline or whose child process died (memory pressure) on a loaded machine is
    # repeated with a long deadline and little parallelism before anything is concluded from it (a real hang or
    # a real Go fatal error reproduces)
    slow = [p for p in progs if outs[p["id"]]["outcome"][0] in ("hang", "crash", "budget")]
    if slow:
        vlib.log("[C12]   %d run(s) hit the 40s deadline or lost their child process; repeated with a 300s deadline, 4 at a time" % len(slow))
        outs.update(lsem.run_real(slow, "c12" + tag + "slow", extra=["--deadline", "300s", "-p", "4"], timeout=timeout))
    res = [outs[i + 1] for i in range(len(items))]
    # "budget" = the harness's own safety net (poll budget / 6 s of wall clock) ended the run: inconclusive,
    # dropped by the callers and counted; too many of them is an infrastructure error
    INCONCLUSIVE[0] += sum(1 for o in res if o["outcome"][0] == "budget")
    TOTALRUNS[0] += len(res)
    return res


def limits_validate(recs, tag, stats, batch):
    out = {}
    for r in vlib.validate_batches("LuaLimitsTrace", "LuaLimitsTrace", recs, "c12_lim_" + tag, batch=batch, parallel=3, timeout=1500):
        with LOCK:
            stats["states"] += r.distinct
            stats["transitions"] += r.generated
        vs = r.tag("VERDICT")
        if len(vs) != r.nrecords:
            raise vlib.Infra("LuaLimitsTrace: %d verdicts for %d records (%s)" % (len(vs), r.nrecords, tag))
        for v in vs:
            out[v["id"]] = v
    return out


def confirm_and_report(pending, verd, tag):
    """pending: (key, what, replay, src, opts, fingerprint, part, fam, why).  The first cases of every key are
    re-run on a fresh interpreter; a candidate that does not reproduce is an infrastructure error (DESIGN 7.4)."""
    first = {}
    for c in pending:
        first.setdefault(c[0], [])
        if len(first[c[0]]) < 3:
            first[c[0]].append(c)
    todo = [c for cs in first.values() for c in cs]
    if todo:
        outs = run_matrix([(c[3], c[4]) for c in todo], "confirm" + tag)
        for c, o in zip(todo, outs):
            if c[5](o) != c[5](None):
                raise vlib.Infra("candidate violation did not reproduce: key %s, %s" % (c[0], c[1][:200]))
    for c in pending:
        with LOCK:
            note(c[0], c[6], c[7], c[8])
            verd.candidate(c[0], c[1], c[2])


def common_dims(runs):
    d = []
    if all(r["o"].get("msm") for r in runs):
        d.append("msm-only")
    if all(r["o"].get("noctx") for r in runs):
        d.append("context-dependent")
    if all(r["o"].get("rms", 0) >= max(r["o"].get("rs", 0), 128) and r["o"].get("rms", 0) > 0 for r in runs):
        d.append("growable-registry-only")
    return d


SETSP_FAMILIES = ("rec:pcall-per-level", "rec:hostpcall-per-level", "own:hostpcall-nonfunction")


def limit_key(kind, fam, why, badruns):
    """Narrow case key.  Families built to issue a protected call that fails
    before any frame is pushed while the segmented stack sits on a full segment
    (SETSP_FAMILIES) are attributed to that mechanism when only
    MinimizeStackMemory runs fail."""
    if fam.endswith(":coroutine"):
        fam = fam[:-len(":coroutine")]
    dims = common_dims(badruns) if len(badruns) >= 3 else []
    ums = sorted(set(r.get("um", "") for r in badruns))
    if "msm-only" in dims and fam in SETSP_FAMILIES and why in ("not-caught", "died-before-probe", "differs-within-limits"):
        return "C12:autostack:SetSp(Sp)-on-full-segment"
    if all(r["o"].get("msm") and r["o"].get("css", 0) > 8 * 65536 for r in badruns):
        return "C12:autostack:segIdx-uint16-wrap"
    if why == "nested-resumes-unbounded":
        return "C12:nested-resume:no-bound-before-fatal-go-stack-overflow"
    if why == "error-is-a-converted-go-panic" and "msm-only" in (common_dims(badruns) if len(badruns) >= 3 else ["msm-only"]) \
            and ums == ["lua-callstack-overflow"]:
        return "C12:autostack:overflow-is-go-panic-not-lua-error"
    if fam == "rec:tail-into-wide-frame" and (why == "crash" or ums == ["index-out-of-range"]):
        return "C12:tailcall:registry-overflow-raises-go-panic"
    if "xpcall" in fam and ums == ["registry-overflow"]:
        return "C12:xpcall:registry-overflow-escapes-when-handler-set"
    k = "C12:%s:%s:%s" % (kind, fam, why)
    if ums not in ([""], []):
        k += ":" + "+".join(u for u in ums if u)
    if dims:
        k += ":" + "+".join(dims)
    return k


def mk_opts(css=0, rs=0, rms=0, rgs=0, msm=False, noctx=False):
    return {"css": css, "rs": rs, "rms": rms, "rgs": rgs, "msm": msm, "noctx": noctx}


def probe_configs(pr, tier, reg_tuples, rng):
    """raw option tuples for one probe (+ calibration flag)"""
    thorough = tier == "thorough"
    out = []
    if pr["stack"]:
        regs = [(0, 0, 0), (128, 0, 0), (128, 1280, 1), (129, 161, 32), (256, 2560, 31)]
        for css in CSS:
            for msm in (False, True):
                for noctx in (False, True):
                    for rs, rms, rgs in (regs if thorough else regs[:4]):
                        out.append((mk_opts(css, rs, rms, rgs, msm, noctx), not msm and not noctx, 0))
        if pr["name"].startswith("rec:plain"):
            # configured sizes around 8 * 65536 frames (segment index type boundary), segmented stack only
            for css in (524288, 524289):
                for noctx in (False, True):
                    out.append((mk_opts(css, 0, 0, 0, True, noctx), False, 0))
    else:
        csss = [0, 1024] if pr["name"].startswith(("rec:heavy", "rec:tail")) else ([0, 64] if thorough else [0])
        # growing a register file to 10 x 5120 slots is quadratic for small grow steps (every resize copies the
        # live prefix): such tuples only in the thorough tier, default/large steps, attempts sharing one thread
        tuples = [t for t in reg_tuples if t[3] <= 6000 or (thorough and t[2] != 1 and not pr.get("fresh"))]
        base = [t for t in tuples if t[1] == 0 and t[2] == 0]                     # no growth, default step: calibration
        rest = [t for t in tuples if t not in base]
        if not thorough:
            rest = rng.sample(rest, 30)
        for css in csss:
            for (rs, rms, rgs, lim) in base + rest:
                for msm in (False, True):
                    for noctx in (False, True):
                        if not thorough and msm != noctx and (rs, rms, rgs, lim) not in base:
                            continue                                           # quick: fold msm/noctx together
                        o = mk_opts(css, rs, rms, rgs, msm, noctx)
                        out.append((o, not msm and not noctx and rms == 0 and rgs == 0, lim + 200))
    return out


def probe_run_record(o, opts, cal, fresh):
    """what a probe run reported, as plain fields for LuaLimitsTrace (data extraction only)"""
    em = [[dec(x) for x in e] for e in o["emits"]]
    run = {"o": opts, "oc": o["outcome"][0], "np": 0, "pok": False, "ety": "", "n": 0, "sl": 0, "aok": False, "av": -1,
           "f": [], "cal": cal, "um": uncaught(o)}
    try:
        if len(em) >= 1 and em[0][0] == "probe":
            run["np"] = 1
            run["pok"] = em[0][1] if isinstance(em[0][1], bool) else True
            run["ety"] = str(em[0][2])
            run["n"] = int(em[0][3])
            if len(em[0]) > 4 and not fresh:
                run["sl"] = int(em[0][4])
        if len(em) >= 2 and em[1][0] == "again" and run["np"] == 1:
            run["np"] = 2
            run["aok"] = em[1][1] is True
            run["av"] = int(em[1][2])
        if len(em) >= 3 and em[2][0] == "after" and run["np"] == 2:
            run["np"] = 3
            run["f"] = em[2][1:]
    except Exception:
        pass
    return run


def probe_part(tier, sweep_tuples, verd, stats, cov):
    import c12_progs
    thorough = tier == "thorough"
    rng = random.Random(vlib.seed() * 7907 + 5)
    reg_tuples = sorted(set((t["rs"], t["rms"], t["rgs"], t["lim"]) for t in sweep_tuples))
    probes = []
    m = 20
    for sh in c12_progs.REC_SHAPES:
        for co in (False, True):
            m += 1
            probes.append(c12_progs.rec_probe(sh, m, co))
    for sh in c12_progs.REG_SHAPES:
        for fresh, co in ((True, False), (False, False), (False, True)):
            if co and not thorough and sh not in ("unpack-select", "vararg-call"):
                continue
            m += 1
            probes.append(c12_progs.reg_probe(sh, m, co, fresh=fresh))
    items, index = [], []
    for pi, pr in enumerate(probes):
        pr["cfgs"] = probe_configs(pr, tier, reg_tuples, rng)
        for ci, (o, cal, N) in enumerate(pr["cfgs"]):
            items.append((pr["mk"](N) if N and "mk" in pr else pr["src"], o))
            index.append((pi, ci))
    t1 = time.time()
    outs = run_matrix(items, "probe")
    vlib.log("[C12] probes: %d probe programs, %d runs on the real interpreter (%.0fs)" % (len(probes), len(items), time.time() - t1))
    recs = []
    for pi, pr in enumerate(probes):
        recs.append({"id": pi + 1, "kind": "probe", "name": pr["name"], "B": pr["B"], "F": pr["F"], "B0": pr["B0"],
                     "amin": pr["amin"], "amax": pr["amax"], "cmax": pr["cmax"], "fm": pr["fm"], "nmax": pr.get("nmax", 0), "runs": []})
    for k, ((pi, ci), o) in enumerate(zip(index, outs)):
        pr = probes[pi]
        opts, cal, N = pr["cfgs"][ci]
        if o["outcome"][0] == "budget":
            continue
        run = probe_run_record(o, opts, cal, pr.get("fresh"))
        run["k"] = k
        recs[pi]["runs"].append(run)
    t1 = time.time()
    vs = limits_validate(recs, "probe", stats, batch=6)
    nruns = nbad = 0
    pending = []
    for rec in recs:
        v = vs[rec["id"]]
        nruns += len(rec["runs"])
        if v["ok"]:
            continue
        bad = sorted(v["bad"], key=lambda b: b[0])
        if bad[0][0] == 0:
            with LOCK:
                verd.candidate("C12:probe:%s:calibration" % (rec["name"][:-10] if rec["name"].endswith(":coroutine") else rec["name"]),
                               "probe %s: no frame layout (a, c) explains the calibration runs" % rec["name"],
                               {"part": "probe", "record": rec, "verdict": v, "src": probes[rec["id"] - 1]["src"]})
            continue
        bywhy = {}
        for i, why in bad:
            bywhy.setdefault(why, []).append(rec["runs"][i - 1])
        for why, runs in bywhy.items():
            nbad += len(runs)
            key = limit_key("probe", rec["name"], why, runs)
            r0 = runs[0]
            lims = "n=%s np=%d ok=%r etype=%r again=(%r,%s) outcome=%s %s" % (
                r0["n"], r0["np"], r0["pok"], r0["ety"], r0["aok"], r0["av"], r0["oc"], r0["um"])
            for r_ in runs:
                k_ = r_["k"]
                fresh = bool(probes[rec["id"] - 1].get("fresh"))

                def fp(o, r_=r_, fresh=fresh):
                    x = r_ if o is None else probe_run_record(o, r_["o"], r_["cal"], fresh)
                    return tuple(json.dumps(x[k]) for k in ("oc", "np", "pok", "ety", "n", "aok", "av", "um"))
                pending.append((key, "probe %s under %s: %s (%s); %d run(s) of this probe fail this way" % (
                    rec["name"], json.dumps({k: x for k, x in r0["o"].items() if x}, sort_keys=True), why, lims, len(runs)),
                    {"part": "probe", "name": rec["name"], "why": why, "run": r_, "src": items[k_][0], "fresh": fresh,
                     "probe": {k: rec[k] for k in ("B", "F", "B0", "amin", "amax", "cmax", "fm")}},
                    items[k_][0], r_["o"], fp, "probe", rec["name"], why + ("/" + r_["um"] if r_["um"] else "")))
    confirm_and_report(pending, verd, "p")
    cov["probe_programs"] = len(probes)
    cov["probe_runs"] = nruns
    cov["probe_runs_that_reached_a_limit"] = sum(1 for rec in recs for r_ in rec["runs"] if r_["np"] >= 1 and r_["n"] > 0)
    cov["probe_distinct_thresholds"] = len(set((rec["name"], r_["n"]) for rec in recs for r_ in rec["runs"] if r_["np"] >= 1))
    cov["samples"].append({"part": "probe", "name": recs[0]["name"], "run": recs[0]["runs"][5]})
    vlib.log("[C12] probes: %d runs validated by LuaLimitsTrace (%.0fs), %d rejected" % (nruns, time.time() - t1, nbad))
    return nruns


def sweep_part(tier, sweep_tuples, verd, stats, cov):
    import c12_progs, gen_core, lsem
    thorough = tier == "thorough"
    rng = random.Random(vlib.seed() * 15485863 + 3)
    corpus = []          # (family, name, src, luasem-program or None)
    ngen = 160 if thorough else 48
    for i in range(ngen):
        p, root, src = gen_core.gen_program(vlib.seed() * 1000000 + 120000 + i, err_rate=0.10)
        corpus.append(("gen", "gen#%d" % i, src, {"root": root, "nodes": p.nodes[1:]}))
    for i in range(50 if thorough else 10):
        p, root, src = gen_core.gen_program(vlib.seed() * 1000000 + 130000 + i, err_rate=0.10)
        pre = c12_progs.OVERFLOW_PREFIXES[i % len(c12_progs.OVERFLOW_PREFIXES)]
        pname = c12_progs.OVERFLOW_PREFIX_NAMES[i % len(c12_progs.OVERFLOW_PREFIXES)]
        corpus.append(("overflow-then-gen:" + pname, "%s+gen#%d" % (pname, i), pre + src, None))
    for name, src in sorted(c12_progs.OWN_SWEEP.items()):
        corpus.append(("own:" + name, name, src, None))
    for name, src in sorted(c12_progs.orphan_programs().items()):
        corpus.append(("own:orphan-coroutine", name, src, None))
    alltuples = [dict({k: t[k] for k in OPT_FIELDS}, noctx=nc) for t in sweep_tuples for nc in (False, True)]
    ladder = [mk_opts(css, rs) for css in CSS + [256] for rs in (0, 128)]      # fixed stack, no growth, context attached
    ref = mk_opts()
    items, index = [], []
    full = set()
    if thorough:
        own = [i for i, c in enumerate(corpus) if c[0].startswith("own:")]
        full = set(own + rng.sample([i for i in range(len(corpus)) if corpus[i][0] == "gen"], 3))
    for pi, (fam, name, src, ls) in enumerate(corpus):
        pool = alltuples
        if fam in ("overflow-then-gen:unpack", "overflow-then-gen:huge-arglist"):
            # growing to 10 x 5120 slots in steps of 1 copies the live prefix at every step (quadratic): left out
            pool = [t for t in alltuples if not (t["rgs"] == 1 and t["rms"] > 6000)]
        cfgs = [ref] + ladder + (pool if pi in full else rng.sample(pool, 250 if thorough else 60))
        for ci, o in enumerate(cfgs):
            items.append((src, o))
            index.append((pi, o))
    t1 = time.time()
    outs = run_matrix(items, "sweep")
    vlib.log("[C12] sweep: %d programs, %d runs on the real interpreter (%.0fs); %d programs under all %d tuples"
             % (len(corpus), len(items), time.time() - t1, len(full), len(alltuples)))
    recs = [{"id": pi + 1, "kind": "sweep", "name": c[1], "fam": c[0], "ref": "", "runs": [],
             "straddle": c[0] == "own:uncaught-deep-recursion"} for pi, c in enumerate(corpus)]
    refouts = {}
    dropped = set()
    for (pi, o), out in zip(index, outs):
        if out["outcome"][0] == "budget":
            if not recs[pi]["runs"]:
                dropped.add(pi)            # no reference trace: the program is left out
            continue
        if pi in dropped:
            continue
        h = vlib.canon_hash({"emits": out["emits"], "outcome": out["outcome"][:2]})[:16]
        if not recs[pi]["runs"]:
            recs[pi]["ref"] = h
            refouts[pi] = out
        et = str(out["outcome"][2]) if out["outcome"][0] == "err" and len(out["outcome"]) > 2 else ""
        recs[pi]["runs"].append({"o": o, "oc": out["outcome"][0], "et": et, "h": h, "um": uncaught(out), "ne": len(out["emits"])})
    # the reference traces of the generated programs are themselves validated against LuaSem
    recs = [r_ for r_ in recs if r_["runs"]]
    lsprogs = [{"id": pi + 1, "src": c[2], "root": c[3]["root"], "nodes": c[3]["nodes"]} for pi, c in enumerate(corpus)
               if c[3] and pi in refouts]
    lsprogs = lsprogs[:80 if thorough else 24]
    lsv = lsem.validate(lsprogs, {p["id"]: refouts[p["id"] - 1] for p in lsprogs}, "c12ref", stats)
    cnt, _ = lsem.summarize(lsv)
    cov["reference_traces_validated_by_LuaSem"] = cnt
    t1 = time.time()
    vs = limits_validate(recs, "sweep", stats, batch=12 if not thorough else 8)
    nruns = nbad = 0
    pending = []
    for rec in recs:
        v = vs[rec["id"]]
        nruns += len(rec["runs"])
        if v["ok"]:
            continue
        bywhy = {}
        for i, why in v["bad"]:
            bywhy.setdefault(why, []).append(rec["runs"][i - 1])
        for why, runs in bywhy.items():
            nbad += len(runs)
            key = limit_key("sweep", rec["fam"], why, runs)
            r0 = runs[0]
            for r_ in runs:
                def fp(o, r_=r_):
                    if o is None:
                        return (r_["h"], r_["oc"])
                    return (vlib.canon_hash({"emits": o["emits"], "outcome": o["outcome"][:2]})[:16], o["outcome"][0])
                pending.append((key, "program %s under %s: %s (outcome %s %s, %d emits; reference: %d emits); %d of %d runs of this "
                                "program fail this way" % (rec["name"], json.dumps({k: x for k, x in r0["o"].items() if x}, sort_keys=True),
                                                           why, r0["oc"], r0["um"], r0["ne"], rec["runs"][0]["ne"], len(runs), len(rec["runs"])),
                                {"part": "sweep", "name": rec["name"], "fam": rec["fam"], "why": why, "run": r_,
                                 "src": corpus[rec["id"] - 1][2], "ref": rec["ref"]},
                                corpus[rec["id"] - 1][2], r_["o"], fp, "sweep", rec["fam"], why + ("/" + r_["um"] if r_["um"] else "")))
    confirm_and_report(pending, verd, "s")
    within = sum(1 for rec in recs for r_ in rec["runs"] if r_["h"] == rec["ref"])
    cov["sweep_programs"] = len(corpus)
    cov["sweep_runs"] = nruns
    cov["sweep_runs_equal_to_reference"] = within
    cov["sweep_programs_under_all_tuples"] = len(full)
    cov["sweep_tuples"] = len(alltuples)
    cov["samples"].append({"part": "sweep", "program": corpus[0][1], "run": recs[0]["runs"][7]})
    vlib.log("[C12] sweep: %d runs validated by LuaLimitsTrace (%.0fs): %d equal to the reference trace, %d rejected; "
             "LuaSem validated %s of the reference traces" % (nruns, time.time() - t1, within, nbad, cnt))
    return nruns


def run(tier):
    from concurrent.futures import ThreadPoolExecutor
    t0 = time.time()
    verd = vlib.Verdicts(PROP)
    stats = {"states": 0, "transitions": 0}
    cov = {"mc_runs": [], "samples": []}
    vlib.build_harness()
    vlib.specdir()
    vlib.subdir("c12")
    vlib.subdir("lsem")

    def system_part():
        tuples = options_part(tier, verd, stats, cov)
        a = probe_part(tier, tuples, verd, stats, cov)
        c = cotransfer_part(tier, tuples, verd, stats, cov)
        b = sweep_part(tier, tuples, verd, stats, cov)
        return a + b + c + cov["option_tuples"]

    with ThreadPoolExecutor(max_workers=2) as ex:
        f1 = ex.submit(component_part, tier, verd, stats, cov)
        f2 = ex.submit(system_part)
        total = f1.result() + f2.result()
    cov["inconclusive_runs_ended_by_the_harness_safety_net"] = INCONCLUSIVE[0]
    if INCONCLUSIVE[0]:
        vlib.log("[C12] %d of %d interpreter runs were ended by the harness safety net (inconclusive, left out)" % (INCONCLUSIVE[0], TOTALRUNS[0]))
    if INCONCLUSIVE[0] * 20 > max(1, TOTALRUNS[0]):
        raise vlib.Infra("more than 5%% of the interpreter runs were inconclusive (%d of %d)" % (INCONCLUSIVE[0], TOTALRUNS[0]))
    for key in sorted(BREAKDOWN):
        vlib.log("[C12] rejected cases with key %s:" % key)
        for (part, fam, why), c in sorted(BREAKDOWN[key].items()):
            vlib.log("[C12]     %-9s %-40s %-45s %d" % (part, fam, why, c))
    rc = verd.finish()
    vlib.write_evidence(PROP, tier, "model_checking", {
        "states": stats["states"], "transitions": stats["transitions"],
        "traces_validated_against_impl": total,
        "evaluations": total,
        "distinct_nontrivial": cov.get("stack_gen", 0) + cov.get("reg_gen", 0) + cov.get("probe_runs", 0) + cov.get("sweep_runs", 0),
        "rule": "stack/registry histories = one per transition of the implementation-shaped state graphs (BFS with a VIEW that "
                "drops history and tags) + seeded random histories; option tuples = the TLC-enumerated set; probe/sweep runs = "
                "(program, raw option tuple) pairs executed on the real interpreter; non-trivial = histories with >= 1 operation, runs that executed",
        "detail": {k: v for k, v in cov.items() if k not in ("samples", "mc_runs")},
        "samples": cov["samples"][:8], "mc_runs": cov["mc_runs"], "exhaustive": False,
        "known_findings_hit": sorted(verd.known_hit),
        "rejected_breakdown": {k: {"%s|%s|%s" % t: c for t, c in d.items()} for k, d in BREAKDOWN.items()},
    }, time.time() - t0, len(verd.violations), assumptions=[
        "TLC explores CallStackImpl for sizes 1..17 and RegistryImpl for scaled sizes 3..6 (grow step 1..3, MaxSize around the boundaries)",
        "protocol preconditions of the stack/registry (Pop on non-empty, SetSp(n<=Sp), CopyRange with non-clobbering overlap) are assumed as the VM guarantees them",
        "frame/register cost per recursion level of a probe (a, c) is calibrated from the fixed-stack, context-attached runs of the same probe",
        "the register file may exceed its limit by one slot per overflow error already raised in the same thread (forced growth in raiseError); probes with fresh threads have no such slack",
        "sweep programs: 'within limits' is witnessed by a fixed-stack run with smaller-or-equal limits that produced the reference trace",
        "CallStackSize above 2^19 only at the component level (histories on sizes 524288/524289/1000000)"])
    return rc


def replay(path):
    rec = json.load(open(path))
    rp = rec["replay"]
    verd = vlib.Verdicts(PROP)
    verd.findings = []
    stats = {"states": 0, "transitions": 0}
    vlib.build_harness()
    part = rp["part"]
    if part in ("CallStackTrace", "RegistryTrace"):
        tr = rp["trace"]
        ops = []
        for e in tr["ev"]:
            ops.append({k: v for k, v in e.items() if k not in ("r", "pr", "pv", "o", "msg")})
        if part == "CallStackTrace":
            run_stack_hists([{"id": 1, "impl": tr["impl"], "size": tr["size"], "h": ops}], "replay", verd, stats, obsall=True)
        else:
            run_reg_hists([{"id": 1, "cfg": tr["cfg"], "h": ops}], "replay", verd, stats, obsall=True)
    elif part == "options":
        vlib.log("options case: raw=%s predicted=%s observed=%s" % (rp["raw"], rp["predicted"]["norm"], rp["observed"]))
        verd.candidate(rec["key"], rec["what"], rp)
    elif part == "cotransfer":
        import c12_progs
        rec0 = rp["record"]
        out = run_matrix([(rp["src"], rec0["o"])], "replay")[0]
        now = co_record(dict(rp["sc"], src=rp["src"]), rec0["id"], rec0["o"], out)
        for e in now["ev"]:
            vlib.log("event: %s" % json.dumps(e))
        vlib.log("outcome %s; new coroutine afterwards: %s; follow-up: %s" % (now["oc"], now["fresh"], now["f"]))
        vs = vlib.validate_batches("LuaCoTransferTrace", "LuaCoTransferTrace", [now], "c12_cotr_replay", batch=10, parallel=1)[0].tag("VERDICT")
        if not vs[0]["ok"]:
            verd.candidate(co_key(now, vs[0]["bad"][0], vs[0]["bad"][1]), rec["what"], rp)
    else:
        out = run_matrix([(rp["src"], rp["run"]["o"]), (rp["src"], mk_opts())], "replay")
        for o, tag in zip(out, ("failing configuration", "default configuration")):
            oc = o["outcome"][:2]
            if len(oc) > 1 and isinstance(oc[1], list) and oc[1] and oc[1][0] == "s":
                oc = [oc[0], dec(oc[1])]
            vlib.log("%s: emits=%s outcome=%s" % (tag, json.dumps([[dec(x) for x in e] for e in o["emits"]])[:1500], json.dumps(oc)[:300]))
        h = vlib.canon_hash({"emits": out[0]["emits"], "outcome": out[0]["outcome"][:2]})[:16]
        if part == "sweep":
            if h != rp["ref"] or out[0]["outcome"][0] not in ("ok", "err"):
                verd.candidate(rec["key"], rec["what"], rp)
        else:
            now = probe_run_record(out[0], rp["run"]["o"], rp["run"]["cal"], rp.get("fresh"))
            same = all(now[k] == rp["run"][k] for k in ("oc", "np", "pok", "ety", "n", "aok", "av", "um"))
            vlib.log("recorded observation %s" % ("reproduced" if same else "NOT reproduced: %s" % json.dumps(now)))
            if same:
                verd.candidate(rec["key"], rec["what"], rp)
    return verd.finish()


# ---------------------------------------------------------------------------
# part 4: coroutine value transfers that overflow the receiving register file

def co_event(em, via):
    """one ("ev", ...) emit as an event record for LuaCoTransferTrace (data extraction only)"""
    _, nin, a1, a2, st, run, cnt, r1, r2, r3, r4, r5, t2, t3 = em
    e = {"n": int(nin), "a1": str(a1), "a2": str(a2), "st": str(st), "run": run is True, "res": "err", "cnt": 0, "v": [],
         "ety": "", "msg": ""}
    if via == "resume":
        if r1 == "true" and r2 == "true":
            e["res"], e["cnt"], e["v"] = "ok", int(cnt) - 2, [x for x in (r3, r4, r5)][:max(0, int(cnt) - 2)]
        elif r1 == "true":
            e["ety"], e["msg"] = str(t3), str(r3)          # resume returned false, message
        else:
            e["ety"], e["msg"] = str(t2), str(r2)          # raised in the resumer
    else:
        if r1 == "true":
            e["res"], e["cnt"], e["v"] = "ok", int(cnt) - 1, [x for x in (r2, r3, r4)][:max(0, int(cnt) - 1)]
        else:
            e["ety"], e["msg"] = str(t2), str(r2)
    return e


def co_record(sc, rid, opts, out):
    em = [[dec(x) for x in e] for e in out["emits"]]
    rec = {"id": rid, "scen": sc["scen"], "via": sc["via"], "nested": sc["nested"], "K": sc["K"], "D": sc["D"], "fm": sc["fm"],
           "nev": sc["nev"], "o": opts, "oc": out["outcome"][0], "um": uncaught(out), "ev": [], "fresh": [], "f": []}
    try:
        for e in em:
            if e[0] == "ev":
                rec["ev"].append(co_event(e, sc["via"]))
            elif e[0] == "fresh":
                rec["fresh"] = [str(x).lower() if isinstance(x, bool) else str(x) for x in e[1:]]
            elif e[0] == "after":
                rec["f"] = e[1:]
    except Exception as ex:
        rec["oc"] = "harness:" + str(ex)
    return rec


def co_key(rec, pos, why):
    ev = rec["ev"][pos - 1] if 0 < pos <= len(rec["ev"]) else None
    big_in = any(e["n"] > 8 and e["res"] == "err" for e in rec["ev"][:pos])
    if rec["scen"] in ("echo", "vararg") and big_in and (why in ("status-after-refused-arguments", "running-coroutine-changed")
                                                         or (ev and "running thread" in ev["msg"])):
        return "C12:resume-args-overflow:coroutine-stays-running"
    if rec["scen"] == "vararg" and big_in:
        return "C12:resume-args-overflow:fresh-coroutine-unusable-afterwards"
    if rec["scen"] in ("yieldbig", "returnbig"):
        if why in ("status-after-dropped-results", "resume-results", "status-after-resume"):
            return "C12:yield-results-overflow:coroutine-not-switched-out"
        return "C12:yield-results-overflow:%s:%s" % (rec["scen"], why)
    return "C12:cotransfer:%s:%s" % (rec["scen"], why)


def cotransfer_part(tier, sweep_tuples, verd, stats, cov):
    import c12_progs
    thorough = tier == "thorough"
    rng = random.Random(vlib.seed() * 2654435761 % 1000003 + 17)
    # register-file configurations: fixed and growable (overflow at RegistryMaxSize), several sizes; lim from TLC
    regs = sorted(set((t["rs"], t["rms"], t["rgs"], t["lim"]) for t in sweep_tuples if t["lim"] <= 6000 and t["rs"] != 127))
    if not thorough:
        keep = [t for t in regs if t[1] == 0 and t[2] == 0]
        regs = keep + rng.sample([t for t in regs if t not in keep], 10)
    items, meta = [], []
    m = 10
    for (rs, rms, rgs, lim) in regs:
        for scen in sorted(c12_progs.CO_SCENARIOS):
            for via in ("resume", "wrap"):
                if scen == "vararg" and via == "wrap":
                    continue                        # no handle to ask the status of a never-started wrap coroutine
                for shape in ("long-list", "deep-receiver"):
                    for nested in ((False, True) if thorough or shape == "long-list" else (False,)):
                        # parameters only steer the run towards the overflow; nothing is judged from them
                        NL = 60
                        if scen == "vararg":
                            if shape == "deep-receiver":
                                continue
                            K, D, NL = lim - 45, 1, min(150, lim // 2)
                        elif shape == "long-list":
                            K, D = (lim - 60, 4) if scen == "echo" else (lim - 40, 2)
                        elif lim < 400:
                            continue                # a deep receiver plus a list that fits the sender needs room
                        else:
                            D = min(200, (lim * 3 // 4) // 22)
                            K = lim - 22 * D + 60
                        m = m + 1 if m < 60 else 11
                        sc = c12_progs.co_scenario(scen, via, K, D, m, nested, NL)
                        for msm, noctx in ((False, False), (True, True)):
                            o = mk_opts(0, rs, rms, rgs, msm, noctx)
                            items.append((sc["src"], o))
                            meta.append((sc, o))
    t1 = time.time()
    outs = run_matrix(items, "cotr")
    keep = [i for i, out in enumerate(outs) if out["outcome"][0] != "budget"]
    meta, outs = [meta[i] for i in keep], [outs[i] for i in keep]
    recs = [co_record(sc, i + 1, o, out) for i, ((sc, o), out) in enumerate(zip(meta, outs))]
    for r_ in recs:
        if r_["oc"].startswith("harness:"):
            raise vlib.Infra("cotransfer: cannot read the emits of run %d (%s)" % (r_["id"], r_["oc"]))
    novf = sum(1 for r_ in recs if any(e["res"] == "err" for e in r_["ev"]))
    vlib.log("[C12] coroutine transfers: %d scenario runs on the real interpreter (%.0fs); the long list overflowed the receiver in %d"
             % (len(recs), time.time() - t1, novf))
    if novf * 3 < len(recs):
        raise vlib.Infra("cotransfer: only %d of %d runs reached the overflow (scenario parameters drifted)" % (novf, len(recs)))
    vs = {}
    for r in vlib.validate_batches("LuaCoTransferTrace", "LuaCoTransferTrace", recs, "c12_cotr", batch=1500, parallel=2, timeout=900):
        with LOCK:
            stats["states"] += r.distinct
            stats["transitions"] += r.generated
        got = r.tag("VERDICT")
        if len(got) != r.nrecords:
            raise vlib.Infra("LuaCoTransferTrace: %d verdicts for %d records" % (len(got), r.nrecords))
        for v in got:
            vs[v["id"]] = v
    pending = []
    for rec, (sc, o) in zip(recs, meta):
        v = vs[rec["id"]]
        if v["ok"]:
            continue
        pos, why = v["bad"]
        if str(why).startswith("harness:"):
            raise vlib.Infra("cotransfer: scenario script out of step in run %d (%s)" % (rec["id"], why))
        key = co_key(rec, pos, why)
        ev = rec["ev"][pos - 1] if 0 < pos <= len(rec["ev"]) else None

        def fp(out, rec=rec, sc=sc, o=o):
            x = rec if out is None else co_record(sc, rec["id"], o, out)
            return json.dumps([x["oc"], x["ev"], x["fresh"], x["f"]], sort_keys=True)
        what = "scenario %s via %s%s (K=%d, D=%d) under %s: %s at event %d%s" % (
            rec["scen"], rec["via"], ", nested" if rec["nested"] else "", rec["K"], rec["D"],
            json.dumps({k: x for k, x in o.items() if x}, sort_keys=True), why, pos,
            (": " + json.dumps({k: ev[k] for k in ("n", "res", "st", "cnt", "v", "msg")})[:300]) if ev else " (outcome %s %s)" % (rec["oc"], rec["um"]))
        pending.append((key, what, {"part": "cotransfer", "record": rec, "src": sc["src"], "sc": {k: sc[k] for k in sc if k != "src"},
                                    "verdict": v}, sc["src"], o, fp, "cotransfer", "%s/%s" % (rec["scen"], rec["via"]), why))
    confirm_and_report(pending, verd, "c")
    cov["cotransfer_runs"] = len(recs)
    cov["cotransfer_runs_with_overflow"] = novf
    cov["cotransfer_register_configs"] = len(regs)
    cov["samples"].append({"part": "cotransfer", "scenario": recs[0]["scen"], "opts": recs[0]["o"], "events": recs[0]["ev"]})
    vlib.log("[C12] coroutine transfers: %d runs validated by LuaCoTransferTrace, %d rejected" % (len(recs), len(pending)))
    return len(recs)
