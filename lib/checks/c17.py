"""C17 - errors and debug queries report the right source line and variables.
Oracle: LuaSem with per-layout token lines: error positions (exact line for
single-line statements, a line of the innermost statement otherwise), error level 2,
debug.getinfo currentline/linedefined/lastlinedefined, debug.getlocal/getupvalue
enumeration and setlocal/setupvalue, evaluated by TLC."""
import itertools, json, random, time
import vlib, lsem, gen_lines, gen_core
from luagen import render, finalize

PROP = "C17"
LAYOUTS = [("canon", "\n"), ("shift", "\n"), ("shift", "\r\n"), ("spread", "\n"), ("spread", "\r\n"), ("shift", "\r"), ("cmtline", "\n")]


def run(tier):
    t0 = time.time()
    thorough = tier == "thorough"
    seed = vlib.seed()
    rng = random.Random(seed * 23 + 17)
    progs = []

    def add(fam, p, root, layout, eol, lrng):
        src = render(p, root, rng=lrng, layout=layout, eol=eol)
        finalize(p, root)
        rec = {"id": len(progs) + 1, "fam": fam, "root": root, "nodes": [dict(n) for n in p.nodes[1:]], "src": src, "layout": [layout, eol]}
        # every third program is loaded from a FILE, half of those behind a '#' first line
        # (LoadFile skips it; the line numbers of all tokens still count it)
        if len(progs) % 3 == 0:
            rec["opts"] = {"file": True}
            rec["fam"] = fam + "@file"
            if len(progs) % 2 == 0 and "\n" in eol:      # the skipped first line ends at LF (as in luaL_loadfile)
                first = "#!/usr/bin/env lua -- first line of a script file"
                if len(progs) % 4 == 0:          # ... longer than every read buffer of the loader (4096, 8192 bytes)
                    first += " " + "x" * (4090 + 1300 * (len(progs) % 7))
                rec["src"] = first + eol + src
                rec["fam"] = fam + "@shebang"
                for nd in rec["nodes"]:
                    if nd.get("ln") and nd["ln"][0]:
                        nd["ln"] = [nd["ln"][0] + 1, nd["ln"][1] + 1]
        progs.append(rec)

    combos = list(itertools.product(gen_lines.FAILS, gen_lines.PLACES))
    rng.shuffle(combos)
    import zlib
    for fail, place in combos:
        for layout, eol in (LAYOUTS if thorough else rng.sample(LAYOUTS, 2)):
            lrng = random.Random(rng.random())
            p, root = gen_lines.line_case(random.Random(zlib.crc32(("%s/%s/%d" % (fail, place, seed)).encode())), fail, place, npre=rng.randint(0, 5))
            add("line:" + layout, p, root, layout, eol, lrng)
    for i in range(300 if thorough else 60):
        for layout, eol in (("canon", "\n"), ("shift", "\r\n")):
            p, root = gen_lines.scope_case(random.Random(seed * 1000 + i))
            add("scope", p, root, layout, eol, random.Random(i))
    for ntail in (0, 1, 2, 3):
        for query in ("info", "local", "error"):
            for layout, eol in (("canon", "\n"), ("shift", "\r\n")):
                p, root = gen_lines.taillevel_case(ntail, query, random.Random(seed * 77 + ntail))
                add("taillevel", p, root, layout, eol, random.Random(ntail))
    for which, bad in itertools.product(["init", "limit", "step"], ["table", "nil", "word", "bool", "func"]):
        for nbody, (layout, eol) in ((0, ("canon", "\n")), (2, ("shift", "\n")), (4, ("spread", "\r\n"))):
            p, root = gen_lines.forprep_case(which, bad, nbody, random.Random(seed * 83 + nbody))
            add("forprep", p, root, layout, eol, random.Random(nbody + 11))
    for ntail in (0, 1, 2):
        for beyond in ("thread", "chunk", "chunk-level"):
            for layout, eol in (("canon", "\n"), ("shift", "\n")):
                p, root = gen_lines.taillevel_case(ntail, "error", random.Random(seed * 79 + ntail), beyond)
                add("beyondlevel", p, root, layout, eol, random.Random(ntail + 5))
    for variant in ("open", "closed"):
        for layout, eol in (("canon", "\n"), ("shift", "\n")):
            p, root = gen_lines.xthread_case(variant)
            add("xthread", p, root, layout, eol, random.Random(3))
    for i in range(200 if thorough else 40):
        for layout, eol in (("canon", "\n"), ("shift", "\n"), ("shift", "\r\n")):
            p, root = gen_lines.info_case(random.Random(seed * 2000 + i))
            add("info", p, root, layout, eol, random.Random(i * 7 + 1))
    # random programs ending in errors, under shifted layouts (positions of ordinary runtime errors)
    for i in range(600 if thorough else 120):
        g = gen_core.RandGen(random.Random(seed * 3000 + i), err_rate=1.0, size=8)
        root = g.program()
        layout, eol = rng.choice(LAYOUTS)
        add("randerr:" + layout, g.p, root, layout, eol, random.Random(i))
    verd, cov, allv, allo, stats = lsem.run_families(
        PROP, tier, progs,
        "one failing construct (11 kinds: arithmetic/concat/comparison/call/index/method on nil, unary minus, error level 1 and 2, error with a table) in each of 15 statement positions, preceded by 0-5 statements, rendered under layouts {canonical, blank+comment lines of every form inserted, line breaks inside statements} x {LF, CRLF, CR}; debug.getinfo currentline at levels 1/2 and linedefined/lastlinedefined; levels counted through 0-3 activations lost to proper tail calls (getinfo, getlocal, error level); random block/loop/function nestings with shadowing queried by debug.getlocal at levels 1/2, setlocal, getupvalue/setupvalue by name, also from metamethod handlers run by the first instruction after a block and on variables living in another thread's registers; random programs ending in runtime errors under random layouts",
        [], t0, max_steps=30000, nontrivial_min_emits=2)
    rc = verd.finish()
    cov["known_findings_hit"] = sorted(verd.known_hit)
    cov["layouts"] = ["%s/%r" % l for l in LAYOUTS]
    vlib.write_evidence(PROP, tier, "model_checking", cov, time.time() - t0, len(verd.violations), assumptions=[
        "for a statement spread over several lines any line of that statement (or block header) is accepted, as the property states; exact line for single-line statements",
        "upvalue enumeration order is not fixed by the manual: upvalues are compared by name",
        "internal '(for ...)' / temporary slots are filtered by name"])
    return rc


def replay(path):
    rec = json.load(open(path))
    p = rec["replay"]["program"]
    verd = vlib.Verdicts(PROP)
    verd.findings = []
    lsem.decide(PROP, [p], "replay", verd, {"states": 0, "transitions": 0}, {}, [], max_steps=30000)
    return verd.finish()
