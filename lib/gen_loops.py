"""C11 corpus: terminating and NON-terminating programs (the spec runs a bounded
prefix of them; the real VM is cancelled at every dispatch poll k)."""
from luagen import Prog


def _co(p, name):
    return p.field(p.id("coroutine"), name)


def loops():
    out = []

    def mk(name, build):
        p = Prog()
        out.append((name, p, p.block(build(p))))

    def tick(p, var="n", every=3):
        """n = n + 1; if n % every == 0 then emit(n) end"""
        return [p.assign([p.id(var)], [p.bin("+", p.id(var), p.num(1))]),
                p.if_([p.bin("==", p.bin("%", p.id(var), p.num(every)), p.num(0))], [p.block([p.emit([p.id(var)])])])]

    mk("while_true", lambda p: [p.local(["n"], [p.num(0)]), p.while_(p.true(), p.block(tick(p)))])
    mk("repeat_forever", lambda p: [p.local(["n"], [p.num(0)]), p.repeat(p.block(tick(p)), p.false())])
    mk("goto_loop", lambda p: [p.local(["n"], [p.num(0)]), p.label("top")] + tick(p) + [p.goto("top")])
    mk("numeric_for_long", lambda p: [p.local(["n"], [p.num(0)]), p.fornum("i", p.num(1), p.num(100000), 0, p.block(tick(p)))])

    def recursion(p):
        body = p.block([p.assign([p.id("n")], [p.bin("+", p.id("n"), p.num(1))]), p.emit([p.id("d")]),
                        p.if_([p.bin("<", p.id("d"), p.num(40))], [p.block([p.local(["r"], [p.call(p.id("rec"), [p.bin("+", p.id("d"), p.num(1))])]), p.ret([p.id("r")])])]),
                        p.ret([p.id("d")])])
        return [p.local(["n"], [p.num(0)]), p.localfunction("rec", p.func(["d"], body)),
                p.while_(p.true(), p.block([p.emit([p.str("round"), p.call(p.id("rec"), [p.num(1)])])]))]
    mk("recursion", recursion)

    def tailloop(p):
        body = p.block(tick(p) + [p.ret([p.call(p.id("spin"), [])])])
        return [p.local(["n"], [p.num(0)]), p.localfunction("spin", p.func([], body)), p.callstat(p.call(p.id("spin"), []))]
    mk("tailcall_loop", tailloop)

    def pcall_retry(p):
        f = p.func([], p.block(tick(p) + [p.callstat(p.call(p.id("error"), [p.str("again")]))]))
        return [p.local(["n"], [p.num(0)]), p.localfunction("f", f),
                p.while_(p.true(), p.block([p.local(["ok", "e"], [p.call(p.id("pcall"), [p.id("f")])]),
                                            p.if_([p.id("ok")], [p.block([p.emit([p.str("impossible")])])])]))]
    mk("pcall_retry_loop", pcall_retry)

    def pcall_inner_loop(p):
        inner = p.func([], p.block([p.while_(p.true(), p.block(tick(p)))]))
        return [p.local(["n"], [p.num(0)]),
                p.while_(p.true(), p.block([p.emit([p.str("caught"), p.call(p.id("pcall"), [inner])])]))]
    mk("loop_inside_pcall_retry", pcall_inner_loop)

    def nested_pcalls(p):
        lvl3 = p.func([], p.block([p.while_(p.true(), p.block(tick(p)))]))
        lvl2 = p.func([], p.block([p.emit([p.str("l2"), p.call(p.id("pcall"), [lvl3])]), p.while_(p.true(), p.block(tick(p, every=5)))]))
        lvl1 = p.func([], p.block([p.emit([p.str("l1"), p.call(p.id("pcall"), [lvl2])]), p.while_(p.true(), p.block(tick(p, every=7)))]))
        return [p.local(["n"], [p.num(0)]), p.emit([p.str("l0"), p.call(p.id("pcall"), [lvl1])]), p.while_(p.true(), p.block(tick(p, every=2)))]
    mk("nested_pcalls_each_looping", nested_pcalls)

    def xpcall_handler_loop(p):
        h = p.func(["m"], p.block([p.emit([p.str("handler")]), p.while_(p.true(), p.block(tick(p)))]))
        f = p.func([], p.block(tick(p) + tick(p) + [p.callstat(p.call(p.id("error"), [p.str("boom")]))]))
        return [p.local(["n"], [p.num(0)]), p.emit([p.call(p.id("xpcall"), [f, h])]), p.emit([p.str("after")])]
    mk("xpcall_looping_handler", xpcall_handler_loop)

    def index_recursion(p):
        mt = p.table([("k", p.add("str", s=list(b"__index"), name=True),
                       p.func(["t", "k"], p.block(tick(p) + [p.ret([p.index(p.id("t"), p.bin("+", p.id("k"), p.num(1)))])])))])
        return [p.local(["n"], [p.num(0)]), p.local(["o"], [p.call(p.id("setmetatable"), [p.table([]), mt])]),
                p.emit([p.call(p.id("pcall"), [p.func([], p.block([p.ret([p.index(p.id("o"), p.num(1))])]))])]),
                p.while_(p.true(), p.block(tick(p)))]
    mk("metamethod_recursion", index_recursion)

    def pingpong(p):
        body = p.func([], p.block([p.while_(p.true(), p.block([p.assign([p.id("n")], [p.bin("+", p.id("n"), p.num(1))]),
                                                               p.callstat(p.call(_co(p, "yield"), [p.id("n")]))]))]))
        return [p.local(["n"], [p.num(0)]), p.local(["co"], [p.call(_co(p, "create"), [body])]),
                p.while_(p.true(), p.block([p.local(["ok", "v"], [p.call(_co(p, "resume"), [p.id("co")])]),
                                            p.if_([p.bin("==", p.bin("%", p.id("v"), p.num(2)), p.num(0))], [p.block([p.emit([p.id("ok"), p.id("v")])])])]))]
    mk("coroutine_pingpong", pingpong)

    def generator_forin(p):
        gen = p.func([], p.block([p.local(["i"], [p.num(0)]),
                                  p.while_(p.true(), p.block([p.assign([p.id("i")], [p.bin("+", p.id("i"), p.num(1))]),
                                                              p.callstat(p.call(_co(p, "yield"), [p.id("i")]))]))]))
        return [p.forin(["v"], [p.call(_co(p, "wrap"), [gen])], p.block([p.if_([p.bin("==", p.bin("%", p.id("v"), p.num(3)), p.num(0))], [p.block([p.emit([p.id("v")])])])]))]
    mk("generator_in_forin", generator_forin)

    def host_cancels_inside_coroutine(p):     # the context is cancelled by the host while a coroutine loops forever
        body = p.func([], p.block([p.emit([p.str("in-co")]), p.callstat(p.call(p.id("gcancel"), [])),
                                   p.while_(p.true(), p.block(tick(p)))]))
        return [p.local(["n"], [p.num(0)]), p.emit([p.str("start")]), p.callstat(p.call(p.call(_co(p, "wrap"), [body]), [])), p.emit([p.str("unreachable")])]
    mk("host_cancels_inside_coroutine", host_cancels_inside_coroutine)

    def host_cancels_inside_nested_coroutines(p):
        inner = p.func([], p.block([p.callstat(p.call(p.id("gcancel"), [])), p.while_(p.true(), p.block(tick(p)))]))
        outer = p.func([], p.block([p.emit([p.str("outer")]), p.local(["c2"], [p.call(_co(p, "create"), [inner])]),
                                    p.emit([p.call(_co(p, "resume"), [p.id("c2")])]), p.while_(p.true(), p.block(tick(p)))]))
        return [p.local(["n"], [p.num(0)]), p.local(["c1"], [p.call(_co(p, "create"), [outer])]),
                p.emit([p.call(_co(p, "resume"), [p.id("c1")])]), p.while_(p.true(), p.block(tick(p)))]
    mk("host_cancels_inside_nested_coroutines", host_cancels_inside_nested_coroutines)

    def host_cancels_main(p):     # the host cancels from a host function called by the main chunk itself
        return [p.local(["n"], [p.num(0)]), p.emit([p.str("start")]), p.callstat(p.call(p.id("gcancel"), [])), p.while_(p.true(), p.block(tick(p)))]
    mk("host_cancels_in_main_chunk", host_cancels_main)

    def host_cancels_in_callee(p):
        f = p.func([], p.block([p.callstat(p.call(p.id("gcancel"), [])), p.ret([p.num(1)])]))
        return [p.local(["n"], [p.num(0)]), p.localfunction("f", f), p.emit([p.str("start"), p.call(p.id("f"), [])]), p.while_(p.true(), p.block(tick(p)))]
    mk("host_cancels_in_lua_callee", host_cancels_in_callee)

    def host_body_callback(p):      # the body of the coroutine is a host function that calls back into a looping Lua function
        spin = p.func([], p.block([p.while_(p.true(), p.block(tick(p)))]))
        return [p.local(["n"], [p.num(0)]), p.emit([p.str("start")]), p.emit([p.call(p.call(_co(p, "wrap"), [p.id("pcall")]), [spin])]), p.emit([p.str("unreachable")])]
    mk("host_function_body_calls_back", host_body_callback)

    def host_body_callback_cancelled(p):    # ... and the callback has the host cancel before it starts spinning
        spin = p.func([], p.block([p.callstat(p.call(p.id("gcancel"), [])), p.while_(p.true(), p.block(tick(p)))]))
        return [p.local(["n"], [p.num(0)]), p.emit([p.str("start")]), p.emit([p.call(p.call(_co(p, "wrap"), [p.id("pcall")]), [spin])]), p.emit([p.str("unreachable")])]
    mk("host_function_body_cancels_then_spins", host_body_callback_cancelled)

    def host_body_gcall(p):
        spin = p.func([], p.block([p.while_(p.true(), p.block(tick(p)))]))
        return [p.local(["n"], [p.num(0)]), p.local(["c"], [p.call(_co(p, "create"), [p.id("gcall")])]), p.emit([p.call(_co(p, "resume"), [p.id("c"), spin])]),
                p.while_(p.true(), p.block(tick(p)))]
    mk("host_function_body_gcall", host_body_gcall)

    # loops whose body is empty: every iteration still is a dispatch
    mk("empty_numeric_for", lambda p: [p.emit([p.str("start")]), p.fornum("i", p.num(1), p.id("ghuge"), 0, p.block([])), p.emit([p.str("unreachable")])])
    mk("empty_numeric_for_down", lambda p: [p.emit([p.str("start")]), p.fornum("i", p.num(0), p.un("-", p.id("ghuge")), p.num(-1), p.block([])), p.emit([p.str("unreachable")])])
    # the host cancels, then the script enters an empty loop that would never end
    mk("host_cancel_then_empty_for", lambda p: [p.emit([p.str("start")]), p.callstat(p.call(p.id("gcancel"), [])), p.fornum("i", p.num(1), p.id("ghuge"), 0, p.block([])), p.emit([p.str("unreachable")])])

    def empty_for_in_pcall_retry(p):
        f = p.func([], p.block([p.fornum("i", p.num(1), p.id("ghuge"), 0, p.block([]))]))
        return [p.local(["n"], [p.num(0)]), p.while_(p.true(), p.block([p.emit([p.str("caught"), p.call(p.id("pcall"), [f])])] + tick(p)))]
    mk("empty_for_inside_pcall_retry", empty_for_in_pcall_retry)

    def empty_for_in_coroutine(p):
        body = p.func([], p.block([p.callstat(p.call(p.id("gcancel"), [])), p.fornum("i", p.num(1), p.id("ghuge"), 0, p.block([]))]))
        return [p.emit([p.str("start")]), p.emit([p.call(_co(p, "resume"), [p.call(_co(p, "create"), [body])])]), p.emit([p.str("unreachable")])]
    mk("empty_for_inside_coroutine", empty_for_in_coroutine)
    mk("empty_while", lambda p: [p.emit([p.str("start")]), p.while_(p.true(), p.block([])), p.emit([p.str("unreachable")])])
    mk("empty_repeat", lambda p: [p.emit([p.str("start")]), p.repeat(p.block([]), p.false()), p.emit([p.str("unreachable")])])

    def terminating(p):
        return [p.local(["n"], [p.num(0)]), p.fornum("i", p.num(1), p.num(12), 0, p.block(tick(p, every=2))),
                p.emit([p.str("done"), p.call(p.id("pcall"), [p.func([], p.block([p.ret([p.num(1)])]))])]), p.ret([p.id("n")])]
    mk("terminating", terminating)

    def closure_loop(p):
        return [p.local(["n", "fs"], [p.num(0), p.table([])]),
                p.while_(p.true(), p.block([p.local(["c"], [p.id("n")]),
                                            p.assign([p.index(p.id("fs"), p.num(1))], [p.func([], p.block([p.ret([p.id("c")])]))])] + tick(p)))]
    mk("closure_creating_loop", closure_loop)

    # ---- the host replaces the attached context while the script runs (gswap): only the
    # new context becomes done; loops that were already running must notice it too
    swap = lambda p: p.callstat(p.call(p.id("gswap"), []))
    mk("swap_then_while_true", lambda p: [p.local(["n"], [p.num(0)]), swap(p), p.while_(p.true(), p.block(tick(p)))])

    def swap_in_callee(p):      # the main chunk's loop was entered long before the replacement
        f = p.func([], p.block([swap(p)] + tick(p)))
        return [p.local(["n"], [p.num(0)]), p.localfunction("f", f),
                p.fornum("i", p.num(1), p.num(3), 0, p.block([p.callstat(p.call(p.id("f"), []))])),
                p.while_(p.true(), p.block(tick(p)))]
    mk("swap_in_callee_then_loop", swap_in_callee)

    def swap_in_pcall_retry(p):
        f = p.func([], p.block([swap(p)] + tick(p) + [p.callstat(p.call(p.id("error"), [p.str("again")]))]))
        return [p.local(["n"], [p.num(0)]), p.localfunction("f", f),
                p.while_(p.true(), p.block([p.local(["ok", "e"], [p.call(p.id("pcall"), [p.id("f")])])] + tick(p, every=5)))]
    mk("swap_in_pcall_retry_loop", swap_in_pcall_retry)

    def swap_then_coroutines(p):
        body = p.func([], p.block([p.while_(p.true(), p.block([p.assign([p.id("n")], [p.bin("+", p.id("n"), p.num(1))]),
                                                               p.callstat(p.call(_co(p, "yield"), [p.id("n")]))]))]))
        return [p.local(["n"], [p.num(0)]), swap(p), p.local(["co"], [p.call(_co(p, "create"), [body])]),
                p.while_(p.true(), p.block([p.local(["ok", "v"], [p.call(_co(p, "resume"), [p.id("co")])]),
                                            p.if_([p.bin("==", p.bin("%", p.id("v"), p.num(2)), p.num(0))], [p.block([p.emit([p.id("ok"), p.id("v")])])])]))]
    mk("swap_then_coroutine_pingpong", swap_then_coroutines)

    def swap_and_host_cancel(p):    # replaced and cancelled by the host inside a callee; the caller's loop must stop
        f = p.func([], p.block([swap(p), p.callstat(p.call(p.id("gcancel"), []))]))
        return [p.local(["n"], [p.num(0)]), p.localfunction("f", f), p.emit([p.str("start")]),
                p.callstat(p.call(p.id("pcall"), [p.id("f")])), p.while_(p.true(), p.block(tick(p)))]
    mk("swap_and_host_cancel_in_callee", swap_and_host_cancel)
    return out
