"""C02 families: call shapes x result contexts (the product the B=0/C=0 open
operand encodings branch on), nested calls, deep proper tail calls."""
import itertools, random
from luagen import Prog

CONTEXTS = ["stat", "single", "paren", "mid", "lastarg", "retlist", "tail", "tab", "asg1", "asg2", "asg3",
            "asgmid", "fwd", "sel2", "selcount", "selneg", "unpack", "arith", "cond", "method_arg", "retparen"]
KINDS = ["lua", "callobj", "host", "method", "gcall"]
VARIANTS = ["fixed", "dots", "arg", "dotsret"]     # parameter list style


def call_shape(np_, variant, nargs, ctx, nres, kind):
    p = Prog()
    ss = []
    ps = ["p%d" % i for i in range(1, np_ + 1)]
    va = variant != "fixed"
    ud = variant in ("dots", "dotsret")
    # ---- callee
    inside = [p.str("in")] + [p.id(x) for x in ps]
    if variant == "dots" or variant == "dotsret":
        inside += [p.call(p.id("select"), [p.str("#"), p.dots()]), p.dots()]
    elif variant == "arg":
        inside += [p.field(p.id("arg"), "n"), p.index(p.id("arg"), p.num(1)), p.index(p.id("arg"), p.num(2))]
    # half of the callees return LOCALS that are followed by further live locals (a result window
    # must never leak the registers next to it), the others return constants
    retlocals = (np_ + nargs + nres + len(ctx)) % 2 == 0 and variant != "dotsret"
    pre_ret = []
    if retlocals:
        names = ["r%d" % i for i in range(1, nres + 1)] + ["junk1", "junk2", "junk3"]
        pre_ret = [p.local(names, [p.num(100 + i) for i in range(1, nres + 1)] + [p.str("LEAK1"), p.str("LEAK2"), p.str("LEAK3")])]
        rets = [p.id("r%d" % i) for i in range(1, nres + 1)]
    else:
        rets = [p.num(100 + i) for i in range(1, nres + 1)]
    if variant == "dotsret":
        rets.append(p.dots())
    body = p.block([p.emit(inside)] + pre_ret + [p.ret(rets)])
    if kind in ("lua", "gcall"):
        ss.append(p.localfunction("callee", p.func(ps, body, va=va, ud=ud)))
        def call(args):
            if kind == "gcall":
                return p.call(p.id("gcall"), [p.id("callee")] + args)
            return p.call(p.id("callee"), args)
    elif kind == "callobj":
        ss.append(p.local(["callee"], [p.call(p.id("setmetatable"), [p.table([]), p.table([
            ("k", p.add("str", s=list(b"__call"), name=True), p.func(["self"] + ps, body, va=va, ud=ud))])])]))
        def call(args):
            return p.call(p.id("callee"), args)
    elif kind == "method":
        if (np_ + nargs + nres) % 3 == 0:
            ss.append(p.local(["obj"], [p.table([("k", p.add("str", s=[109], name=True), p.func(["self"] + ps, body, va=va, ud=ud))])]))
        elif (np_ + nargs + nres) % 3 == 1:      # function obj:m(...) end
            ss += [p.local(["obj"], [p.table([])]), p.funcstat(p.field(p.id("obj"), "m"), p.func(["self"] + ps, body, va=va, ud=ud), method=True)]
        else:                                    # function obj.m(self, ...) end
            ss += [p.local(["obj"], [p.table([])]), p.funcstat(p.field(p.id("obj"), "m"), p.func(["self"] + ps, body, va=va, ud=ud))]
        # the receiver expression: a local, a global, a field, a call result, a parenthesised expression
        # (anything but a local makes the compiler evaluate it into the register next to the method's)
        recv = ["local", "global", "field", "call", "paren"][(np_ + 2 * nargs + 3 * nres + len(ctx)) % 5]
        if recv == "global":
            ss.append(p.assign([p.id("gobj")], [p.id("obj")]))
        elif recv == "field":
            ss.append(p.local(["holder"], [p.table([("k", p.add("str", s=[111], name=True), p.id("obj"))])]))
        elif recv == "call":
            ss.append(p.localfunction("getobj", p.func([], p.block([p.ret([p.id("obj"), p.str("extra")])]))))
        def call(args):
            r = {"local": lambda: p.id("obj"), "global": lambda: p.id("gobj"), "field": lambda: p.field(p.id("holder"), "o"),
                 "call": lambda: p.call(p.id("getobj"), []), "paren": lambda: p.paren(p.id("obj"))}[recv]()
            return p.method(r, "m", args)
    elif kind == "host":
        def call(args):
            return p.call(p.id("gret"), [p.num(nres)] + args)
    args = lambda: [p.num(i) for i in range(1, nargs + 1)]
    c = lambda: call(args())
    # ---- context
    if ctx == "stat":
        ss.append(p.callstat(c()))
    elif ctx == "single":
        ss += [p.local(["x"], [c()]), p.emit([p.id("x")])]
    elif ctx == "paren":
        ss.append(p.emit([p.paren(c())]))
    elif ctx == "mid":
        ss.append(p.emit([c(), p.num(99)]))
    elif ctx == "lastarg":
        ss.append(p.emit([p.num(0), c()]))
    elif ctx == "retlist":
        ss += [p.localfunction("w", p.func([], p.block([p.ret([p.num(0), c()])]))), p.emit([p.call(p.id("w"), [])])]
    elif ctx == "retparen":
        ss += [p.localfunction("w", p.func([], p.block([p.ret([p.paren(c())])]))), p.emit([p.call(p.id("w"), [])])]
    elif ctx == "tail":
        ss += [p.localfunction("w", p.func([], p.block([p.ret([c()])]))), p.emit([p.call(p.id("w"), [])]),
               p.emit([p.num(7), p.call(p.id("w"), [])]), p.local(["x", "y"], [p.call(p.id("w"), [])]), p.emit([p.id("x"), p.id("y")])]
    elif ctx == "tab":
        ss += [p.local(["tt"], [p.table([("p", p.num(0)), ("p", c())])]),
               p.emit([p.index(p.id("tt"), p.num(i)) for i in range(1, 7)])]
    elif ctx == "asg1":
        ss += [p.local(["x"], [c()]), p.emit([p.id("x")])]
    elif ctx == "asg2":
        ss += [p.local(["x", "y"], [c()]), p.emit([p.id("x"), p.id("y")])]
    elif ctx == "asg3":
        ss += [p.local(["x", "y", "z"], [p.num(0), c()]), p.emit([p.id("x"), p.id("y"), p.id("z")]),
               p.assign([p.id("x"), p.id("gy"), p.id("z")], [c()]), p.emit([p.id("x"), p.id("gy"), p.id("z")])]
    elif ctx == "asgmid":
        ss += [p.local(["x", "y", "z"], [c(), p.num(5)]), p.emit([p.id("x"), p.id("y"), p.id("z")])]
    elif ctx == "fwd":
        ss += [p.localfunction("w", p.func([], p.block([p.ret([call([p.dots()])])]), va=True, ud=True)),
               p.emit([p.call(p.id("w"), args())]),
               p.localfunction("w2", p.func(["q"], p.block([p.ret([call([p.id("q"), p.dots()])])]), va=True, ud=True)),
               p.emit([p.call(p.id("w2"), args())])]
    elif ctx == "sel2":
        ss.append(p.emit([p.call(p.id("select"), [p.num(2), p.num(0), c()])]))
    elif ctx == "selcount":
        ss.append(p.emit([p.call(p.id("select"), [p.str("#"), c()])]))
    elif ctx == "selneg":
        ss.append(p.emit([p.call(p.id("select"), [p.num(-1), p.num(0), c()])]))
    elif ctx == "unpack":
        ss.append(p.emit([p.call(p.id("unpack"), [p.table([("p", c())])]),
                          ]))
        ss.append(p.emit([p.call(p.id("unpack"), [p.table([("p", p.num(1)), ("p", p.num(2)), ("p", p.num(3))]), p.num(nargs), p.num(nres + 1)])]))
    elif ctx == "arith":
        ss.append(p.emit([p.bin("+", p.or_(c(), p.num(0)), p.num(1)), p.bin("..", p.str("r"), p.or_(c(), p.str("none")))]))
    elif ctx == "cond":
        ss.append(p.if_([c()], [p.block([p.emit([p.str("T")])])], p.block([p.emit([p.str("F")])])))
    elif ctx == "method_arg":
        ss += [p.local(["o2"], [p.table([("k", p.add("str", s=[103], name=True),
                                          p.func(["self"], p.block([p.ret([p.call(p.id("select"), [p.str("#"), p.dots()]), p.dots()])]), va=True, ud=True))])]),
               p.emit([p.method(p.id("o2"), "g", [c()])]), p.emit([p.method(p.id("o2"), "g", [c(), p.num(1)])])]
    return p, p.block(ss)


def all_shapes():
    for np_, variant, nargs, ctx, nres, kind in itertools.product(range(0, 4), VARIANTS, range(0, 5), CONTEXTS, range(0, 4), KINDS):
        if kind == "host" and (variant != "fixed" or np_ != 0):
            continue          # the host callee has no parameter list to vary
        yield (np_, variant, nargs, ctx, nres, kind)


def gen_shapes(rng, n):
    shapes = list(all_shapes())
    rng.shuffle(shapes)
    return [(s, call_shape(*s)) for s in shapes[:n]], len(shapes)


def gen_nested(rng, n):
    """random nestings f(g(...), h()) over small functions of known arity"""
    out = []
    for _ in range(n):
        p = Prog()
        ss = []
        fns = []
        for i in range(3):
            np_ = rng.randint(0, 3)
            nr = rng.randint(0, 3)
            va = rng.random() < 0.4
            ps = ["a%d" % j for j in range(np_)]
            rets = [p.bin("+", p.or_(p.id(ps[j % np_]), p.num(0)), p.num(10 * (i + 1) + j)) if np_ else p.num(10 * (i + 1) + j) for j in range(nr)]
            if va and rng.random() < 0.6:
                rets.append(p.dots())
            elif va:
                rets.append(p.call(p.id("select"), [p.str("#"), p.dots()]))
            body = p.block([p.emit([p.str("f%d" % i)] + [p.id(x) for x in ps]), p.ret(rets)])
            ss.append(p.localfunction("f%d" % i, p.func(ps, body, va=va, ud=va)))
            fns.append("f%d" % i)

        def ex(d):
            if d == 0 or rng.random() < 0.3:
                return p.num(rng.randint(1, 9))
            f = rng.choice(fns + ["gret"])
            args = [ex(d - 1) for _ in range(rng.randint(0, 3))]
            if f == "gret":
                args = [p.num(rng.randint(0, 3))] + args
            c = p.call(p.id(f), args)
            r = rng.random()
            if r < 0.15:
                return p.paren(c)
            if r < 0.25:
                return p.call(p.id("select"), [p.num(rng.choice([1, 2, -1])), p.num(0), c])
            if r < 0.32:
                return p.index(p.table([("p", c)]), p.num(rng.randint(1, 3)))
            return c
        for _ in range(rng.randint(2, 4)):
            ss.append(p.emit([ex(3) for _ in range(rng.randint(1, 3))]))
        ss.append(p.ret([ex(2), ex(2)]))
        out.append((p, p.block(ss)))
    return out


def tail_loops(depth):
    """proper tail calls repeat far beyond the call-stack size"""
    out = []

    def mk(build):
        p = Prog()
        out.append((p, p.block(build(p))))

    def self_rec(p):
        body = p.block([p.callstat(p.call(p.id("snap"), [p.num(1)])), p.if_([p.bin("==", p.id("n"), p.num(0))], [p.block([p.ret([p.id("acc")])])]),
                        p.ret([p.call(p.id("loop"), [p.bin("-", p.id("n"), p.num(1)), p.bin("+", p.id("acc"), p.num(2))])])])
        return [p.localfunction("loop", p.func(["n", "acc"], body)), p.emit([p.call(p.id("loop"), [p.num(depth), p.num(0)])])]
    mk(self_rec)

    def mutual(p):
        b1 = p.block([p.if_([p.bin("==", p.id("n"), p.num(0))], [p.block([p.ret([p.str("even")])])]),
                      p.ret([p.call(p.id("odd"), [p.bin("-", p.id("n"), p.num(1))])])])
        b2 = p.block([p.if_([p.bin("==", p.id("n"), p.num(0))], [p.block([p.ret([p.str("odd")])])]),
                      p.ret([p.call(p.id("even"), [p.bin("-", p.id("n"), p.num(1))])])])
        return [p.local(["even", "odd"], []), p.assign([p.id("even")], [p.func(["n"], b1)]), p.assign([p.id("odd")], [p.func(["n"], b2)]),
                p.emit([p.call(p.id("even"), [p.num(depth)]), p.call(p.id("even"), [p.num(depth + 1)])])]
    mk(mutual)

    def via_callobj(p):
        body = p.block([p.if_([p.bin("==", p.id("n"), p.num(0))], [p.block([p.ret([p.str("done"), p.id("self")])])]),
                        p.ret([p.call(p.id("self"), [p.bin("-", p.id("n"), p.num(1))])])])
        return [p.local(["o"], [p.call(p.id("setmetatable"), [p.table([]), p.table([("k", p.add("str", s=list(b"__call"), name=True), p.func(["self", "n"], body))])])]),
                p.emit([p.call(p.id("o"), [p.num(depth)])])]
    mk(via_callobj)

    def method_tail(p):
        body = p.block([p.callstat(p.call(p.id("snap"), [p.num(3)])), p.if_([p.bin("==", p.id("n"), p.num(0))], [p.block([p.ret([p.field(p.id("self"), "v")])])]),
                        p.ret([p.method(p.id("self"), "step", [p.bin("-", p.id("n"), p.num(1))])])])
        return [p.local(["o"], [p.table([("k", p.add("str", s=[118], name=True), p.num(5)), ("k", p.add("str", s=list(b"step"), name=True), p.func(["self", "n"], body))])]),
                p.emit([p.method(p.id("o"), "step", [p.num(depth)])])]
    mk(method_tail)

    def host_tail(p):
        body = p.block([p.if_([p.bin("==", p.id("n"), p.num(0))], [p.block([p.ret([p.call(p.id("gret"), [p.num(2), p.num(8), p.num(9)])])])]),
                        p.ret([p.call(p.id("loop"), [p.bin("-", p.id("n"), p.num(1))])])])
        return [p.localfunction("loop", p.func(["n"], body)), p.emit([p.call(p.id("loop"), [p.num(depth)])])]
    mk(host_tail)

    def varargs_tail(p):
        body = p.block([p.callstat(p.call(p.id("snap"), [p.num(2)])), p.if_([p.bin("==", p.id("n"), p.num(0))], [p.block([p.ret([p.call(p.id("select"), [p.str("#"), p.dots()]), p.dots()])])]),
                        p.ret([p.call(p.id("loop"), [p.bin("-", p.id("n"), p.num(1)), p.dots()])])])
        return [p.localfunction("loop", p.func(["n"], body, va=True, ud=True)), p.emit([p.call(p.id("loop"), [p.num(depth), p.num(1), p.num(2), p.num(3)])])]
    mk(varargs_tail)

    def in_coroutine(p):
        body = p.block([p.if_([p.bin("==", p.id("n"), p.num(0))], [p.block([p.ret([p.str("co-done")])])]),
                        p.ret([p.call(p.id("loop"), [p.bin("-", p.id("n"), p.num(1))])])])
        cb = p.block([p.ret([p.call(p.id("loop"), [p.num(depth)])])])
        return [p.localfunction("loop", p.func(["n"], body)),
                p.local(["co"], [p.call(p.field(p.id("coroutine"), "create"), [p.func([], cb)])]),
                p.emit([p.call(p.field(p.id("coroutine"), "resume"), [p.id("co")])])]
    mk(in_coroutine)

    def non_tail_control(p):      # the same depth WITHOUT a tail call must hit the limit: (f()) is not a tail call
        body = p.block([p.if_([p.bin("==", p.id("n"), p.num(0))], [p.block([p.ret([p.num(0)])])]),
                        p.ret([p.paren(p.call(p.id("loop"), [p.bin("-", p.id("n"), p.num(1))]))])])
        return [p.localfunction("loop", p.func(["n"], body)), p.emit([p.call(p.id("pcall"), [p.id("loop"), p.num(20)])])]
    mk(non_tail_control)
    return out


def minimal_callees():
    """callees whose body uses nothing but its parameters (no temporary above the last parameter),
    reached by ordinary calls, tail calls, pcall, methods, with too few / too many arguments"""
    out = []
    bodies = {
        "last2": (["a", "b"], False, lambda p: [p.ret([p.id("b")])]),
        "last3": (["a", "b", "c"], False, lambda p: [p.ret([p.id("c")])]),
        "last4": (["a", "b", "c", "d"], False, lambda p: [p.ret([p.id("d")])]),
        "both": (["a", "b"], False, lambda p: [p.ret([p.id("a"), p.id("b")])]),
        "rev3": (["a", "b", "c"], False, lambda p: [p.ret([p.id("c"), p.id("b"), p.id("a")])]),
        "cond": (["a", "b"], False, lambda p: [p.if_([p.bin("==", p.id("a"), p.id("b"))], [p.block([p.ret([p.id("a")])])]), p.ret([p.id("b")])]),
        "valast": (["a", "b"], True, lambda p: [p.ret([p.id("b")])]),
        "vadots": (["a", "b"], True, lambda p: [p.ret([p.dots()])]),
        "vaarg": (["a", "b"], True, lambda p: [p.ret([p.id("arg")])]),
        "one": (["a"], False, lambda p: [p.ret([p.id("a")])]),
        "none": (["a", "b"], False, lambda p: [p.ret([])]),
        "setlast": (["a", "b"], False, lambda p: [p.assign([p.id("glast")], [p.id("b")])]),
        "testlast": (["a", "b"], False, lambda p: [p.if_([p.id("b")], [p.block([p.ret([p.str("yes")])])]), p.ret([p.str("no")])]),
    }
    for bname, (ps, va, body) in bodies.items():
        for how in ("call", "tail", "tailva", "tailunpack", "pcall", "method", "tailmethod", "gcall", "cotail"):
            p = Prog()
            ud = va and bname != "vaarg"
            f = p.func(ps, p.block(body(p)), va=va, ud=ud)
            ss = [p.localfunction("f", f)]
            for nargs in (0, len(ps) - 1, len(ps), len(ps) + 2):
                args = lambda: [p.num(10 * (i + 1)) for i in range(nargs)]
                if how == "call":
                    ss.append(p.emit([p.str("r"), p.num(nargs), p.call(p.id("f"), args())]))
                elif how == "tail":
                    ss.append(p.emit([p.str("r"), p.num(nargs), p.call(p.paren(p.func([], p.block([p.ret([p.call(p.id("f"), args())])]))), [])]))
                elif how == "tailva":
                    ss.append(p.emit([p.str("r"), p.num(nargs), p.call(p.paren(p.func([], p.block([p.ret([p.call(p.id("f"), [p.dots()])])]), va=True, ud=True)), args())]))
                elif how == "tailunpack":
                    ss.append(p.emit([p.str("r"), p.num(nargs), p.call(p.paren(p.func(["t"], p.block([p.ret([p.call(p.id("f"), [p.call(p.id("unpack"), [p.id("t")])])])]))), [p.table([("p", a) for a in args()])])]))
                elif how == "pcall":
                    ss.append(p.emit([p.str("r"), p.num(nargs), p.call(p.id("pcall"), [p.id("f")] + args())]))
                elif how == "gcall":
                    ss.append(p.emit([p.str("r"), p.num(nargs), p.call(p.id("gcall"), [p.id("f")] + args())]))
                elif how in ("method", "tailmethod"):
                    if nargs == 0:
                        continue
                    if how == "method":
                        ss.append(p.emit([p.str("r"), p.num(nargs), p.method(p.table([("k", p.add("str", s=[109], name=True), p.id("f"))]), "m", args()[1:])]))
                    else:
                        ss.append(p.emit([p.str("r"), p.num(nargs), p.call(p.paren(p.func(["o"], p.block([p.ret([p.method(p.id("o"), "m", args()[1:])])]))),
                                                                            [p.table([("k", p.add("str", s=[109], name=True), p.id("f"))])])]))
                elif how == "cotail":
                    ss.append(p.emit([p.str("r"), p.num(nargs), p.call(p.field(p.id("coroutine"), "resume"),
                                                                       [p.call(p.field(p.id("coroutine"), "create"), [p.func([], p.block([p.ret([p.call(p.id("f"), args())])]))])])]))
            if bname == "setlast":
                ss.append(p.emit([p.str("glast"), p.id("glast")]))
            out.append((p, p.block(ss)))
    return out


def select_cases():
    """select(n, ...) for every n from below -count to beyond count+1, and '#', in every all-results context"""
    out = []
    for count in range(0, 4):
        p = Prog()
        vals = lambda: [p.str("v%d" % (i + 1)) for i in range(count)]
        ss = []
        for n in list(range(-count - 2, count + 5)) + ["#"]:
            narg = p.str("#") if n == "#" else p.num(n)
            sel = lambda: p.call(p.id("select"), [narg] + vals())
            fn = p.func([], p.block([p.ret([sel()])]))
            fnva = p.func([], p.block([p.ret([p.call(p.id("select"), [narg, p.dots()])])]), va=True, ud=True)
            asg = p.func([], p.block([p.local(["a", "b"], [sel()]), p.ret([p.id("a"), p.id("b")])]))
            ss.append(p.emit([p.str("arg"), p.num(n) if n != "#" else p.str("#"), p.call(p.id("pcall"), [fn])]))
            ss.append(p.emit([p.str("va"), p.call(p.id("pcall"), [fnva] + vals())]))
            ss.append(p.emit([p.str("count"), p.call(p.id("pcall"), [p.func([], p.block([p.ret([p.call(p.id("select"), [p.str("#"), sel()])])]))])]))
            ss.append(p.emit([p.str("tab"), p.call(p.id("pcall"), [p.func([], p.block([p.ret([p.un("#", p.table([("p", sel())]))])]))])]))
            ss.append(p.emit([p.str("asg"), p.call(p.id("pcall"), [asg])]))
        out.append((p, p.block(ss)))
    return out


def vararg_after_call_cases():
    """a fixed number of values taken from '...' right after a call has returned (the call lowers the register top;
    the values must still be readable by whatever comes next), callee Lua or host, vararg or not"""
    out = []
    callees = {"lua": lambda p: p.func([], p.block([p.ret([p.num(5)])])), "luava": lambda p: p.func([], p.block([p.ret([p.dots()])]), va=True, ud=True),
               "none": lambda p: p.func([], p.block([p.ret([])]))}
    shapes = ["local_then_return", "two_locals", "ret_list", "arg_list", "arg_list_paren", "assign_existing", "after_stmt_call", "in_table", "cond"]
    for ck, sh, nva in itertools.product(list(callees) + ["host"], shapes, [0, 1, 3]):
        p = Prog()
        ss = []
        if ck == "host":
            g = lambda: p.call(p.id("gret"), [p.num(1), p.num(5)])
        else:
            ss.append(p.localfunction("g", callees[ck](p)))
            g = lambda: p.call(p.id("g"), [p.num(8), p.num(9)])
        if sh == "local_then_return":
            body = [p.local(["x"], [g()]), p.local(["a"], [p.dots()]), p.ret([p.id("a"), p.id("x")])]
        elif sh == "two_locals":
            body = [p.local(["x"], [g()]), p.local(["a", "b"], [p.dots()]), p.ret([p.id("b"), p.id("a"), p.id("x")])]
        elif sh == "ret_list":
            body = [p.local(["x"], [g()]), p.ret([p.id("x"), p.paren(p.dots())])]
        elif sh == "arg_list":
            body = [p.ret([p.call(p.id("select"), [p.num(2), g(), p.paren(p.dots())])])]
        elif sh == "arg_list_paren":
            body = [p.ret([p.call(p.id("gret"), [p.num(3), p.paren(g()), p.paren(p.dots()), p.num(7)])])]
        elif sh == "assign_existing":
            body = [p.local(["a", "b", "c"], [p.num(1), p.num(2), p.num(3)]), p.callstat(g()), p.assign([p.id("b")], [p.dots()]), p.ret([p.id("a"), p.id("b"), p.id("c")])]
        elif sh == "after_stmt_call":
            body = [p.callstat(g()), p.local(["a"], [p.dots()]), p.emit([p.str("in"), p.id("a")]), p.ret([p.id("a")])]
        elif sh == "in_table":
            body = [p.local(["x"], [g()]), p.local(["t"], [p.table([("p", p.paren(p.dots())), ("p", p.id("x"))])]), p.ret([p.index(p.id("t"), p.num(1)), p.index(p.id("t"), p.num(2))])]
        else:
            body = [p.local(["x"], [g()]), p.if_([p.paren(p.dots())], [p.block([p.ret([p.str("truthy"), p.id("x")])])]), p.ret([p.str("falsy"), p.id("x")])]
        ss.append(p.localfunction("f", p.func([], p.block(body), va=True, ud=True)))
        ss.append(p.emit([p.str("r"), p.call(p.id("f"), [p.num(10 + i) for i in range(nva)])]))
        ss.append(p.emit([p.str("p"), p.call(p.id("pcall"), [p.id("f")] + [p.num(20 + i) for i in range(nva)])]))
        out.append((p, p.block(ss)))
    return out


def short_return_cases():
    """a callee that returns the first k of its m live locals (the registers above the last returned value hold live
    values) to callers that want k+1 .. k+3 values in every kind of context: the missing ones are nil"""
    out = []
    for m in (1, 2, 3, 5):
        for k in range(0, m + 1):
            for how in ("locals", "params", "varargs-then-locals"):
                p = Prog()
                names = ["a%d" % i for i in range(1, m + 1)]
                if how == "locals":
                    f = p.func([], p.block([p.local(names, [p.num(10 * i) for i in range(1, m + 1)]), p.ret([p.id(n) for n in names[:k]])]))
                    args = lambda: []
                elif how == "params":
                    f = p.func(names, p.block([p.ret([p.id(n) for n in names[:k]])]))
                    args = lambda: [p.num(10 * i) for i in range(1, m + 1)]
                else:
                    f = p.func([], p.block([p.local(names, [p.dots()]), p.local(["live"], [p.str("live")]), p.ret([p.id(n) for n in names[:k]])]), va=True, ud=True)
                    args = lambda: [p.num(10 * i) for i in range(1, m + 1)]
                call = lambda: p.call(p.id("f"), args())
                ss = [p.localfunction("f", f), p.local(["t"], [p.table([])])]
                for want in (k + 1, k + 2, k + 3):
                    xs = ["x%d" % i for i in range(1, want + 1)]
                    ss.append(p.do(p.block([p.local(xs, [call()]), p.emit([p.str("local"), p.num(want)] + [p.id(x) for x in xs])])))
                    ss.append(p.do(p.block([p.local(xs, [p.str("old")] * want), p.assign([p.id(x) for x in xs], [call()]), p.emit([p.str("assign"), p.num(want)] + [p.id(x) for x in xs])])))
                    ss.append(p.assign([p.field(p.id("t"), x) for x in xs], [call()]))
                    ss.append(p.emit([p.str("fields"), p.num(want)] + [p.field(p.id("t"), x) for x in xs]))
                    ss.append(p.do(p.block([p.local(["first"] + xs, [p.str("first"), call()]), p.emit([p.str("after-first"), p.num(want)] + [p.id(x) for x in xs])])))
                ss.append(p.emit([p.str("open"), call()]))
                ss.append(p.emit([p.str("count"), p.call(p.id("select"), [p.str("#"), call()])]))
                ss.append(p.emit([p.str("paren"), p.paren(call()), p.str("end")]))
                ss.append(p.local(["c1", "c2"], [p.table([("p", call())]), p.table([("p", call()), ("p", p.str("z"))])]))
                ss.append(p.emit([p.str("ctor")] + [p.index(p.id("c1"), p.num(i)) for i in range(1, m + 2)] + [p.str("|")] + [p.index(p.id("c2"), p.num(i)) for i in range(1, 4)]))
                ss.append(p.localfunction("g", p.func(["p1", "p2", "p3"], p.block([p.ret([p.id("p1"), p.id("p2"), p.id("p3")])]))))
                ss.append(p.emit([p.str("as-args"), p.call(p.id("g"), [call()]), p.str("|"), p.call(p.id("g"), [p.str("h"), call()])]))
                ss.append(p.localfunction("tail", p.func([], p.block([p.ret([call()])]))))
                ss.append(p.do(p.block([p.local(["y1", "y2", "y3", "y4", "y5", "y6", "y7"], [p.call(p.id("tail"), [])]),
                                        p.emit([p.str("through-tail")] + [p.id("y%d" % i) for i in range(1, 8)])])))
                out.append((p, p.block(ss)))
    return out


def xpcall_surplus_cases():
    """xpcall(f, handler, surplus...): Lua 5.1 drops everything behind the handler (f is called without arguments); the
    caller gets true and exactly f's results, or false and the handler's first result"""
    out = []
    for nsur, open_ in itertools.product((0, 1, 3), ("no", "call0", "call2", "dots")):
        for fails in (False, True):
            p = Prog()
            body = [p.emit([p.str("f got"), p.call(p.id("select"), [p.str("#"), p.dots()]), p.dots()])]
            body.append(p.callstat(p.call(p.id("error"), [p.table([])])) if fails else p.ret([p.str("r1"), p.str("r2")]))
            if fails:
                body = body[:1] + [p.callstat(p.call(p.id("error"), [p.str("boom"), p.num(0)]))]
            ss = [p.localfunction("f", p.func([], p.block(body), va=True, ud=True)),
                  p.localfunction("h", p.func(["m"], p.block([p.emit([p.str("h got"), p.id("m"), p.call(p.id("select"), [p.str("#"), p.dots()])]), p.ret([p.str("handled"), p.str("second")])]), va=True, ud=True)),
                  p.localfunction("none", p.func([], p.block([]))),
                  p.localfunction("two", p.func([], p.block([p.ret([p.str("t1"), p.str("t2")])])))]
            extra = [p.str("s%d" % i) for i in range(nsur)]
            if open_ == "call0":
                extra.append(p.call(p.id("none"), []))
            elif open_ == "call2":
                extra.append(p.call(p.id("two"), []))
            call = lambda ex: p.call(p.id("xpcall"), [p.id("f"), p.id("h")] + ex)
            if open_ == "dots":
                w = p.func([], p.block([p.ret([call(extra + [p.dots()])])]), va=True, ud=True)
                ss.append(p.emit([p.str("result"), p.call(p.paren(w), [p.str("v1"), p.str("v2")])]))
                ss.append(p.emit([p.str("result-empty"), p.call(p.paren(w), [])]))
            else:
                ss.append(p.emit([p.str("result"), call(extra)]))
            ss.append(p.emit([p.str("count"), p.call(p.id("select"), [p.str("#"), call([p.str("s%d" % i) for i in range(nsur)])])]))
            out.append((p, p.block(ss)))
    return out
