"""Lua programs of the C12 configuration sweep (sources only; nothing here
judges).  Probe programs recurse / pass values until the limit error, catch it
and report the deepest level reached; sweep programs are meant to stay within
the limits of most configurations."""


def follow(m):
    """follow-up computation in the same state; LuaLimitsTrace computes the
    expected values (sum of squares 1..m, "a-b-c", m, m)."""
    return """
do
  local t2 = {} for i = 1, %d do t2[i] = i * i end
  local s = 0 for i, v in ipairs(t2) do s = s + v end
  emit("after", s, table.concat({"a", "b", "c"}, "-"), #t2, select("#", unpack(t2)))
end
""" % m


REC_TEMPLATE = """
local n, lim = 0, 1e9
local deep
%(defs)s
local res = {}
for round = 1, 2 do              -- one call site: both rounds use the same registers
  n = 0
  local ok, e = %(call)s
  res[round] = {ok, type(e), n}
  if round == 1 then
    if n == 0 then break end
    lim = n
  end
end
emit("probe", res[1][1], res[1][2], res[1][3])
if res[2] then emit("again", res[2][1], res[2][3]) else emit("again", true, 0) end
%(follow)s
"""

# name -> (defs, call, B, F, amin, amax, cmax)   level k needs B + F*k frames
REC_SHAPES = {
    "plain": ("deep = function(k) n = k; if k >= lim then return 0 end; return 1 + deep(k + 1) end",
              "pcall(deep, 1)", 2, 1, 1, 12, 60),
    "pcall-per-level": ("""deep = function(k) n = k; if k >= lim then return 0 end
  local ok, v = pcall(deep, k + 1); if not ok then error(v, 0) end; return v + 1 end""",
                        "pcall(deep, 1)", 1, 2, 1, 16, 60),
    "hostpcall-per-level": ("""deep = function(k) n = k; if k >= lim then return 0 end
  local ok, v = hostpcall(deep, k + 1); if not ok then error(v, 0) end; return v + 1 end""",
                            "pcall(deep, 1)", 1, 2, 1, 16, 60),
    "index-metamethod": ("""local mt = {}
mt.__index = function(t, k) n = k; if k >= lim then return 0 end; return 1 + t[k + 1] end
local tt = setmetatable({}, mt)
deep = function(k) return 1 + tt[k] end""", "pcall(deep, 1)", 3, 1, 1, 12, 60),
    "call-metamethod": ("""local obj = setmetatable({}, {__call = function(self, k) n = k; if k >= lim then return 0 end; return 1 + self(k + 1) end})
deep = function(k) return 1 + obj(k) end""", "pcall(deep, 1)", 3, 1, 1, 12, 60),
    "vararg": ("deep = function(k, ...) n = k; if k >= lim then return 0 end; return 1 + deep(k + 1, ...) end",
               'pcall(deep, 1, "a", "b", "c")', 2, 1, 1, 20, 60),
    "gsub-callback": ("""deep = function(k) n = k; if k >= lim then return 0 end
  local r; string.gsub("x", "x", function() r = deep(k + 1) end); return r + 1 end""",
                      "pcall(deep, 1)", 0, 3, 1, 30, 60),
    "xpcall-handler": ("deep = function(k) n = k; if k >= lim then return 0 end; return 1 + deep(k + 1) end",
                       'xpcall(function() return 1 + deep(1) end, function(m) return "H:" .. tostring(m) end)', 3, 1, 1, 12, 60),
    # every level tail-calls into a frame that needs many registers: the overflow is raised while OP_TAILCALL
    # sets up the reused frame
    "tail-into-wide-frame": ("local wide = function(k) local " + ", ".join("b%d" % i for i in range(1, 61)) +
                             " = k\n  n = k; if k >= lim then return 0 end; return 1 + deep(k + 1) + (b60 or 0) end\n"
                             "deep = function(k) local t1, t2 = k, k; return wide(k) end",
                             "pcall(deep, 1)", 2, 1, 55, 80, 160),
    # every level runs in a new coroutine resumed by the previous one (nested resumes nest host calls)
    "nested-resume": ("""deep = function(k) n = k; if k >= lim or k >= 400 then return 0 end
  local co = coroutine.wrap(deep); return 1 + co(k + 1) end""", "pcall(deep, 1)", 2, 0, 0, 0, 0),
    "heavy-frames": ("deep = function(k) n = k; if k >= lim then return 0 end\n  local " +
                     ", ".join("a%d" % i for i in range(1, 61)) + " = k\n  return 1 + deep(k + 1) + (a60 or 0) end",
                     "pcall(deep, 1)", 2, 1, 55, 80, 160),
}


def rec_probe(shape, m, in_coroutine=False):
    defs, call, B, F, amin, amax, cmax = REC_SHAPES[shape]
    src = REC_TEMPLATE % {"defs": defs, "call": call, "follow": follow(m)}
    if in_coroutine:
        src = "coroutine.wrap(function()\n" + src + "\nend)()\n"
    return {"name": "rec:" + shape + (":coroutine" if in_coroutine else ""), "src": src, "B": B, "F": F, "B0": 2,
            "amin": amin, "amax": amax, "cmax": cmax, "fm": m, "stack": shape not in ("heavy-frames", "tail-into-wide-frame"),
            "nmax": 250 if shape == "nested-resume" else 0}


REG_TEMPLATE = """
local N = %(N)d
local t = {}
for i = 1, N do t[i] = 65 end
%(defs)s
local lo, hi = 0, N
local e
local checks = {}
local step, nfail = 0, 0
while true do                    -- binary search for the largest k that works, then re-checks
  local k, mode                  -- around the boundary; every attempt goes through ONE call site
  if step == 0 then k, mode = N, "top"
  elseif hi - lo > 1 then k, mode = math.floor((lo + hi) / 2), "search"
  elseif #checks < 5 then k, mode = lo + ({0, -1, 1, 2, 0})[#checks + 1], "check"
  else break end
  step = step + 1
  local good = true
  if k >= 0 then
    local s, v = %(attempt)s
    good = s and v == k
    if not good then nfail = nfail + 1 end
    if not s and e == nil then e = v end
  end
  if mode == "top" then if good then lo = N end
  elseif mode == "search" then if good then lo = k else hi = k end
  else checks[#checks + 1] = good end
end
local n = lo
local mono = checks[1] and checks[2] %(upper)s
emit("probe", not mono, type(e), n, nfail)
emit("again", checks[5], n)
%(follow)s
"""

# name -> (defs of try(k), amin, amax)     k values need a*k + c registers
REG_SHAPES = {
    "unpack-select": ('local function try(k) return select("#", unpack(t, 1, k)) end', 1, 1),
    "vararg-call": ('local function va(...) return select("#", ...) end\nlocal function try(k) return va(unpack(t, 1, k)) end', 1, 3),
    "table-constructor": ("local function try(k) local x = {unpack(t, 1, k)}; return #x end", 1, 1),
    "multi-return": ("""local function r1(k) return unpack(t, 1, k) end
local function r2(k) return 0, r1(k) end
local function try(k) return select("#", r2(k)) - 1 end""", 1, 2),
    "coroutine-transfer": ("""local function try(k)
  local co = coroutine.wrap(function(...) return select("#", coroutine.yield(select("#", ...))) end)
  local a = co(unpack(t, 1, k)); local b = co(unpack(t, 1, k))
  if a ~= b then return -1 end
  return a
end""", 1, 3),
    "string-char": ("local function try(k) return #string.char(unpack(t, 1, k)) end", 1, 1),
    "pcall-passthrough": ("""local function try(k)
  local c = select("#", pcall(unpack, t, 1, k)) - 1
  if c ~= k then error("inner pcall failed", 0) end
  return c
end""", 1, 2),
}


def reg_probe(shape, m, in_coroutine=False, N=60000, fresh=False):
    d = reg_probe_(shape, m, in_coroutine, N, fresh)
    d["mk"] = lambda n: reg_probe_(shape, m, in_coroutine, n, fresh)["src"]
    return d


def reg_probe_(shape, m, in_coroutine=False, N=60000, fresh=False):
    """fresh: every attempt runs in a fresh coroutine (its own register file
    with the inherited options): exact, history-free thresholds.  Otherwise
    all attempts share the thread's register file, whose capacity raiseError
    extends by one slot per overflow error raised on a full register file
    (state.go raiseError: forceResize(Top()+1)); the number of failed attempts
    is reported as slack."""
    defs, amin, amax = REG_SHAPES[shape]
    src = REG_TEMPLATE % {"N": N, "defs": defs, "follow": follow(m),
                          "attempt": "pcall(coroutine.wrap(function() return try(k) end))" if fresh else "pcall(try, k)",
                          "upper": "and not checks[3] and not checks[4]" if fresh else ""}
    if in_coroutine:
        src = "coroutine.wrap(function()\n" + src + "\nend)()\n"
    return {"name": "reg:" + shape + (":fresh-thread" if fresh else "") + (":coroutine" if in_coroutine else ""), "src": src, "fresh": fresh, "B": 2, "F": 0, "B0": 2,
            "amin": amin, "amax": amax, "cmax": 64, "fm": m, "stack": False}


# ---- sweep corpus (own programs) ---------------------------------------------------

OVERFLOW_PREFIX_NAMES = ["deep-recursion", "unpack", "huge-arglist", "coroutine-deep-recursion", "xpcall-deep-recursion"]
OVERFLOW_PREFIXES = [
    # deep non-tail recursion until the limit error, caught
    'do local function deep(k) return 1 + deep(k + 1) end\n   local ok, e = pcall(deep, 1); emit("pre", ok, type(e)) end\n',
    # unpack of far too many values, caught
    'do local ok, e = pcall(unpack, {}, 1, 100000); emit("pre", ok, type(e)) end\n',
    # huge argument list to a vararg function, caught
    'do local function va(...) return select("#", ...) end\n   local ok, e = pcall(function() return va(unpack({}, 1, 100000)) end); emit("pre", ok, type(e)) end\n',
    # overflow inside a coroutine, observed by resume
    'do local co = coroutine.create(function() local function deep(k) return 1 + deep(k + 1) end return deep(1) end)\n'
    '   local ok, e = coroutine.resume(co); emit("pre", ok, type(e), coroutine.status(co)) end\n',
    # overflow under xpcall with a handler, closures captured before the error
    'do local x = 41; local function get() return x end\n'
    '   local function deep(k) local y = k; local function g() return y end; return 1 + deep(k + 1) + g() end\n'
    '   local ok, e = xpcall(function() return deep(1) end, function(m) return type(m) end); x = x + 1; emit("pre", ok, type(e), get()) end\n',
]

OWN_SWEEP = {
    "tail-loop": """
local function loop(k, acc) if k == 0 then return acc end; return loop(k - 1, acc + k) end
emit(loop(20000, 0))
local odd
local function even(k) if k == 0 then return true end; return odd(k - 1) end
odd = function(k) if k == 0 then return false end; return even(k - 1) end
emit(even(10001), odd(7))
emit(pcall(loop, 3000, 1))
""",
    "string-building": """
local s = "" for i = 1, 200 do s = s .. string.char(65 + i % 26) end
emit(#s, s:sub(1, 10), s:rep(3):len())
local parts = {} for i = 1, 300 do parts[#parts + 1] = string.format("%d:%s", i, ("x"):rep(i % 7)) end
local j = table.concat(parts, ",") emit(#j, j:sub(-12))
local a, b, c, d, e2, f, g, h = "a", "b", "c", "d", "e", "f", "g", "h"
emit(a .. b .. c .. d .. e2 .. f .. g .. h .. a .. b .. c .. d .. 1 .. 2)
local u = {} for w in ("the quick brown fox jumps"):gmatch("%a+") do u[#u + 1] = w:upper() end
emit(table.concat(u, "+"), ("%5.1f|%-4d|%s"):format(3.25, 7, "z"))
""",
    "moderate-unpack": """
local t = {} for i = 1, 100 do t[i] = i end
emit(select("#", unpack(t)), (select(100, unpack(t))), math.max(unpack(t)))
local function va(...) local a, b = ...; return select("#", ...), a, b, (select(-1, ...)) end
emit(va(unpack(t, 1, 90)))
local x = {unpack(t, 10, 70)} emit(#x, x[1], x[61])
emit(pcall(string.char, unpack(t, 65, 90)))
""",
    "uncaught-deep-recursion": """
emit("before")
local function deep(k) return 1 + deep(k + 1) end
emit(deep(1))
""",
    "bounded-recursion": """
local function rec(d) if d == 0 then return 0 end; return 1 + rec(d - 1) end
for _, d in ipairs({3, 4, 5, 6, 7, 8, 12, 13, 14, 15, 16, 30, 61, 62, 63, 64, 100}) do
  local ok, v = pcall(rec, d)
  emit(d, ok, ok and v or type(v))
end
""",
    "hostpcall-nonfunction": """
local function rec(d) if d == 0 then return hostpcall(nil) end; return (rec(d - 1)) end
for d = 0, 30 do
  local a, b, c = pcall(rec, d)
  emit(d, a, b, type(c))
end
emit("after", 1 + 1)
""",
    "hostpcall-mixed": """
local function boom() error("x", 0) end
local function fine(a) return a + 1 end
local function rec(d, f) if d == 0 then return hostpcall(f, 1) end; return (rec(d - 1, f)) end
for d = 0, 20 do
  emit(d, pcall(rec, d, fine))
  emit(d, pcall(rec, d, boom))
end
""",
    "coroutine-nest": """
local function gen(k)
  return coroutine.wrap(function()
    if k == 0 then for i = 1, 3 do coroutine.yield(i) end return end
    local inner = gen(k - 1)
    for v in inner do coroutine.yield(v + k) end
  end)
end
local acc = {} for v in gen(6) do acc[#acc + 1] = v end
emit(table.concat(acc, ","))
local co = coroutine.create(function(a) local b = coroutine.yield(a + 1); local ok, e = pcall(function() local c = coroutine.yield(b * 2); error("E" .. c, 0) end); return ok, e end)
emit(coroutine.resume(co, 1)) emit(coroutine.resume(co, 5)) emit(coroutine.resume(co, 9)) emit(coroutine.resume(co))
""",
    "error-loop": """
local cl = {}
for i = 1, 40 do
  local x = i
  local ok, e = pcall(function(d) local y = x * 2; cl[#cl + 1] = function() return x + y end; if i % 3 == 0 then error({i}) end; return y end, i)
  if i % 10 == 0 then emit(i, ok, type(e)) end
end
local s = 0 for _, f in ipairs(cl) do s = s + f() end
emit(s)
emit(xpcall(function() local z = nil; return z.field end, function(m) return "H" end))
emit(select("#", pcall(error)))
""",
}


# ---- coroutine value transfers that overflow the RECEIVING register file ------------
# (scenario scripts of specs/LuaCoTransferTrace.tla; K = length of the long list,
#  D = recursion depth that fills the receiver's register file, 22 registers a level)

CO_LOCALS = ", ".join("l%d" % i for i in range(1, 21))

CO_PRELUDE = """
local K, D = %(K)d, %(D)d
local big = {} for i = 1, K do big[i] = i end
local me = coroutine.running()
local co
local function report(nin, a1, a2, r)       -- r = {pcall(...)} of the attempt, sampled right after it
  emit("ev", nin, tostring(a1), tostring(a2), coroutine.status(co), coroutine.running() == me,
       #r, tostring(r[1]), tostring(r[2]), tostring(r[3]), tostring(r[4]), tostring(r[5]), type(r[2]), type(r[3]))
end
local function deep(k, f)                   -- run f at recursion depth k (fills this thread's registers)
  local %(LOC)s = k
  if k == 0 then local r = f(); return r, l20 end     -- (not a tail call: the frame keeps its registers)
  local a = deep(k - 1, f)
  return a, l20
end
"""

CO_EPILOGUE = """
emit("fresh", coroutine.resume(coroutine.create(function(a) return "fresh", a + 1 end), 8))
%(follow)s
"""

# resume(...) stands for coroutine.resume(co, ...) or the wrap function
CO_SCENARIOS = {
    # a suspended coroutine that has recursed deeply is resumed with a long argument list
    "echo": ("""
local body = function(a)
  co = co or coroutine.running()
  local x, y = deep(D, function() return {coroutine.yield("ready", a)} end)
  x, y = x[1], x[2]
  return "done", x, y
end
%(make)s
report(1, 7, nil, {pcall(%(resume)s 7)})
report(K, 1, 2, {pcall(%(resume)s unpack(big, 1, K))})
if coroutine.status(co) ~= "dead" then report(2, 11, 22, {pcall(%(resume)s 11, 22)}) end
""", 3),
    # the FIRST resume of a fresh coroutine with more arguments than its register file takes
    "vararg": ("""
local body = function(...)                 -- a vararg frame keeps the K arguments AND needs %(NL)d more registers
  local %(WIDE)s
  local x = coroutine.yield("got")
  return "done", x, (w1 == nil)
end
%(make)s
local r = {pcall(%(resume)s unpack(big, 1, K))}
report(K, 1, 2, r)
if not (r[1] and r[2] == true) then report(2, 1, 2, {pcall(%(resume)s 1, 2)}) end
report(1, 5, nil, {pcall(%(resume)s 5)})
""", 3),
    # a coroutine yields a long list to a resumer whose register file is nearly full
    "yieldbig": ("""
local v = 5
local function get() return v end
local body = function(a)
  co = co or coroutine.running()
  local x = coroutine.yield(unpack(big, 1, K))
  v = v + 1
  return "cdone", x, get()
end
%(make)s
deep(D, function() report(1, 7, nil, {pcall(%(resume)s 7)}) return 0 end)
report(1, 33, nil, {pcall(%(resume)s 33)})
""", 2),
    # a coroutine returns a long list to a resumer whose register file is nearly full
    "returnbig": ("""
local body = function(a)
  co = co or coroutine.running()
  return unpack(big, 1, K)
end
%(make)s
deep(D, function() report(1, 7, nil, {pcall(%(resume)s 7)}) return 0 end)
""", 1),
}


def co_scenario(scen, via, K, D, m, nested=False, NL=60):
    body, nev = CO_SCENARIOS[scen]
    if via == "resume":
        make, resume = "co = coroutine.create(body)", "coroutine.resume, co,"
    else:
        make, resume = "local wf = coroutine.wrap(body)", "wf,"
    src = CO_PRELUDE % {"K": K, "D": D, "LOC": CO_LOCALS} + body % {"make": make, "resume": resume, "NL": NL, "WIDE": ", ".join("w%d" % i for i in range(1, NL + 1))} + \
        CO_EPILOGUE % {"follow": follow(m)}
    src = src.replace(", )", ")")
    if nested:
        src = "coroutine.wrap(function()\n" + src + "\nend)()\n"
    return {"scen": scen, "via": via, "nested": nested, "src": src, "nev": nev, "K": K, "D": D, "fm": m}


# ---- coroutines that outlive the coroutine that created them -------------------------
# created at nesting depth 1..3 by coroutine.create / coroutine.wrap, handed out, the creator
# finishes / dies with an error / stays suspended, then they are resumed from the main chunk.
# Nothing here depends on a limit: the trace must be the same under every option tuple,
# with or without an (undone) context attached.

ORPHAN_TEMPLATE = """
local handed = {}
local function inner_body(a)
  local b = coroutine.yield(a + 1)
  local c = coroutine.yield(b * 2)
  return "end", c
end
local function gen_body()
  for i = 1, 3 do coroutine.yield(i * i) end
  return "gen done"
end
local function level(d)
  if d < %(depth)d then
    local nxt = coroutine.%(maker)s(function() return level(d + 1) end)
    %(drive)s
    return "passed", d
  end
  -- the creator at depth %(depth)d: one started coroutine, one never started, one generator
  local started = coroutine.create(inner_body)
  emit("in", d, coroutine.resume(started, 1))
  handed.started = started
  handed.fresh = coroutine.create(inner_body)
  handed.gen = coroutine.wrap(gen_body)
  emit("in", d, handed.gen())
  %(fate)s
end
local top = coroutine.create(function() return level(1) end)
emit("top", coroutine.resume(top))
emit("top-status", coroutine.status(top))
-- the creator chain is finished / dead / suspended: its children must go on working
emit("started", coroutine.resume(handed.started, 10))
emit("started", coroutine.resume(handed.started, 7))
emit("started", coroutine.status(handed.started))
emit("fresh", coroutine.resume(handed.fresh, 4))
emit("fresh", coroutine.resume(handed.fresh, 5))
emit("fresh", coroutine.resume(handed.fresh, 6))
emit("gen", pcall(handed.gen))
emit("gen", pcall(handed.gen))
emit("gen", pcall(handed.gen))
-- a grandchild created by an orphan after its creator is gone
local late = coroutine.wrap(function()
  local g = coroutine.create(function(x) local y = coroutine.yield(x + 100); return y + 1 end)
  handed.late = g
  return coroutine.resume(g, 1)
end)
emit("late", late())
emit("late", coroutine.resume(handed.late, 41))
"""

ORPHAN_FATES = {
    "finished": 'return "creator done", d',
    "errored": 'error("creator failed at " .. d, 0)',
    "suspended": 'coroutine.yield("creator parked", d); return "never"',
}


def orphan_programs():
    out = {}
    for depth in (1, 2, 3):
        for maker in ("create", "wrap"):
            for fate, fsrc in sorted(ORPHAN_FATES.items()):
                if maker == "create":
                    drive = 'emit("drive", d, coroutine.resume(nxt))'
                else:
                    drive = 'emit("drive", d, pcall(nxt))'
                out["orphan-coroutine:d%d:%s:%s" % (depth, maker, fate)] = ORPHAN_TEMPLATE % {
                    "depth": depth, "maker": maker, "drive": drive, "fate": fsrc}
    return out
