"""G-big: adversarial source texts for property C07 (every compiled function is
well-formed bytecode).  Every case is (family, name, params) -> Lua source text,
deterministic, so that a replay file can name a case instead of carrying a
megabyte of text.  The texts only have to be ACCEPTED OR REJECTED by the
front-end; they are never executed.

Families
  stmtpos   every statement kind in first / middle / last position of every block kind
  shapes    compiler special cases read off compile.go (constant conditions, and/or
            chains, jump-to-jump, MOVE runs next to labels, repeat+closure, goto+closure)
  locals    150..260 locals / parameters and register pressure on top of them
  consts    > 256 and > 512 constants used in every operand position
  table     table constructors crossing FieldsPerFlush (50) and the extended SETLIST (C > 511)
  nest      deep nesting of blocks, loops, functions, expressions, calls, constructors
  longjump  loop / branch bodies approaching and exceeding the 18-bit jump range
  upvals    closures capturing many upvalues over several levels
  goto      goto / labels: forward, backward, continue, out of closures' scopes
  manylocals one declaration introduces 100..2000 locals (no initialisers / one call / '...' /
            generic for / parameter list): operand fields must not wrap
  manytargets one multiple assignment with 100..2000 targets fed by '...', a call, one value or N values
  constobj  constants in object / callee / operand positions, behind 0..260 other constants
  gotoclose a goto leaves a block whose local is captured by a closure created before and/or after
            the goto statement (block kind x goto form x preceding instruction x label position)
  closexpr  function expressions capturing 0..3 locals / upvalues, used directly in every expression
            position served by the operand-forwarding peepholes
  vararg    vararg functions with 0..8 named parameters whose body only reads the implicit 'arg'
            local (R(NumParameters)) or never touches it
"""
import random

# --------------------------------------------------------------------------
# stmtpos

PRELUDE = ("local a, b, c, d = 1, 2, 3, 4\nlocal t = {}\nlocal u, v = 5, 6\n"
           "local function outer(...)\nlocal a, b, c, d = ...\n")
POSTLUDE = "\nc = d\na = b\nend\nreturn outer\n"

# statement kinds that may stand anywhere in a block; %N is replaced by a unique number
STMTS = {
    "assign_local": "a = b",
    "assign_swap": "a, b = b, a",
    "assign_global": "g = a",
    "assign_from_global": "a = g",
    "assign_upval": "u = a",
    "assign_from_upval": "a = u",
    "assign_field": "t.x = a",
    "assign_index": "t[a] = b",
    "assign_from_field": "a = t.x",
    "assign_multi_mixed": "a, t.x, g = f()",
    "assign_logic": "a = b and c or d",
    "assign_logic_const": "a = b and false or nil",
    "assign_rel": "a = b < c",
    "assign_not": "a = not b",
    "assign_concat": "a = b .. c .. d",
    "assign_arith_k": "a = b + 1 - c * 2",
    "assign_table": "a = {b, c; x = d, f()}",
    "assign_closure": "a = function() return a, u end",
    "local_noinit": "local x%N",
    "local_init": "local x%N = a",
    "local_multi_call": "local x%N, y%N, z%N = f()",
    "local_multi_extra": "local x%N, y%N = a, b, c",
    "local_varargs": "local x%N, y%N = ...",
    "local_table_varargs": "local x%N = {...}",
    "call": "f(a, b)",
    "call_varargs": "f(a, ...)",
    "call_nested": "f(g(a), g())",
    "method": "t:m(a)",
    "method_multi": "t:m(f())",
    "do": "do local x%N = a; b = x%N end",
    "do_closure": "do local x%N = a; g = function() return x%N end end",
    "while": "while a do b = c end",
    "while_break": "while a do if b then break end c = d end",
    "while_closure_break": "while a do local x%N = b; g = function() return x%N end; if c then break end end",
    "while_false": "while false do a = b end",
    "while_true": "while true do if a then break end end",
    "repeat": "repeat local x%N = a; b = x%N until x%N",
    "repeat_closure": "repeat local x%N = a; g = function() return x%N end until x%N",
    "repeat_whilefalse": "repeat while false do end a = a + 1 until a > 3",
    "if": "if a then b = c end",
    "if_else": "if a then b = c else c = d end",
    "if_elseif": "if a then b = c elseif b then c = d else d = a end",
    "if_false": "if false then a = b end",
    "if_nil_else": "if nil then a = b else c = d end",
    "if_true": "if true then a = b end",
    "if_not": "if not a then b = c end",
    "if_andor": "if a and b or c then d = a end",
    "if_rel": "if a < b then c = d end",
    "if_rel_and": "if a < b and c == 1 then c = d end",
    "if_empty": "if a then end",
    "numfor": "for i = 1, 3 do a = b end",
    "numfor_empty": "for i = 1, 3 do end",
    "numfor_step": "for i = a, b, c do d = i end",
    "numfor_closure": "for i = 1, 3 do g = function() return i end end",
    "genfor": "for k, w in pairs(t) do a = b end",
    "genfor1_empty": "for k in pairs(t) do end",
    "genfor3": "for k, w, z in f() do a = k end",
    "genfor_closure": "for k, w in pairs(t) do g = function() return k end end",
    "funcdef_global": "function g%N(x) return x end",
    "funcdef_field": "function t.f%N(x) return x end",
    "funcdef_method": "function t:m%N(x) return self, x end",
    "local_function": "local function lf%N(x) return lf%N, x, a end",
    "label_back": "::L%N:: a = b\nif a then goto L%N end",
    "goto_fwd": "do goto L%N; a = b; ::L%N:: end",
    "goto_continue": "for i = 1, 3 do if a then goto L%N end b = c ::L%N:: end",
    "goto_out_of_closure_scope": "do local x%N = a; g = function() return x%N end; if b then goto L%N end end ::L%N::",
}
# statement kinds that must end a block
LAST = {
    "return": "return", "return_local": "return a", "return_two": "return a, b",
    "return_tail": "return f()", "return_call_first": "return f(), a", "return_call_last": "return a, f()",
    "return_varargs": "return ...", "return_val_varargs": "return a, ...", "return_paren_call": "return (f())",
    "return_method": "return t:m()", "return_logic": "return a and b", "return_table_call": "return {f()}",
    "return_closure": "return function() return a end",
}
LOOP_LAST = {"break": "break"}
FILL = ["a = b", "c = d", "g = 1", "local z%N = a", "d = a"]

BLOCKS = {
    "chunk": ("", "", False),
    "do": ("do\n", "\nend", False),
    "while": ("while a do\n", "\nend", True),
    "repeat": ("repeat\n", "\nuntil a", True),
    "ifthen": ("if a then\n", "\nend", False),
    "ifelse": ("if a then b = c else\n", "\nend", False),
    "elseif": ("if a then b = c elseif b then\n", "\nelse c = d end", False),
    "numfor": ("for i = 1, 3 do\n", "\nend", True),
    "genfor": ("for k, w in pairs(t) do\n", "\nend", True),
    "func": ("local function fn%N(...)\n", "\nend", False),
    "while_in_closure_scope": ("while a do local q%N = a; g = function() return q%N end\n", "\nend", True),
}


class _Uniq:
    def __init__(self):
        self.n = 0

    def sub(self, s):
        self.n += 1
        return s.replace("%N", str(self.n))


def stmtpos_source(block, kind, pos, fill=(0, 1)):
    u = _Uniq()
    pre, post, isloop = BLOCKS[block]
    st = STMTS.get(kind) or LAST.get(kind) or LOOP_LAST[kind]
    f1, f2 = u.sub(FILL[fill[0] % len(FILL)]), u.sub(FILL[fill[1] % len(FILL)])
    s = u.sub(st)
    body = {"first": [s, f1, f2], "middle": [f1, s, f2], "last": [f1, f2, s]}[pos]
    tail = POSTLUDE
    if block == "chunk" and kind not in STMTS:
        tail = "\nend\nreturn outer\n"      # a return must stay the last statement of the function body
    return PRELUDE + u.sub(pre) + "\n".join(body) + u.sub(post) + tail


def stmtpos_cases(rng, full):
    out = []
    for block, (_, _, isloop) in BLOCKS.items():
        for kind in STMTS:
            for pos in ("first", "middle", "last"):
                out.append(("stmtpos", "%s/%s/%s" % (block, kind, pos), {"block": block, "kind": kind, "pos": pos,
                            "fill": [rng.randrange(5), rng.randrange(5)]}))
        last = dict(LAST)
        if isloop:
            last.update(LOOP_LAST)
        for kind in last:
            out.append(("stmtpos", "%s/%s/last" % (block, kind), {"block": block, "kind": kind, "pos": "last",
                        "fill": [rng.randrange(5), rng.randrange(5)]}))
    if not full:
        # quick tier: every (block, kind) once, position rotating
        keep = []
        seen = {}
        rng.shuffle(out)
        for c in out:
            k = (c[2]["block"], c[2]["kind"])
            if k not in seen:
                seen[k] = 1
                keep.append(c)
        out = sorted(keep, key=lambda c: c[1])
    return out


# --------------------------------------------------------------------------
# shapes: special cases of compile.go

SHAPES = [
    # MOVE runs (merged into MOVEN by patchCode) next to every kind of label
    "local a,b,c,d,x if x then a=b end c=d a=c",
    "local a,b,c,d,x if x then a=b else c=d end a=c b=d",
    "local a,b,c,d,x while x do a=b c=d end a=c b=d",
    "local a,b,c,d,x repeat a=b c=d until x a=c b=d",
    "local a,b,c,d,x for i=1,3 do a=b c=d end a=c b=d",
    "local a,b,c,d,x for k in pairs(x) do a=b c=d end a=c b=d",
    "local a,b,c,d,x a=b ::l1:: c=d a=c if x then goto l1 end",
    "local a,b,c,d,x a=b c=d goto l2 a=c b=d ::l2:: a=d b=c",
    "local a,b,c,d,x a = x and b  c=d a=c",
    "local a,b,c,d,x a = x or b  c=d a=c",
    "local a,b,c,d,x a=b c=d local f = function() return a end b=a d=c",
    "local a,b,c,d,x local f = function() return a, b, c end  a=b c=d",
    "local a,b,c,d,x a=b c=d x = {1,2,3} a=c b=d",
    "local a,b,c,d,x a,b,c,d = b,c,d,a",
    "local a,b,c,d = 1,2,3,4 local e,f,g,h = a,b,c,d",
    # constant conditions and jump-to-jump chains
    "local x = 0 if x then x = 0 end repeat while false do end x = x + 1 until x > 3",
    "local x repeat break until x",
    "local x repeat if x then break end until x",
    "local x while false do x = 1 end while nil do x = 2 end while true do break end while 1 do break end",
    "local x while x do while false do end end",
    "local x while x do if x then break end while false do end end",
    "local x if false then x = 1 elseif nil then x = 2 elseif true then x = 3 else x = 4 end",
    "local x if x then else end if x then elseif x then end",
    "local x if not x then x = 1 end if not (not x) then x = 2 end if not false then x = 3 end",
    "local x, y if x and y then x = 1 end if x or y then x = 2 end if (x or y) and (y or x) then x = 3 end",
    "local x, y if x and false then x = 1 end if nil or y then x = 2 end if true and 1 and 'a' then x = 3 end",
    "local x, y if not (x and y) then x = 1 end if not (x or not y) then x = 2 end",
    "local x, y if x < y and y <= x or x == y and x ~= y then x = 1 end",
    "local x while x do if x then goto c end x = 1 ::c:: end",
    "for i = 1, 2 do while false do end end",
    "for i = 1, 2 do goto c ::c:: end",
    # and / or values
    "local a,b,c a = b and c  a = b or c  a = b and c or a  a = (b or c) and a",
    "local a,b,c a = b and false  a = b or true  a = nil or b  a = false and b  a = 1 and b  a = 'x' or b",
    "local a,b,c a = b and nil  a = b or 1  a = b or 'k'  a = true and false  a = nil and nil  a = nil or false",
    "local a,b,c a = b < c and b  a = b and b < c  a = b == c or c  a = not b and c  a = not (b and c)",
    "local a,b,c a = (b < c) == (c < b)  a = b < c or c < b and b ~= c",
    "local a,b,c a = f(b and c, b or c, not b, b < c)  t = {b and c, b or c; k = b and c}",
    "local a,b,c g = b and c  t.x = b or c  t[b and c] = c  a = t[b or c]",
    "local a,b,c return b and c, b or c, (b and c)",
    "local a,b,c a = b and f() or g()  a = f() and g()  a = f() or {}",
    "local a,b,c a = -(b and c)  a = #(b or c)  a = (b and c) .. (b or c)  a = (b or c) + 1",
    # calls, varargs, methods
    "local a = ... local b, c = ... local d = {...} f(...) f(a, ...) return ...",
    "local a = (...) local b = {(...)} f((...)) return (...)",
    "local a, b = f(), g() a, b = f() a, b = f(), g(), h() a = f(), g()",
    "local o o:m() o:m(1) o:m(f()) o:m(...) o.m(o) o.x.y:z(1, 2) return o:m()",
    "local o local a = o:m() local b, c = o:m(), o:n() return o:m(), o:n()",
    "f(f(f(f(1)))) f(1, f(2, f(3, f(4, f())))) f{1} f'x' f{f{f{}}}",
    "return f(g()), g()",
    "return (f(g()))",
    "local function r(n) if n == 0 then return 0 end return r(n - 1) end return r",
    "local function v(...) local a, b = ... return a, b, ... end return v",
    "local function v(x, ...) return select('#', ...), ... end return v",
    "function g1(...) local arg2 = arg return arg end",
    # upvalues through several levels, assignment to upvalues, CLOSE
    "local a local function f() local function g() local function h() a = a + 1 return a end return h end return g end",
    "local a, b local function f() a, b = b, a return function() return a, b end end",
    "do local a do local b do local c f(function() return a, b, c end) end end end",
    "for i = 1, 3 do local x = i f(function() x = x + 1 return x, i end) if x then break end end",
    "while f() do local x f(function() return x end) if x then break end end",
    "repeat local x f(function() return x end) until x",
    "repeat local x f(function() return x end) if x then break end until f()",
    "for k, v in pairs(t) do f(function() return k, v end) if k then break end end",
    "local x f(function() return x end) do local y f(function() return y end) goto e end ::e::",
    # concat chains, unary, arithmetic folding
    "local a,b,c a = b .. c  a = b .. c .. a  a = (b .. c) .. a  a = b .. (c .. a) .. 'x' .. 1",
    "local a,b,c a = 'x' .. b .. 'y' .. c .. 'z'  a = f() .. g()  a = b .. f(c .. a)  a = b .. #(c .. a)",
    "local a = 1 + 2 * 3 - 4 / 5 % 6 ^ 7  local b = -(-(-1))  local c = - -a  local d = 2 ^ 0.5 local e = 1 / 0 local f = 0 / 0 local g = -(0/0)",
    "local a,b a = -b  a = not b  a = #b  a = - -b  a = not not b  a = # #b  a = -#b  a = not -b",
    "local a,b a = 1 + b  a = b + 1  a = 1 - b  a = b * b  a = 2 ^ b  a = b % 2  a = 1 + 2 + b  a = b + 1 + 2",
    "local a,b a = 1 < b  a = b < 1  a = 1 == b  a = 'x' == b  a = b ~= nil  a = nil == b  a = true == b",
    # table accesses with every key form
    "local t, k t.x = 1 t[k] = 2 t[1] = 3 t['y'] = 4 t[1.5] = 5 t[true] = 6 t[t] = 7 t[k + 1] = 8 t[f()] = 9",
    "local t, k, a a = t.x a = t[k] a = t[1] a = t['y'] a = t.x.y.z a = t[k][k] a = t[1][2][3] a = t[f()]",
    "local t t.a.b.c = 1 t.a[1].b = 2 t[1][2][3] = 3 t.a.b.c, t.x = 1, 2",
    "gt.x = 1 gt[gk] = gv gv = gt.x gv = gt[gk] gt.x, gt.y = gt.y, gt.x",
    "local t = {} t.f = function() end function t.g() end function t:h() end function t.a.b.c:d() end",
    # numeric for with expressions, nested loops
    "for i = f(), g(), h() do end for i = 1, 10 do for j = i, 10 do for k = j, 10 do f(i, j, k) end end end",
    "for i = 1, 3 do local a, b, c = i, i, i end for i = 3, 1, -1 do if i then break end end",
    "for a, b, c, d, e in f() do end for a in f(), g(), h() do end for a, b in f(), g() do end",
    "for k, v in next, t do for k2, v2 in next, v do f(k, k2) end end",
    # a jump whose target is a JMP at a LOWER pc (already patched when patchCode follows the chain)
    "local t, a, b for k, w in pairs(t) do if false then a = b end a = b end",
    "local t, a, b for k in pairs(t) do while false do end a = b end",
    "local t, a, b for k in pairs(t) do break end",
    "local t, a, b for k in pairs(t) do if nil then a = b else b = a end end",
    "local a, b, n = 1, 2, 0 ::top:: while false do end n = n + 1 if n < 3 then goto top end",
    "local a, b, n = 1, 2, 0 if a then b = 1 end if b then a = 1 end ::top:: if false then a = b end n = n + 1 if n < 3 then goto top end",
    "local a, b = 1, 2 if a then b = 1 end repeat if false then a = b end a = a + 1 until a > 3",
    "local a, b = 1, 2 if a then b = 1 end if b then a = 1 end repeat while nil do end a = a + 1 until a > 3 b = a",
]


def shapes_cases():
    out = []
    for i, s in enumerate(SHAPES):
        out.append(("shapes", "top/%d" % i, {"i": i, "wrap": "top"}))
        out.append(("shapes", "func/%d" % i, {"i": i, "wrap": "func"}))
        out.append(("shapes", "nested/%d" % i, {"i": i, "wrap": "nested"}))
    return out


def shapes_source(i, wrap):
    s = SHAPES[i]
    if wrap == "top":
        return s + "\n"
    if wrap == "func":
        return "local function w(p1, p2, ...)\n" + s + "\nend\nreturn w\n"
    # inside a loop inside a closure that already has upvalues and live locals
    return ("local u1, u2 = 1, 2\nlocal function w(p1, ...)\nlocal l1, l2 = u1, u2\nwhile l1 do\nlocal l3 = l2\n" + s +
            "\nend\nend\nreturn w\n")


# --------------------------------------------------------------------------
# locals: register pressure

USES = [
    "",                                                   # nothing on top
    "for i = 1, 3 do %L = i end",                          # 4 more registers
    "for i = 1, 3 do end",
    "for k, v in pairs(t) do %L = k end",                  # 5 more
    "for k in pairs(t) do end",
    "%L = f(%L, %L, %L, %L, %L, %L, %L, %L)",              # call window
    "%L = {%L, %L, %L, %L, %L, %L, %L, %L, %L, %L}",
    "%L = %L .. %L .. %L .. %L .. %L .. %L .. %L .. %L",
    "%L = %L + (%L + (%L + (%L + (%L + (%L + %L)))))",
    "%L = function() return %L, %L, %L end",
    "%L = t:m(%L, %L, %L)",
    "%L, %L, %L = %L, %L, %L",
    "%L, %L = f()",
    "%L = %L and %L or %L",
    "%L = %L < %L",
    "local function lf(...) return %L, ... end",
    "do local x1, x2, x3, x4, x5 = %L, %L x1 = x5 end",
    "repeat local x1 = %L until x1",
    "if %L then %L = %L else %L = %L end",
    "t.x = %L t[%L] = %L %L = t.x",
    "return %L, %L, f()",
    "return f(%L, ...)",
]


def locals_source(n, style, use, seed):
    rng = random.Random(seed)
    names = ["v%d" % i for i in range(n)]
    if style == "one":          # one declaration per local
        decl = "\n".join("local %s = %d" % (nm, i) for i, nm in enumerate(names))
    elif style == "noinit":
        decl = "\n".join("local %s" % nm for nm in names)
    elif style == "multi":      # one statement declares all
        decl = "local " + ", ".join(names) + " = f()"
    elif style == "multi_k":
        decl = "local " + ", ".join(names) + " = " + ", ".join(str(i) for i in range(n))
    elif style == "params":     # as parameters of a function
        u = USES[use]
        while "%L" in u:
            u = u.replace("%L", rng.choice(names[-8:]), 1)
        return "local t\nlocal function big(" + ", ".join(names) + ", ...)\n" + u + "\nend\nreturn big\n"
    else:                       # spread over nested blocks
        decl = ""
        depth = 0
        for i, nm in enumerate(names):
            if i % 20 == 19:
                decl += "do\n"
                depth += 1
            decl += "local %s = %d\n" % (nm, i)
        u = USES[use]
        while "%L" in u:
            u = u.replace("%L", rng.choice(names[-8:]), 1)
        return "local t\n" + decl + u + "\n" + "end\n" * depth
    u = USES[use]
    while "%L" in u:
        u = u.replace("%L", rng.choice(names[-8:]), 1)
    return "local t\nlocal function big(...)\n" + decl + "\n" + u + "\nend\nreturn big\n"


def locals_cases(rng, full):
    out = []
    counts = [150, 180, 189, 190, 191, 192, 193, 194, 195, 196, 197, 198, 199, 200, 201, 210, 255, 256, 260]
    styles = ["one", "noinit", "multi", "multi_k", "params", "blocks"]
    if full:
        for n in counts:
            for st in styles:
                for use in range(len(USES)):
                    out.append(("locals", "%d/%s/%d" % (n, st, use), {"n": n, "style": st, "use": use, "seed": n * 100 + use}))
    else:
        for use in range(len(USES)):
            for n in (190, 194, 196, 197, 198, 199, 200, 201, 256):
                st = styles[(n + use) % len(styles)]
                out.append(("locals", "%d/%s/%d" % (n, st, use), {"n": n, "style": st, "use": use, "seed": n * 100 + use}))
    return out


# --------------------------------------------------------------------------
# consts: many constants, then every operand position that can take one

CONST_USES = [
    "local t, a, b = {}, 1, 2",
    "a = t.%S  a = t['%S']  t.%S = a  t.%S = b  t.%S, t.%S = a, b",
    "a = t[%K]  t[%K] = a  t[%K] = %K  t.%S = %K  t[%K] = '%S'",
    "a = b + %K  a = %K + b  a = %K - b  a = b * %K  a = b / %K  a = b % %K  a = b ^ %K  a = %K ^ b",
    "a = -b  a = #'%S'  a = not '%S'  a = -%K",
    "a = b < %K  a = %K < b  a = b == %K  a = b ~= '%S'  a = '%S' <= b  a = %K >= b",
    "if b < %K then a = %K end  if b == '%S' then a = '%S' end  while b ~= %K do break end",
    "a = b .. '%S'  a = '%S' .. b .. %K",
    "a = b and %K  a = b or '%S'  a = %K and b  a = '%S' or b",
    "%G = a  a = %G  %G = %G  %G.%S = %G.%S  %G(%G, %K, '%S')",
    "t:%S()  t:%S(%K)  a = t:%S('%S')  t.%S:%S()  a = t:%S(t:%S())",
    "function t.%S() end  function t:%S() end  function t.%S.%S:%S() end  function %G() end",
    "a = {%K, '%S', %S = %K, ['%S'] = '%S', [%K] = %K, %S = b}",
    "for i = %K, %K, %K do a = i + %K end  for k in %G(t, '%S') do end",
    "local function lf() return %K, '%S', t.%S, %G end",
    "return %K, '%S', t.%S, %G, b + %K, t:%S()",
]


def consts_source(npad, kind, seed):
    rng = random.Random(seed)
    ctr = [0]

    def fresh():
        ctr[0] += 1
        return ctr[0]
    # pad the constant table: distinct numbers / strings, none of them reused below
    pads = []
    for i in range(0, npad, 40):
        hi = min(i + 40, npad)
        if kind == "num":
            pads.append("pad = {" + ", ".join(str(100000 + j) for j in range(i, hi)) + "}")
        elif kind == "str":
            pads.append("pad = {" + ", ".join("'p%d'" % j for j in range(i, hi)) + "}")
        else:
            pads.append("pad = {" + ", ".join(("'p%d'" % j) if j % 2 else str(100000 + j) for j in range(i, hi)) + "}")
    lines = []
    for u in CONST_USES:
        while True:
            if "%S" in u:
                u = u.replace("%S", "s%d" % fresh(), 1)
            elif "%K" in u:
                u = u.replace("%K", str(7000 + fresh()) if rng.random() < 0.8 else str(fresh()) + ".5", 1)
            elif "%G" in u:
                u = u.replace("%G", "g%d" % fresh(), 1)
            else:
                break
        lines.append(u)
    body = lines[0] + "\n" + "\n".join(pads) + "\n" + "\n".join(lines[1:])
    # once at chunk level, once inside a function
    if seed % 2 == 0:
        return "local pad\n" + body + "\n"
    return "local pad\nlocal function w(...)\n" + body + "\nend\nreturn w\n"


def consts_cases(full):
    out = []
    pads = [0, 200, 240, 250, 254, 255, 256, 257, 260, 300, 500, 510, 511, 512, 513, 520, 600, 1000]
    if full:
        pads += [230, 245, 252, 253, 258, 505, 515, 2000, 5000]
    for n in pads:
        for kind in ("num", "str", "mix"):
            for sd in (0, 1):
                if not full and (n + sd + len(kind)) % 2:
                    continue
                out.append(("consts", "%d/%s/%d" % (n, kind, sd), {"npad": n, "kind": kind, "seed": sd}))
    return out


# --------------------------------------------------------------------------
# table constructors

def table_source(n, variant, nlocals=0):
    """n positional fields; variant selects what is interleaved / what ends the list"""
    items = []
    for i in range(n):
        if variant == "keyed_mix" and i % 7 == 3:
            items.append("k%d = %d" % (i, i))
        if variant == "index_mix" and i % 11 == 5:
            items.append("[%d] = %d" % (-i - 1, i))
        if variant == "locals":
            items.append("x")
        elif variant == "calls" and i % 13 == 0:
            items.append("f(%d)" % (i % 5))
        elif variant == "nested" and i % 17 == 0:
            items.append("{%d, {%d}}" % (i % 9, i % 7))
        elif variant == "strings":
            items.append("'s%d'" % (i % 300))
        else:
            items.append(str(i % 200))      # few distinct constants: keep ConstIndex cheap
    if variant == "last_call":
        items.append("f()")
    elif variant == "last_varargs":
        items.append("...")
    elif variant == "last_paren_call":
        items.append("(f())")
    if variant in NOLOCALS:
        # a function without parameters, '...' or locals: the constructor starts at register 0 and
        # the peephole optimisations look at whatever word was emitted last
        return "local function w()\n" + NOLOCALS[variant].replace("%T", "{" + ", ".join(items) + "}") + "\nend\nreturn w\n"
    pre = ""
    if nlocals:
        pre = "\n".join("local v%d = %d" % (i, i) for i in range(nlocals)) + "\n"
    body = pre + "local x = 1\nlocal t = {" + ", ".join(items) + "}\nx = t\nlocal y = x\n"
    if variant == "assign_to_local":
        body = pre + "local x, t = 1\nt = {" + ", ".join(items) + "}\nx = t\n"
    if variant == "as_argument":
        body = pre + "local x = 1\nf({" + ", ".join(items) + "}, x)\n"
    if variant == "as_return":
        body = pre + "local x = 1\nreturn {" + ", ".join(items) + "}\n"
    return "local function w(...)\n" + body + "end\nreturn w\n"


NOLOCALS = {
    "nl_len": "return #%T", "nl_index": "return (%T)[1]", "nl_field": "return (%T).x", "nl_arith": "return %T + 1",
    "nl_arith_r": "return 1 + %T", "nl_cmp": "return %T == 1", "nl_not": "return not %T", "nl_unm": "return -%T",
    "nl_call": "return (%T)()", "nl_method": "return (%T):m()", "nl_setfield": "(%T).x = 1", "nl_setindex": "g[%T] = 1",
    "nl_concat": "return %T .. 'x'", "nl_and": "return %T and 1", "nl_or": "g = nil or %T", "nl_if": "if %T then g = 1 end",
    "nl_arg": "return f(%T)", "nl_nested": "return #{%T}", "nl_global": "g = %T", "nl_tkey": "return ({})[%T]",
}
TABLE_VARIANTS = ["plain", "keyed_mix", "index_mix", "locals", "calls", "nested", "strings", "last_call",
                  "last_varargs", "last_paren_call", "assign_to_local", "as_argument", "as_return"]


def table_cases(full):
    out = []
    sizes = [0, 1, 49, 50, 51, 99, 100, 101, 150, 1000]
    for n in sizes:
        for v in TABLE_VARIANTS:
            out.append(("table", "%d/%s" % (n, v), {"n": n, "variant": v}))
    # register pressure: 50 pending items on top of many locals
    for nl in (140, 148, 149, 150, 151, 160):
        for v in ("plain", "last_call", "locals"):
            out.append(("table", "60/%s/locals%d" % (v, nl), {"n": 60, "variant": v, "nlocals": nl}))
    # the extended SETLIST form: batch number C = (n-1)/50+1 > 511  <=>  n > 25550
    for v in NOLOCALS:
        for n in ((0, 50, 51, 1000) if full else (51,)):
            out.append(("table", "%d/%s" % (n, v), {"n": n, "variant": v}))
        if full or v in ("nl_len", "nl_index", "nl_arith", "nl_cmp", "nl_unm", "nl_call", "nl_setfield", "nl_tkey"):
            for n in ((25550, 25551, 25600, 25601) if full else (25551,)):
                out.append(("table", "%d/%s" % (n, v), {"n": n, "variant": v}))
    big = [25500, 25550, 25551, 25600] if not full else [10000, 25500, 25549, 25550, 25551, 25552, 25600, 25601, 25650, 30000]
    for n in big:
        vs = ("plain", "last_call") if not full else ("plain", "last_call", "last_varargs", "keyed_mix", "assign_to_local", "as_return")
        for v in vs:
            out.append(("table", "%d/%s" % (n, v), {"n": n, "variant": v}))
    return out


# --------------------------------------------------------------------------
# nest: deep nesting

def nest_source(kind, depth):
    d = depth
    if kind == "do":
        return "local a\n" + "do local x = a\n" * d + "a = x\n" + "end\n" * d
    if kind == "if":
        return "local a, b\n" + "if a then b = a\n" * d + "a = b\n" + "else b = 1 end\n" * d
    if kind == "while":
        return "local a, b\n" + "while a do b = a\n" * d + "if b then break end\n" + "end\n" * d
    if kind == "repeat":
        return "local a, b\n" + "repeat b = a\n" * d + "a = b\n" + "until a\n" * d
    if kind == "numfor":       # 4 registers per level
        return "local a\n" + "".join("for i%d = 1, 2 do\n" % i for i in range(d)) + "a = i0\n" + "end\n" * d
    if kind == "genfor":       # 5 registers per level
        return "local a, t\n" + "".join("for k%d, v%d in pairs(t) do\n" % (i, i) for i in range(d)) + "a = k0\n" + "end\n" * d
    if kind == "func":         # every level captures the variables of all outer levels
        return ("local a0 = 0\n" + "".join("local function f%d()\nlocal a%d = a%d\n" % (i, i + 1, i) for i in range(d)) +
                "return " + ", ".join("a%d" % i for i in range(0, d + 1, max(1, d // 20))) + "\n" + "end\n" * d)
    if kind == "func_anon":
        return "return " + "function() return " * d + "1" + " end" * d + "\n"
    if kind == "paren":
        return "local a = " + "(" * d + "1" + ")" * d + "\n"
    if kind == "arith_right":  # one register per level
        return "local a = 1\nlocal b = " + "a + (" * d + "a" + ")" * d + "\n"
    if kind == "arith_left":
        return "local a = 1\nlocal b = " + "(" * d + "a" + " + a)" * d + "\n"
    if kind == "concat":
        return "local a = 'x'\nlocal b = " + " .. ".join(["a"] * (d + 1)) + "\n"
    if kind == "concat_paren":
        return "local a = 'x'\nlocal b = " + "a .. (" * d + "a" + ")" * d + "\n"
    if kind == "and_or":
        return "local a, b\nb = " + "a and (b or " * d + "a" + ")" * d + "\n"
    if kind == "not":
        return "local a\nlocal b = " + "not " * d + "a\n"
    if kind == "unm":
        return "local a\nlocal b = " + "- " * d + "a\n"
    if kind == "cmp":
        return "local a\nlocal b = " + "(" * d + "a" + " < a)" * d + "\n"
    if kind == "call":         # one register per level
        return "local b = " + "f(" * d + "1" + ")" * d + "\n"
    if kind == "call_args":
        return "local b = " + "f(1, 2, " * d + "3" + ")" * d + "\n"
    if kind == "method":
        return "local o\nlocal b = o" + ":m()" * d + "\n"
    if kind == "method_nested":
        return "local o\nlocal b = " + "o:m(" * d + "1" + ")" * d + "\n"
    if kind == "index":
        return "local t\nlocal b = t" + ".x[1]" * d + "\n"
    if kind == "index_nested":
        return "local t\nlocal b = " + "t[" * d + "1" + "]" * d + "\n"
    if kind == "table":        # one register per level
        return "local b = " + "{" * d + "1" + "}" * d + "\n"
    if kind == "table_keyed":
        return "local b = " + "{x = " * d + "1" + "}" * d + "\n"
    if kind == "elseif":
        return "local a, b\nif a then b = 1\n" + "".join("elseif a == %d then b = %d\n" % (i, i) for i in range(d)) + "else b = 0 end\n"
    if kind == "mixed":
        s = "local a, t = 1, {}\n"
        opens = ["do local x = a\n", "if a then\n", "while a do\n", "for i = 1, 2 do\n", "repeat\n", "local function f()\n", "for k, v in pairs(t) do\n"]
        closes = ["end\n", "end\n", "break end\n", "end\n", "until a\n", "end\n", "end\n"]
        st = []
        for i in range(d):
            j = (i * 5 + i // 7) % len(opens)
            s += opens[j]
            st.append(closes[j])
        s += "a = t\n"
        while st:
            s += st.pop()
        return s
    raise ValueError(kind)


NEST_KINDS = ["do", "if", "while", "repeat", "numfor", "genfor", "func", "func_anon", "paren", "arith_right", "arith_left",
              "concat", "concat_paren", "and_or", "not", "unm", "cmp", "call", "call_args", "method", "method_nested",
              "index", "index_nested", "table", "table_keyed", "elseif", "mixed"]


def nest_cases(full):
    out = []
    depths = [10, 48, 50, 100, 190, 197, 199, 200, 201, 255, 300] if full else [40, 100, 198, 201, 260]
    for k in NEST_KINDS:
        for d in depths:
            out.append(("nest", "%s/%d" % (k, d), {"kind": k, "depth": d}))
    return out


# --------------------------------------------------------------------------
# longjump: bodies close to the 18-bit jump range (sBx in -131071..131072)

def longjump_source(kind, n):
    """n one-instruction statements (ADD on locals) in the body"""
    body = "a = b + c\n" * n
    if kind == "while":
        return "local a, b, c = 1, 2, 3\nwhile a do\n" + body + "end\n"
    if kind == "repeat":
        return "local a, b, c = 1, 2, 3\nrepeat\n" + body + "until a\n"
    if kind == "if":
        return "local a, b, c = 1, 2, 3\nif a then\n" + body + "end\n"
    if kind == "ifelse":
        return "local a, b, c = 1, 2, 3\nif a then\n" + body + "else\n" + body + "end\n"
    if kind == "numfor":
        return "local a, b, c = 1, 2, 3\nfor i = 1, 2 do\n" + body + "end\n"
    if kind == "numfor_tail":   # the loop is not at the start of the function
        return "local a, b, c = 1, 2, 3\n" + body + "for i = 1, 2 do\n" + body + "end\n" + body
    if kind == "genfor":
        return "local a, b, c = 1, 2, 3\nfor k in pairs(a) do\n" + body + "end\n"
    if kind == "break":
        return "local a, b, c = 1, 2, 3\nwhile a do\nif b then break end\n" + body + "end\n"
    if kind == "goto_fwd":
        return "local a, b, c = 1, 2, 3\ngoto e\n" + body + "::e::\n"
    if kind == "goto_back":
        return "local a, b, c = 1, 2, 3\n::s::\n" + body + "if a then goto s end\n"
    if kind == "andor":
        return "local a, b, c = 1, 2, 3\nlocal x = a and {" + "b + c, " * n + "1} or 2\n"
    if kind == "nested_ifelse":
        # the jump ending the inner 'then' lands on the jump ending the outer 'then': each spans n
        # instructions (in range), both together 2n (jump-to-jump threading must not combine them blindly)
        return ("local a, b, c = 1, 2, 3\nif a then\nif b then\nc = 1\nelse\n" + body + "end\nelse\n" + body + "end\nreturn c\n")
    if kind == "nested_ifelse3":
        return ("local a, b, c = 1, 2, 3\nif a then\nif b then\nif c then\nc = 1\nelse\n" + body + "end\nelse\n" + body +
                "end\nelse\n" + body + "end\nreturn c\n")
    raise ValueError(kind)


LONG_KINDS = ["while", "repeat", "if", "ifelse", "numfor", "numfor_tail", "genfor", "break", "goto_fwd", "goto_back", "andor"]


def longjump_cases(full):
    """the body sizes straddle both ends of the sBx range (-131071..131072) for every kind of jump"""
    out = []
    if not full:
        for k, n in (("while", 131060), ("while", 131069), ("numfor", 131075), ("goto_back", 131075), ("if", 131075),
                     ("nested_ifelse", 70000)):
            out.append(("longjump", "%s/%d" % (k, n), {"kind": k, "n": n}))
        return out
    for k, n in (("nested_ifelse", 70000), ("nested_ifelse", 65530), ("nested_ifelse", 65536), ("nested_ifelse", 65540),
                 ("nested_ifelse", 100000), ("nested_ifelse3", 44000), ("nested_ifelse3", 60000)):
        out.append(("longjump", "%s/%d" % (k, n), {"kind": k, "n": n}))
    for k in LONG_KINDS:
        sizes = list(range(131066, 131074))
        if k in ("while", "numfor"):
            sizes.append(140000)
        if k in ("ifelse", "numfor_tail", "andor"):
            sizes = [131066, 131070, 131073]
        for n in sizes:
            out.append(("longjump", "%s/%d" % (k, n), {"kind": k, "n": n}))
    return out


# --------------------------------------------------------------------------
# upvals: closures capturing many variables over several levels

def upvals_source(n1, n2, n3, mode):
    """level 1 declares n1 locals, level 2 n2, level 3 n3; the innermost function uses all of them"""
    l1 = ["a%d" % i for i in range(n1)]
    l2 = ["b%d" % i for i in range(n2)]
    l3 = ["c%d" % i for i in range(n3)]

    def decl(ns):
        return "".join("local %s = %d\n" % (nm, i) for i, nm in enumerate(ns))
    allv = l1 + l2 + l3
    if mode == "read":
        use = "return " + " + ".join(allv) if allv else "return 0"
        use = "local s = 0\n" + "".join("s = s + %s\n" % nm for nm in allv) + "return s\n"
    elif mode == "write":
        use = "".join("%s = 0\n" % nm for nm in allv)
    else:  # one more level: a closure that re-captures everything
        use = "return function()\nlocal s = 0\n" + "".join("s = s + %s\n" % nm for nm in allv) + "return s\nend\n"
    return ("local function L1()\n" + decl(l1) + "local function L2()\n" + decl(l2) + "local function L3()\n" + decl(l3) +
            "local function L4()\n" + use + "end\nreturn L4\nend\nreturn L3\nend\nreturn L2\nend\nreturn L1\n")


def upvals_cases(full):
    out = []
    combos = [(10, 10, 10), (60, 0, 0), (100, 0, 0), (190, 0, 0), (100, 100, 0), (128, 127, 0), (128, 128, 0), (130, 130, 0),
              (90, 90, 90), (150, 150, 150), (190, 190, 190)]
    if full:
        combos += [(127, 128, 0), (129, 127, 0), (85, 85, 85), (86, 85, 85), (100, 100, 55), (100, 100, 56), (100, 100, 57), (190, 66, 0)]
    for c in combos:
        for m in ("read", "write", "recapture"):
            out.append(("upvals", "%d-%d-%d/%s" % (c + (m,)), {"n1": c[0], "n2": c[1], "n3": c[2], "mode": m}))
    return out


# --------------------------------------------------------------------------
# goto: label resolution

GOTOS = [
    "local a, b = 1, 2\ngoto l1\na = b\n::l1::\nb = a\n",
    "local a, b = 1, 2\n::l1::\na = b\nif a then goto l1 end\nb = a\n",
    "local a, b = 1, 2\n::l1::\n::l2::\na = b\nif a then goto l1 else goto l2 end\n",
    "local a, b = 1, 2\ndo goto l1 end\na = b\n::l1::\n",
    "local a, b = 1, 2\ndo do do goto l1 end end end\na = b\n::l1:: b = a\n",
    "local a, b = 1, 2\nwhile a do\nif b then goto cont end\na = b\n::cont::\nend\n",
    "local a, b = 1, 2\nfor i = 1, 3 do\nfor j = 1, 3 do\nif a then goto out end\nend\nend\n::out::\na = b\n",
    "local a, b = 1, 2\nfor i = 1, 3 do\nlocal x = i\nf(function() return x end)\nif a then goto cont end\nb = x\n::cont::\nend\n",
    "local a, b = 1, 2\nfor i = 1, 3 do\nlocal x = i\nf(function() return x end)\nif a then goto out end\nend\n::out::\na = b\n",
    "local a, b = 1, 2\ndo\nlocal x = a\nf(function() return x end)\ndo\nlocal y = b\nf(function() return y end)\ngoto out\nend\nend\n::out::\na = b\n",
    "local a, b = 1, 2\n::top::\ndo\nlocal x = a\nf(function() return x end)\nif b then goto top end\nend\n",
    "local a, b = 1, 2\nrepeat\nlocal x = a\nif x then goto cont end\nb = x\n::cont::\nuntil b\n",
    "local a, b = 1, 2\nrepeat\nlocal x = a\nf(function() return x end)\nif x then goto done end\nuntil b\n::done::\n",
    "local a, b = 1, 2\nif a then goto e1 elseif b then goto e2 else goto e3 end\n::e1:: a = 1\n::e2:: a = 2\n::e3:: a = 3\n",
    "local a, b = 1, 2\ngoto l3\n::l1:: a = 1 goto l4\n::l2:: a = 2 goto l1\n::l3:: a = 3 goto l2\n::l4::\n",
    "local a, b, c, d = 1, 2, 3, 4\na = b c = d\n::m1::\na = c b = d\nif a then goto m1 end\nc = a d = b\n",
    "local a, b, c, d = 1, 2, 3, 4\nif a then goto m1 end\na = b c = d b = a\n::m1::\nd = c a = d\n",
    "local function f()\ngoto l1\n::l1::\nreturn function()\ngoto l1\n::l1::\nend\nend\n",
    "local a = 1\nwhile a do\ngoto cont\n::cont::\nend\nwhile a do\ngoto cont\n::cont::\nend\n",
    "local a = 1\ndo ::l:: end\ndo ::l:: end\ndo goto l ::l:: end\n",
    "local a = 1\nwhile a do\nlocal x = a\nf(function() return x end)\ngoto cont\n::cont::\nend\n",
    "local a = 1\ngoto l1\n::l1::\n",
    "::l1:: goto l1\n",
    "local a = 1\nfor i = 1, 3 do\n::again::\nlocal x = i\nf(function() return x end)\nif a then goto again end\nend\n",
]


def goto_cases():
    out = []
    for i in range(len(GOTOS)):
        for w in ("top", "func", "loop"):
            out.append(("goto", "%s/%d" % (w, i), {"i": i, "wrap": w}))
    return out


def goto_source(i, wrap):
    s = GOTOS[i]
    if wrap == "top":
        return s
    if wrap == "func":
        return "local u = 1\nlocal function w(...)\nlocal p = u\n" + s + "end\nreturn w\n"
    return "local u = 1\nfor o = 1, 2 do\nlocal q = o\nf(function() return q end)\n" + s + "end\n"


# --------------------------------------------------------------------------
# vararg: the implicit 'arg' local of a vararg function lives in R(NumParameters); bodies that
# only READ it (RETURN / SETGLOBAL / TEST / table access operands) or never touch it at all

ARG_USES = [
    "return arg", "g = arg", "if arg then return 1 end return 2", "return arg.n", "return arg[1]",
    "return select('#', unpack(arg))", "while arg do break end", "return #arg", "gt.x = arg", "gt[arg] = 1",
    "f(arg)", "return f(arg)", "return arg, 1", "return not arg", "return arg == nil", "return arg and 1",
    "if not arg then g = 1 end", "arg = nil", "local x = arg return x", "return arg, ...", "return ...",
    "return function() return arg end", "for i = 1, arg.n do end", "repeat until arg",
    # no use of arg: the slot is written on entry all the same
    "", "return", "return %P", "g = %P", "if %P then g = 1 end", "return %P, %P",
]


def vararg_source(np, use, form, locals_, dots=True):
    ps = ["p%d" % i for i in range(np)]
    body = ARG_USES[use]
    last = ps[-1] if ps else "g"
    body = body.replace("%P", last)
    if locals_:
        body = "local q = " + (ps[0] if ps else "1") + "\n" + body
    plist = ", ".join(ps + (["..."] if dots else []))
    if form == "local":
        return "local function v(" + plist + ")\n" + body + "\nend\nreturn v\n"
    if form == "method":        # self is one more parameter
        return "local t = {}\nfunction t:m(" + plist + ")\n" + body + "\nend\nreturn t\n"
    if form == "nested":        # inside a function that has upvalues and locals of its own
        return ("local u = 1\nlocal function o(a, b, ...)\nlocal w = u\nreturn function(" + plist + ")\n" + body +
                "\nend\nend\nreturn o\n")
    return "return function(" + plist + ")\n" + body + "\nend\n"


def vararg_cases(full):
    out = []
    for np in ((0, 1, 2, 3, 4, 5, 8) if full else (0, 1, 2, 3, 4)):
        for use in range(len(ARG_USES)):
            for form in ("local", "method", "anon", "nested"):
                for loc in (0, 1):
                    if not full and loc != {"local": 0, "method": 0, "anon": 1, "nested": use % 2}[form]:
                        continue
                    out.append(("vararg", "%d/%d/%s/%d" % (np, use, form, loc), {"np": np, "use": use, "form": form, "locals": loc}))
            # the same body in a function without '...': arg is then a global
            out.append(("vararg", "%d/%d/nodots" % (np, use), {"np": np, "use": use, "form": "local", "locals": 0, "dots": False}))
    return out


# --------------------------------------------------------------------------
# manylocals: ONE declaration introduces N locals without writing each register individually
# (LOADNIL B / CALL C / VARARG B / TFORLOOP C range operands are 9 bits wide, A is 8 bits)

def manylocals_source(n, form, body):
    names = ["a%d" % i for i in range(1, n + 1)]
    lst = ", ".join(names)
    b = ""
    if body >= 1:
        b = "a1 = 'first'\n" + ("a257 = 'other'\n" if n >= 257 else "") + "a%d = 'last'\n" % n
    if body == 2:
        b += "g = a%d\nlocal z = a1\nf(a%d, z)\n" % (n, max(1, n // 2))
    if body == 3:       # a nested block closes while the locals are live
        b += "do local q = a1 g = q end\nif a1 then g = a%d end\n" % n
    if form == "nil":
        src = "local " + lst + "\n" + b + "return a1\n"
    elif form == "call":
        src = "local " + lst + " = f()\n" + b + "return a1\n"
    elif form == "vararg":
        src = "local " + lst + " = ...\n" + b + "return a1\n"
    elif form == "forin":
        src = "for " + lst + " in it do\n" + b + "return a1\nend\n"
    elif form == "params":
        return "local function w(" + lst + ")\n" + b + "return a1\nend\nreturn w\n"
    else:
        raise ValueError(form)
    return "local function w(...)\n" + src + "end\nreturn w\n"


def manylocals_cases(full):
    out = []
    ns = [100, 190, 195, 197, 199, 200, 201, 255, 256, 257, 300, 511, 512, 513, 520, 600, 700, 1030]
    if full:
        ns += [196, 198, 254, 258, 510, 514, 767, 768, 769, 1023, 1024, 1025, 2000]
    for n in ns:
        for form in ("nil", "call", "vararg", "forin", "params"):
            for body in ((0, 1, 2, 3) if full else (0, 1, 3)):
                out.append(("manylocals", "%d/%s/%d" % (n, form, body), {"n": n, "form": form, "body": body}))
    return out


# --------------------------------------------------------------------------
# manytargets: ONE multiple assignment with N targets (temporaries pile up above the locals; the
# range operands VARARG B / CALL C are 9 bits wide, register operands 8 bits)

def manytargets_source(n, target, source, nlocals):
    if target == "global":
        ts = ["g%d" % i for i in range(1, n + 1)]
    elif target == "field":
        ts = ["t.a%d" % i for i in range(1, n + 1)]
    elif target == "index":
        ts = ["t[%d]" % i for i in range(1, n + 1)]
    elif target == "upval":
        ts = ["u%d" % (i % 3) for i in range(1, n + 1)]
    else:                       # mixed
        ts = [("g%d" % i) if i % 2 else ("t.a%d" % i) for i in range(1, n + 1)]
    rhs = {"varargs": "...", "call": "f()", "one": "1", "all": ", ".join(str(i % 50) for i in range(n)),
           "val_varargs": "1, 2, ...", "val_call": "1, f()"}[source]
    pre = "".join("local l%d = %d\n" % (i, i) for i in range(nlocals))
    return ("local t, u0, u1, u2 = {}\nlocal function w(...)\n" + pre + ", ".join(ts) + " = " + rhs +
            "\nreturn g1, g2\nend\nreturn w\n")


def manytargets_cases(full):
    out = []
    ns = [100, 190, 200, 250, 255, 256, 257, 300, 509, 510, 511, 512, 600, 1030]
    if full:
        ns += [150, 195, 199, 201, 254, 258, 400, 508, 513, 767, 768, 1023, 1024, 2000]
    for n in ns:
        for target in ("global", "field", "index", "upval", "mixed"):
            for source in ("varargs", "call", "one", "all", "val_varargs", "val_call"):
                if not full and (n + len(target) + len(source)) % 2:
                    continue
                out.append(("manytargets", "%d/%s/%s" % (n, target, source),
                            {"n": n, "target": target, "source": source, "nlocals": 0 if n % 2 else 3}))
    return out


# --------------------------------------------------------------------------
# constobj: constants where an object / function / table is expected (the constant must be
# loaded into a register: an RK code does not fit a register-only operand field)

CONSTOBJ = [
    '("abc").x = 1', '("abc")[k] = 1', '("abc")[1] = 2', '(5).x = 1', '(5)[k] = 1', '(true).x = 1', '(nil).x = 1',
    '("abc").x, ("def").y = 1, 2', '("abc").x.y = 1', 'k = ("abc").x', 'k = ("abc")[1]', 'k = (5).x', 'k = #"abc"',
    'k = -"5"', 'k = not "abc"', '("abc"):len()', 'k = ("abc"):len()', '("abc")()', '(5)()', 'k = ("abc")(1)',
    'k = ("abc") .. ("def")', 'k = {("abc").x}', 'function t.x() end', 'k = ("abc") == ("def")', 'k = 1 < 2', 'k = "a" < "b"',
    'for i = "1", "2" do end', 'for kk in "abc" do end', 'return ("abc").x', 'return ("abc")()',
]


def constobj_source(i, npad, wrap):
    pads = "".join("pad = 'c%d';\n" % j for j in range(npad))    # the constant gets index >= npad
    body = "local t = {}\nlocal k;\n" + pads + CONSTOBJ[i] + "\n"
    if wrap == "top":
        return body + "return t.x\n" if not CONSTOBJ[i].startswith("return") else body
    return "local function w(...)\n" + body + "end\nreturn w\n"


def constobj_cases(full):
    out = []
    for i in range(len(CONSTOBJ)):
        for npad in ((0, 1, 5, 40, 150, 198, 199, 200, 250, 260) if full else (0, 5, 40, 198, 260)):
            for wrap in ("top", "func"):
                out.append(("constobj", "%d/%d/%s" % (i, npad, wrap), {"i": i, "npad": npad, "wrap": wrap}))
    return out


# --------------------------------------------------------------------------
# gotoclose: a goto leaves a block whose local is captured by a closure - created before and/or
# textually AFTER the goto statement (the CLOSE the jump needs is only known at resolution time)

GC_BLOCKS = {
    "do": ("do\n", "end\n"), "while": ("while a do\n", "end\n"), "numfor": ("for i = 1, 3 do\n", "end\n"),
    "genfor": ("for k, w in pairs(t) do\n", "end\n"), "repeat": ("repeat\n", "until a\n"), "if": ("if a then\n", "end\n"),
    "else": ("if a then b = 1 else\n", "end\n"), "func": ("local function inner()\n", "end\n"),
}
GC_GOTOS = {"bare": "goto L\n", "if": "if p then goto L end\n", "ifelse": "if p then b = 1 else goto L end\n",
            "nested": "do goto L end\n", "nested_if": "do if p then goto L end end\n",
            "loop": "while p do goto L end\n", "not": "if not p then goto L end\n", "cmp": "if p == 1 then goto L end\n"}
# what stands right in front of the goto statement (the word before its JMP)
GC_BEFORE = {"none": "", "upclosure": "h = function() return u end\n", "move": "b = a\n", "call": "f(a)\n",
             "if": "if a then b = 1 end\n", "setlist": "b = {1, 2, 3}\n", "xclosure": "h = function() return x end\n"}


def gotoclose_source(block, gform, before, closure_pos, decl, label_pos):
    """closure_pos: before / after / both (relative to the goto); decl: the captured local is declared
    before or after the goto; label_pos: same (last statement of the block) or outer (behind the block)"""
    pre, post = GC_BLOCKS[block]
    cap = "g = function() return x end\n"
    body = ""
    if decl == "before":
        body += "local x = 1\n"
        if closure_pos in ("before", "both"):
            body += cap
        body += GC_BEFORE[before] if before != "xclosure" else cap
        body += GC_GOTOS[gform]
        if closure_pos in ("after", "both"):
            body += "g2 = function() return x end\n"
        body += "b = 2\n"
    else:
        body += (GC_BEFORE[before] if before != "xclosure" else "") + GC_GOTOS[gform]
        body += "local x = 1\n" + cap + "b = 2\n"
    if label_pos == "same":
        body += "::L::\n"
        tail = ""
    else:
        tail = "::L::\n"
    return ("local t, u = {}, 5\nlocal function w(p, a, b)\nlocal h\n" + pre + body + post + tail + "return b, h\nend\nreturn w\n")


def gotoclose_cases(full):
    out = []
    i = 0
    for block in GC_BLOCKS:
        for gform in GC_GOTOS:
            for before in GC_BEFORE:
                for cpos in ("before", "after", "both"):
                    for decl in ("before", "after"):
                        for lpos in ("same", "outer"):
                            if decl == "after" and cpos != "after":
                                continue
                            if block == "func" and lpos == "outer":
                                continue        # a goto cannot leave a function
                            if before == "xclosure" and decl == "after":
                                continue
                            i += 1
                            if not full and i % 4 != (len(block) + len(gform)) % 4:
                                continue
                            out.append(("gotoclose", "%s/%s/%s/%s/%s/%s" % (block, gform, before, cpos, decl, lpos),
                                        {"block": block, "gform": gform, "before": before, "cpos": cpos, "decl": decl, "lpos": lpos}))
    return out


# --------------------------------------------------------------------------
# closexpr: a function expression that captures locals / upvalues, used DIRECTLY in every expression
# position the operand-forwarding peepholes serve (the last word before them is a capture pseudo-op)

CX_POS = [
    "g = (%F).k", "g = (%F)[1]", "g = (%F)[y]", "g = t[%F]", "g = #(%F)", "g = -(%F)", "g = not (%F)",
    "g = (%F) + 1", "g = 1 + (%F)", "g = (%F) * y", "g = y - (%F)", "g = (%F) == y", "g = y ~= (%F)", "g = (%F) < y",
    "g = y <= (%F)", "g = (%F) .. 'a'", "g = 'a' .. (%F)", "g = y .. (%F) .. y", "g = (%F):m()", "g = (%F):m(y)",
    "(%F):m()", "f(%F)", "f(y, %F)", "f(%F, y)", "g = f(%F)", "(%F)()", "g = (%F)(y)", "if %F then g = 1 end",
    "if not (%F) then g = 1 end", "while %F do break end", "repeat g = 1 until %F", "if (%F) == y then g = 1 end",
    "if y and (%F) then g = 1 end", "g = {%F}", "g = {%F, y}", "g = {k = %F}", "g = {[%F] = 1}", "g = {[y] = %F}",
    "g = y and (%F)", "g = (%F) or y", "g = (%F) and y", "t.k = %F", "t[y] = %F", "t[%F] = y", "(%F).k = 1", "(%F)[y] = 1",
    "y = %F", "local z = %F", "local z, zz = %F, %F", "g, y = %F, 1", "return %F", "return y, %F", "return (%F).k",
    "return #(%F)", "return (%F):m()", "for i = 1, #(%F) do end", "for kk in %F do end", "for kk, vv in pairs(%F) do end",
]
CX_FUN = {
    "l1": "function() return x1 end", "l2": "function() return x1, x2 end", "l3": "function() x3 = x1 return x2 end",
    "u1": "function() return u1 end", "u2": "function() return u1, u2 end", "lu": "function() return x1, u1 end",
    "ul": "function() return u2, x2 end", "none": "function() return 1 end", "nested": "function() return function() return x1, u1 end end",
}


def closexpr_source(pos, fun, wrap):
    st = CX_POS[pos].replace("%F", CX_FUN[fun])
    body = "local x1, x2, x3, y = 1, 2, 3, 4\n" + st + "\n"
    if not st.startswith("return"):
        body += "g = y\n"
    if wrap == "loop":
        body = "while y do\nlocal x1, x2, x3 = 1, 2, 3\n" + st + "\n" + ("" if st.startswith("return") else "g = y\n") + "end\n"
        body = "local y = 4\n" + body
    return "local u1, u2, t = 1, 2, {}\nlocal function w(...)\n" + body + "end\nreturn w\n"


def closexpr_cases(full):
    out = []
    for pos in range(len(CX_POS)):
        for fi, fun in enumerate(CX_FUN):
            for wrap in ("func", "loop"):
                if not full and (pos + fi) % 3 != (0 if wrap == "func" else 1):
                    continue
                out.append(("closexpr", "%d/%s/%s" % (pos, fun, wrap), {"pos": pos, "fun": fun, "wrap": wrap}))
    return out


# --------------------------------------------------------------------------
# rand: random compositions of the statement kinds (nesting, long bodies)

def rand_source(seed, size):
    rng = random.Random(seed)
    u = _Uniq()
    kinds = list(STMTS)

    def block(depth, n, inloop):
        ss = []
        for _ in range(n):
            r = rng.random()
            if depth < 4 and r < 0.35:
                bk = rng.choice([b for b in BLOCKS if b != "chunk"])
                pre, post, isloop = BLOCKS[bk]
                inner = block(depth + 1, rng.randint(1, 4), inloop or isloop) if bk != "func" else block(depth + 1, rng.randint(1, 4), False)
                ss.append(u.sub(pre) + inner + u.sub(post))
            else:
                ss.append(u.sub(STMTS[rng.choice(kinds)]))
        r = rng.random()
        if r < 0.25:
            ss.append(u.sub(LAST[rng.choice(list(LAST))]))
        elif r < 0.35 and inloop:
            ss.append("break")
        return "\n".join(ss)
    return PRELUDE + block(0, size, False) + "\nend\nreturn outer\n"


# --------------------------------------------------------------------------

def cases(tier, seed):
    rng = random.Random(seed * 7717 + 7)
    full = tier == "thorough"
    out = []
    out += stmtpos_cases(rng, full)
    out += shapes_cases()
    out += locals_cases(rng, full)
    out += consts_cases(full)
    out += table_cases(full)
    out += nest_cases(full)
    out += longjump_cases(full)
    out += upvals_cases(full)
    out += goto_cases()
    out += vararg_cases(full)
    out += manylocals_cases(full)
    out += manytargets_cases(full)
    out += gotoclose_cases(full)
    out += closexpr_cases(full)
    out += constobj_cases(full)
    for i in range(1500 if full else 150):
        out.append(("rand", "%d" % i, {"seed": seed * 100000 + i, "size": rng.choice([3, 6, 12, 25])}))
    return out


def source(fam, params):
    if fam == "stmtpos":
        return stmtpos_source(params["block"], params["kind"], params["pos"], tuple(params.get("fill", (0, 1))))
    if fam == "shapes":
        return shapes_source(params["i"], params["wrap"])
    if fam == "locals":
        return locals_source(params["n"], params["style"], params["use"], params["seed"])
    if fam == "consts":
        return consts_source(params["npad"], params["kind"], params["seed"])
    if fam == "table":
        return table_source(params["n"], params["variant"], params.get("nlocals", 0))
    if fam == "nest":
        return nest_source(params["kind"], params["depth"])
    if fam == "longjump":
        return longjump_source(params["kind"], params["n"])
    if fam == "upvals":
        return upvals_source(params["n1"], params["n2"], params["n3"], params["mode"])
    if fam == "closexpr":
        return closexpr_source(params["pos"], params["fun"], params["wrap"])
    if fam == "gotoclose":
        return gotoclose_source(params["block"], params["gform"], params["before"], params["cpos"], params["decl"], params["lpos"])
    if fam == "manytargets":
        return manytargets_source(params["n"], params["target"], params["source"], params["nlocals"])
    if fam == "constobj":
        return constobj_source(params["i"], params["npad"], params["wrap"])
    if fam == "manylocals":
        return manylocals_source(params["n"], params["form"], params["body"])
    if fam == "vararg":
        return vararg_source(params["np"], params["use"], params["form"], params["locals"], params.get("dots", True))
    if fam == "goto":
        return goto_source(params["i"], params["wrap"])
    if fam == "rand":
        return rand_source(params["seed"], params["size"])
    raise ValueError(fam)
