"""Flat-AST program builder, renderer (AST -> Lua source with token lines) and
seeded type-directed generators.  The AST (node table) is the ground truth that
LuaSem interprets; the rendered text goes through the REAL lexer, parser,
compiler and VM."""
import random

PREC = {"or": 1, "and": 2, "<": 3, ">": 3, "<=": 3, ">=": 3, "~=": 3, "==": 3, "..": 4,
        "+": 5, "-": 5, "*": 6, "/": 6, "%": 6, "un": 7, "^": 8}
RIGHT = {"..", "^"}


def sbytes(s):
    return list(s.encode("latin-1")) if isinstance(s, str) else list(s)


class Prog:
    def __init__(self):
        self.nodes = [None]          # 1-based

    def add(self, k, **kw):
        kw["k"] = k
        self.nodes.append(kw)
        return len(self.nodes) - 1

    # ---- expression constructors
    def nil(self): return self.add("nil")
    def true(self): return self.add("true")
    def false(self): return self.add("false")
    def num(self, v): return self.add("num", v=v)
    def str(self, s): return self.add("str", s=sbytes(s))
    def dots(self): return self.add("dots")
    def id(self, n): return self.add("id", n=n, nb=sbytes(n))
    def index(self, o, i): return self.add("index", o=o, i=i)
    def field(self, o, name): return self.add("index", o=o, i=self.str(name), dot=True)
    def call(self, f, args): return self.add("call", f=f, **{"as": list(args)})
    def method(self, o, name, args): return self.add("method", o=o, nb=sbytes(name), **{"as": list(args)})
    def func(self, ps, body, va=False, ud=False): return self.add("func", ps=list(ps), va=va, ud=ud, b=body)
    def bin(self, op, l, r): return self.add("bin", op=op, l=l, r=r)
    def and_(self, l, r): return self.add("and", l=l, r=r)
    def or_(self, l, r): return self.add("or", l=l, r=r)
    def un(self, op, e): return self.add("un", op=op, e=e)
    def paren(self, e): return self.add("paren", e=e)
    def table(self, items):
        """items: list of ("p", v) or ("k", key, v)"""
        it = []
        for x in items:
            if x[0] == "p":
                it.append({"t": "p", "kk": 0, "v": x[1]})
            else:
                it.append({"t": "k", "kk": x[1], "v": x[2]})
        return self.add("table", it=it)

    # ---- statement constructors
    def block(self, ss):
        ss = list(ss)
        lb = []
        ndecl = 0
        for i, s in enumerate(ss):
            nd = self.nodes[s]
            if nd["k"] == "label":
                lb.append([nd["lab"], i + 1, ndecl])
            elif nd["k"] == "local":
                ndecl += len(nd["ns"])
            elif nd["k"] == "localfunction":
                ndecl += 1
        return self.add("block", ss=ss, lb=lb)

    def local(self, ns, es): return self.add("local", ns=list(ns), es=list(es))
    def localfunction(self, n, f): return self.add("localfunction", n=n, f=f)
    def assign(self, ts, es): return self.add("assign", ts=list(ts), es=list(es))
    def funcstat(self, t, f, method=False):
        """function a.b.c(...) end / function a.b:c(...) end: an assignment written with the statement sugar"""
        return self.add("assign", ts=[t], es=[f], sugar="method" if method else "plain")
    def callstat(self, e): return self.add("callstat", e=e)
    def do(self, b): return self.add("do", b=b)
    def while_(self, c, b): return self.add("while", c=c, b=b)
    def repeat(self, b, c): return self.add("repeat", b=b, c=c)
    def if_(self, cs, bs, el=0): return self.add("if", cs=list(cs), bs=list(bs), el=el)
    def fornum(self, v, e1, e2, e3, b): return self.add("fornum", v=v, e1=e1, e2=e2, e3=e3 or 0, b=b)
    def forin(self, ns, es, b): return self.add("forin", ns=list(ns), es=list(es), b=b)
    def ret(self, es): return self.add("return", es=list(es))
    def brk(self): return self.add("break")
    def goto(self, lab): return self.add("goto", lab=lab)
    def label(self, lab): return self.add("label", lab=lab)

    def emit(self, args):
        return self.callstat(self.call(self.id("emit"), args))


# --------------------------------------------------------------------------
# rendering

def lua_string(bs):
    out = ['"']
    for b in bs:
        if b == 34:
            out.append('\\"')
        elif b == 92:
            out.append("\\\\")
        elif 32 <= b < 127:
            out.append(chr(b))
        else:
            out.append("\\%03d" % b)
    out.append('"')
    return "".join(out)


class Renderer:
    """Canonical layout: one statement per line; every node gets
    ln = [line of first token, line of last token]."""

    def __init__(self, prog, rng=None, extra_parens=0.0, layout="canon", semicolons=0.0):
        self.p = prog
        self.n = prog.nodes
        self.lines = [""]
        self.rng = rng
        self.extra_parens = extra_parens
        self.semicolons = semicolons
        self.layout = layout          # canon | shift (blank/comment lines between lines) | spread (line breaks inside statements)
        self.cur_indent = 0

    COMMENTS = ["", "", "-- c", "--[[ a", "--[==[ x ]==]", "\t", "-- [[ not long", "--[[x]] --[[y]]", "--[= short", "--[ short", "--[==", "--]] x", "--[=[ ]] ]=]"]

    def filler(self):
        """blank lines and comments of every form between two lines (shift layouts)"""
        if self.layout not in ("shift", "spread") or not self.rng:
            return
        for _ in range(self.rng.choice([0, 0, 1, 1, 2, 3])):
            c = self.rng.choice(self.COMMENTS)
            if c == "--[[ a":
                self.lines.append("--[[ a")
                self.lines.append("   multi-line comment ]]")
            else:
                self.lines.append(c)

    def params(self, f, skip=0):
        ps = f["ps"][skip:] + (["..."] if f["va"] else [])
        for i, x in enumerate(ps):
            if i:
                self.w(", ")
                self.brk()
            self.w(x)
        if ps:
            self.brk()      # the ')' may sit on a line of its own

    def sugar_path(self, nd):
        """names a.b.c of the single target when the assignment is marked as function-statement sugar"""
        if not nd.get("sugar") or len(nd["ts"]) != 1 or len(nd["es"]) != 1 or self.n[nd["es"][0]]["k"] != "func":
            return None
        path, t = [], self.n[nd["ts"][0]]
        while t["k"] == "index" and t.get("dot"):
            path.append(bytes(self.n[t["i"]]["s"]).decode())
            t = self.n[t["o"]]
        if t["k"] != "id":
            return None
        path.append(t["n"])
        return path[::-1]

    def brk(self):
        """optional line break inside an expression (spread layout)"""
        if self.layout == "spread" and self.rng and self.rng.random() < 0.45:
            if self.rng.random() < 0.3:
                self.w(" -- trailing")
            self.lines.append("  " * (self.cur_indent + 2))

    @property
    def line(self):
        return len(self.lines)

    def w(self, s):
        self.lines[-1] += s

    def nl(self, indent):
        self.filler()
        self.cur_indent = indent
        self.lines.append("  " * indent)

    def prec(self, e):
        nd = self.n[e]
        k = nd["k"]
        if k == "bin":
            return PREC[nd["op"]]
        if k in ("and", "or"):
            return PREC[k]
        if k == "un":
            return 7
        if k == "num" and nd["v"] < 0:
            return 7
        return 9

    def expr(self, e, indent, minprec=0, strict=False):
        """render e; parenthesise when its precedence is below minprec (or equal, if strict)"""
        nd = self.n[e]
        p = self.prec(e)
        need = p < minprec or (strict and p == minprec)
        if not need and p < 9 and self.rng and self.extra_parens and self.rng.random() < self.extra_parens:
            need = True
        start = self.line
        if need:
            self.w("(")
        self._expr(e, nd, indent)
        if need:
            self.w(")")
        nd["ln"] = [start, self.line]

    def prefix(self, e, indent):
        nd = self.n[e]
        if nd["k"] in ("id", "index", "call", "method", "paren"):
            self.expr(e, indent)
        else:
            start = self.line
            self.w("(")
            self._expr(e, nd, indent)
            self.w(")")
            nd["ln"] = [start, self.line]

    def exprlist(self, es, indent):
        for i, e in enumerate(es):
            if i:
                self.w(", ")
                self.brk()
            self.expr(e, indent)

    def _expr(self, e, nd, indent):
        k = nd["k"]
        if k in ("nil", "true", "false"):
            self.w(k)
        elif k == "num":
            self.w(str(nd["v"]))
        elif k == "str":
            self.w(lua_string(nd["s"]))
        elif k == "dots":
            self.w("...")
        elif k == "id":
            self.w(nd["n"])
        elif k == "index":
            self.prefix(nd["o"], indent)
            if nd.get("dot"):
                self.w("." + bytes(self.n[nd["i"]]["s"]).decode())
                self.n[nd["i"]]["ln"] = [self.line, self.line]
            else:
                self.w("[")
                self.expr(nd["i"], indent)
                self.w("]")
        elif k == "call":
            self.prefix(nd["f"], indent)
            self.w("(")
            self.exprlist(nd["as"], indent)
            self.w(")")
        elif k == "method":
            self.prefix(nd["o"], indent)
            self.w(":" + bytes(nd["nb"]).decode() + "(")
            self.exprlist(nd["as"], indent)
            self.w(")")
        elif k == "func":
            self.w("function(")
            self.params(nd)
            self.w(")")
            self.blockbody(nd["b"], indent + 1)
            self.nl(indent)
            self.w("end")
        elif k == "bin":
            op = nd["op"]
            p = PREC[op]
            self.expr(nd["l"], indent, p, strict=(op in RIGHT))
            self.w(" " + op + " ")
            self.brk()
            self.expr(nd["r"], indent, p, strict=(op not in RIGHT))
        elif k in ("and", "or"):
            p = PREC[k]
            self.expr(nd["l"], indent, p)
            self.w(" " + k + " ")
            self.brk()
            self.expr(nd["r"], indent, p, strict=True)
        elif k == "un":
            op = nd["op"]
            self.w("not " if op == "not" else op)
            if op == "-":
                self.w(" ")
            self.expr(nd["e"], indent, 7)
        elif k == "paren":
            self.w("(")
            self.expr(nd["e"], indent)
            self.w(")")
        elif k == "table":
            self.w("{")
            for i, it in enumerate(nd["it"]):
                if i:
                    self.w(", ")
                if it["t"] == "k":
                    kn = self.n[it["kk"]]
                    if kn["k"] == "str" and kn.get("name"):
                        self.w(bytes(kn["s"]).decode() + " = ")
                        kn["ln"] = [self.line, self.line]
                    else:
                        self.w("[")
                        self.expr(it["kk"], indent)
                        self.w("] = ")
                self.expr(it["v"], indent)
            self.w("}")
        else:
            raise ValueError("expr kind " + k)

    def blockbody(self, b, indent):
        nd = self.n[b]
        start = self.line
        for j, s in enumerate(nd["ss"]):
            prev_end = self.line
            self.nl(indent)
            at = self.line
            self.stmt(s, indent)
            self.disambiguate(j, at, prev_end)
        nd["ln"] = [start, self.line]

    def disambiguate(self, j, at, prev_end):
        """a statement starting with '(' would continue the previous statement's
        expression (f\n(g)() is one call): terminate the previous one with ';'
        (on the line where it ended - lines in between may be comments)"""
        if j > 0 and self.lines[at - 1].lstrip().startswith("(") and not self.lines[prev_end - 1].rstrip().endswith(";"):
            self.lines[prev_end - 1] += ";"

    def stmt(self, s, indent):
        nd = self.n[s]
        k = nd["k"]
        start = self.line
        hdr_end = None
        if k == "local":
            self.w("local " + ", ".join(nd["ns"]))
            if nd["es"]:
                self.w(" = ")
                self.exprlist(nd["es"], indent)
        elif k == "localfunction":
            f = self.n[nd["f"]]
            self.w("local function %s(" % nd["n"])
            self.params(f)
            self.w(")")
            hdr_end = self.line
            self.blockbody(f["b"], indent + 1)
            self.nl(indent)
            self.w("end")
            f["ln"] = [start, self.line]
        elif k == "assign" and self.sugar_path(nd):
            # function statement sugar: function a.b.c(...) / function a.b:c(...)  ==  a.b.c = function([self,] ...)
            path = self.sugar_path(nd)
            f = self.n[nd["es"][0]]
            meth = nd.get("sugar") == "method" and len(path) > 1 and f["ps"][:1] == ["self"]
            self.w("function " + ".".join(path[:-1]) + ((":" if meth else ".") if len(path) > 1 else "") + path[-1] + "(")
            self.params(f, skip=1 if meth else 0)
            self.w(")")
            hdr_end = self.line
            self.blockbody(f["b"], indent + 1)
            self.nl(indent)
            self.w("end")
            f["ln"] = [start, self.line]
        elif k == "assign":
            self.exprlist(nd["ts"], indent)
            self.w(" = ")
            self.exprlist(nd["es"], indent)
        elif k == "callstat":
            self.expr(nd["e"], indent)
        elif k == "do":
            self.w("do")
            hdr_end = self.line
            self.blockbody(nd["b"], indent + 1)
            self.nl(indent)
            self.w("end")
        elif k == "while":
            self.w("while ")
            self.expr(nd["c"], indent)
            self.w(" do")
            hdr_end = self.line
            self.blockbody(nd["b"], indent + 1)
            self.nl(indent)
            self.w("end")
        elif k == "repeat":
            self.w("repeat")
            hdr_end = self.line
            self.blockbody(nd["b"], indent + 1)
            self.nl(indent)
            self.w("until ")
            self.expr(nd["c"], indent)
        elif k == "if":
            for i, (c, b) in enumerate(zip(nd["cs"], nd["bs"])):
                if i:
                    self.nl(indent)
                self.w("if " if i == 0 else "elseif ")
                self.expr(c, indent)
                self.w(" then")
                if i == 0:
                    hdr_end = self.line
                self.blockbody(b, indent + 1)
            if nd["el"]:
                self.nl(indent)
                self.w("else")
                self.blockbody(nd["el"], indent + 1)
            self.nl(indent)
            self.w("end")
        elif k == "fornum":
            self.w("for %s = " % nd["v"])
            self.expr(nd["e1"], indent)
            self.w(", ")
            self.expr(nd["e2"], indent)
            if nd["e3"]:
                self.w(", ")
                self.expr(nd["e3"], indent)
            self.w(" do")
            hdr_end = self.line
            self.blockbody(nd["b"], indent + 1)
            self.nl(indent)
            self.w("end")
        elif k == "forin":
            self.w("for %s in " % ", ".join(nd["ns"]))
            self.exprlist(nd["es"], indent)
            self.w(" do")
            hdr_end = self.line
            self.blockbody(nd["b"], indent + 1)
            self.nl(indent)
            self.w("end")
        elif k == "return":
            self.w("return")
            if nd["es"]:
                self.w(" ")
                self.exprlist(nd["es"], indent)
        elif k == "break":
            self.w("break")
        elif k == "goto":
            self.w("goto " + nd["lab"])
        elif k == "label":
            self.w("::" + nd["lab"] + "::")
        else:
            raise ValueError("stmt kind " + k)
        nd["ln"] = [start, hdr_end or self.line]
        if self.semicolons and self.rng and self.rng.random() < self.semicolons:
            self.w(";")            # optional statement terminator

    def render(self, root):
        nd = self.n[root]
        first = True
        for j, s in enumerate(nd["ss"]):
            prev_end = self.line
            if not first:
                self.nl(0)
            first = False
            at = self.line
            self.stmt(s, 0)
            self.disambiguate(j, at, prev_end)
        nd["ln"] = [1, self.line]
        return "\n".join(self.lines) + "\n"


def lua_tokens(line):
    """tokens of one line of renderer output (no comments, no long strings)"""
    out, i, n = [], 0, len(line)
    while i < n:
        c = line[i]
        if c in " \t":
            i += 1
        elif c == '"':
            j = i + 1
            while line[j] != '"':
                j += 2 if line[j] == "\\" else 1
            out.append(line[i:j + 1])
            i = j + 1
        elif c.isalpha() or c == "_":
            j = i
            while j < n and (line[j].isalnum() or line[j] == "_"):
                j += 1
            out.append(line[i:j])
            i = j
        elif c.isdigit():
            j = i
            while j < n and (line[j].isalnum() or line[j] == "."):
                j += 1
            out.append(line[i:j])
            i = j
        else:
            for sym in ("...", "..", "==", "~=", "<=", ">=", "::"):
                if line.startswith(sym, i):
                    out.append(sym)
                    i += len(sym)
                    break
            else:
                out.append(c)
                i += 1
    return out


def relayout(prog, root, src, layout):
    """oneline: the whole program on line 1; tokline: one token per line (a '(' stays on
    the line of the token before it: a line break there is ambiguous in Lua 5.1)"""
    lines = src.split("\n")
    if lines and lines[-1] == "":
        lines.pop()
    newlines, first, last = [], {}, {}
    if layout == "cmtline":
        # long comments between the tokens of a line: what follows the closing bracket is still program text
        cm = ["--[[c]]", "--[==[ ]] ]==]", "--[[ -- ]]", "--[=[]=]", "--[[x]]--[[y]]"]
        out = []
        for i, l in enumerate(lines):
            toks = lua_tokens(l)
            ind = l[:len(l) - len(l.lstrip())]
            parts = []
            for k, t in enumerate(toks):
                if k and (i * 7 + k * 3) % 4 == 0:
                    parts.append(cm[(i + k) % len(cm)])
                parts.append(t)
            if toks and i % 3 == 0:
                parts.insert(0, cm[i % len(cm)])
            # every blank C's isspace knows (except the line ends): space, tab, form feed, vertical tab
            blanks = [" ", "\t", " ", "\f", "  ", "\v", " \t "]
            line = ind
            for k, t in enumerate(parts):
                line += (blanks[(i * 5 + k) % len(blanks)] if k else "") + t
            out.append(line + ("\f" if i % 4 == 1 else ""))
        return "\n".join(out) + "\n"
    if layout == "oneline":
        for i in range(1, len(lines) + 1):
            first[i] = last[i] = 1
        newsrc = " ".join(l.strip() for l in lines) + "\n"
    else:
        for i, l in enumerate(lines, 1):
            toks = lua_tokens(l)
            first[i] = len(newlines) + 1
            for t in toks:
                if t in ("(", "[", "{", ".", ":") and newlines and len(newlines) >= first[i]:
                    newlines[-1] += " " + t if t in ("(", "{") else t
                    if t in (".", ":"):
                        newlines[-1] += ""      # name follows on the next line (allowed)
                else:
                    newlines.append(t)
            if not toks:
                newlines.append("")
            last[i] = len(newlines)
        newsrc = "\n".join(newlines) + "\n"
    for nd in prog.nodes[1:]:
        lo, hi = nd.get("ln", [0, 0])
        if lo:
            nd["ln"] = [first[lo], last[hi]]
    return newsrc


def render(prog, root, rng=None, extra_parens=0.0, layout="canon", eol="\n", semicolons=0.0):
    r = Renderer(prog, rng, extra_parens, "canon" if layout in ("oneline", "tokline", "cmtline") else layout, semicolons)
    src = r.render(root)
    for nd in prog.nodes[1:]:
        if "ln" not in nd:
            nd["ln"] = [0, 0]
    if layout in ("oneline", "tokline", "cmtline"):
        src = relayout(prog, root, src, layout)
    # the property's rule: an error names a line of the innermost statement (the line itself when
    # the statement is on one line).  A statement can span lines in every layout (an embedded
    # function body), so expression spans are always widened to their statement / block header.
    widen_to_statement(prog, root)
    if eol != "\n":
        src = src.replace("\n", eol)
    return src


EXPR_FIELDS = {"index": ["o", "i"], "call": ["f"], "method": ["o"], "bin": ["l", "r"], "and": ["l", "r"], "or": ["l", "r"],
               "un": ["e"], "paren": ["e"]}


def children_exprs(nd):
    k = nd["k"]
    out = [nd[f] for f in EXPR_FIELDS.get(k, [])]
    if k in ("call", "method"):
        out += nd["as"]
    if k == "table":
        for it in nd["it"]:
            if it["kk"]:
                out.append(it["kk"])
            out.append(it["v"])
    return out


def stmt_exprs(nd):
    k = nd["k"]
    if k == "local":
        return nd["es"]
    if k == "assign":
        return nd["ts"] + nd["es"]
    if k == "callstat":
        return [nd["e"]]
    if k in ("while", "repeat"):
        return [nd["c"]]
    if k == "if":
        return nd["cs"]
    if k == "fornum":
        return [x for x in (nd["e1"], nd["e2"], nd["e3"]) if x]
    if k == "forin":
        return nd["es"]
    if k == "return":
        return nd["es"]
    return []


def stmt_blocks(nd):
    k = nd["k"]
    if k in ("do", "while", "repeat", "fornum", "forin"):
        return [nd["b"]]
    if k == "if":
        return nd["bs"] + ([nd["el"]] if nd["el"] else [])
    return []


def walk(prog, root, on_stmt=None, on_expr=None, on_func=None):
    """generic AST walk: on_stmt(stmt_id), on_expr(expr_id, stmt_id), on_func(func_id, enter)"""
    n = prog.nodes

    def expr(e, sid):
        nd = n[e]
        if on_expr:
            on_expr(e, sid)
        if nd["k"] == "func":
            if on_func:
                on_func(e, True)
            block(nd["b"])
            if on_func:
                on_func(e, False)
            return
        for c in children_exprs(nd):
            expr(c, sid)

    def block(b):
        for s in n[b]["ss"]:
            nd = n[s]
            if on_stmt:
                on_stmt(s)
            if nd["k"] == "localfunction":
                expr(nd["f"], s)
                continue
            for e in stmt_exprs(nd):
                expr(e, s)
            for bb in stmt_blocks(nd):
                block(bb)
    block(root)


def widen_to_statement(prog, root):
    """C17 membership rule: an error must name a line of the innermost statement (or
    block header); expression nodes get the span of that statement/header.  The
    until-condition of repeat is rendered after the body and keeps its own span."""
    n = prog.nodes
    spans = {}

    def on_expr(e, sid):
        nd, sd = n[e], n[sid]
        if nd["k"] == "func" or sd["k"] == "repeat" or sd["k"] == "localfunction":
            return
        lo, hi = sd["ln"]
        # a statement containing function bodies spans them; keep to the header part when known
        if nd["ln"][0] >= lo and nd["ln"][1] <= hi:
            spans[e] = [min(lo, nd["ln"][0]), max(hi, nd["ln"][1])]
    walk(prog, root, on_expr=on_expr)
    # expressions inside a function body nested in a statement belong to their own statements:
    # walk() reports them with the inner statement id, so spans are already innermost
    for e, sp in spans.items():
        n[e]["ln"] = sp


def finalize(prog, root):
    """adds the upvalue names of every function (uv, sorted) and a final `names`
    node mapping every identifier to its bytes (used by the debug builtins)"""
    n = prog.nodes
    names = set()
    # scope resolution
    funcs = [{"id": 0, "scopes": [set()], "uv": set()}]

    def declare(name):
        funcs[-1]["scopes"][-1].add(name)
        names.add(name)

    def resolve(name):
        names.add(name)
        for depth in range(len(funcs) - 1, -1, -1):
            if any(name in sc for sc in funcs[depth]["scopes"]):
                for f in funcs[depth + 1:]:
                    f["uv"].add(name)
                return
        # global

    def do_expr(e):
        nd = n[e]
        k = nd["k"]
        if k == "id":
            resolve(nd["n"])
        elif k == "func":
            funcs.append({"id": e, "scopes": [set(nd["ps"]) | ({"arg"} if nd["va"] and not nd["ud"] else set())], "uv": set()})
            names.update(nd["ps"])
            names.add("arg")
            do_block(nd["b"], new_scope=False)
            f = funcs.pop()
            nd["uv"] = sorted(f["uv"])
        else:
            for c in children_exprs(nd):
                do_expr(c)

    def do_block(b, new_scope=True, extra=None):
        if new_scope:
            funcs[-1]["scopes"].append(set(extra or []))
        for s in n[b]["ss"]:
            nd = n[s]
            k = nd["k"]
            if k == "local":
                for e in nd["es"]:
                    do_expr(e)
                for nm in nd["ns"]:
                    declare(nm)
            elif k == "localfunction":
                declare(nd["n"])
                do_expr(nd["f"])
            elif k == "repeat":
                funcs[-1]["scopes"].append(set())
                do_block(nd["b"], new_scope=False)
                do_expr(nd["c"])
                funcs[-1]["scopes"].pop()
            elif k == "fornum":
                for e in stmt_exprs(nd):
                    do_expr(e)
                names.add(nd["v"])
                do_block(nd["b"], extra=[nd["v"]])
            elif k == "forin":
                for e in nd["es"]:
                    do_expr(e)
                names.update(nd["ns"])
                do_block(nd["b"], extra=nd["ns"])
            else:
                for e in stmt_exprs(nd):
                    do_expr(e)
                for bb in stmt_blocks(nd):
                    do_block(bb)
        if new_scope:
            funcs[-1]["scopes"].pop()
    do_block(root, new_scope=False)
    for nd in n[1:]:
        if nd["k"] == "func" and "uv" not in nd:
            nd["uv"] = []
    if n[-1]["k"] == "names":
        n.pop()
    prog.add("names", tab={nm: sbytes(nm) for nm in sorted(names)} or {"_": [95]})


def to_record(pid, prog, root, src=None):
    return {"id": pid, "root": root, "nodes": prog.nodes[1:], "src": src}
