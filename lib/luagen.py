"""Flat-AST program builder, renderer (AST -> Lua source with token lines) and
seeded type-directed generators.  The AST (node table) is the ground truth that
LuaSem interprets; the rendered text goes through the REAL lexer, parser,
compiler and VM."""
import random

PREC = {"or": 1, "and": 2, "<": 3, ">": 3, "<=": 3, ">=": 3, "~=": 3, "==": 3, "..": 4,
        "+": 5, "-": 5, "*": 6, "/": 6, "%": 6, "un": 7, "^": 8}
RIGHT = {"..", "^"}


def sbytes(s):
    return list(s.encode("latin-1")) if isinstance(s, str) else list(s)


class Prog:
    def __init__(self):
        self.nodes = [None]          # 1-based

    def add(self, k, **kw):
        kw["k"] = k
        self.nodes.append(kw)
        return len(self.nodes) - 1

    # ---- expression constructors
    def nil(self): return self.add("nil")
    def true(self): return self.add("true")
    def false(self): return self.add("false")
    def num(self, v): return self.add("num", v=v)
    def str(self, s): return self.add("str", s=sbytes(s))
    def dots(self): return self.add("dots")
    def id(self, n): return self.add("id", n=n, nb=sbytes(n))
    def index(self, o, i): return self.add("index", o=o, i=i)
    def field(self, o, name): return self.add("index", o=o, i=self.str(name), dot=True)
    def call(self, f, args): return self.add("call", f=f, **{"as": list(args)})
    def method(self, o, name, args): return self.add("method", o=o, nb=sbytes(name), **{"as": list(args)})
    def func(self, ps, body, va=False, ud=False): return self.add("func", ps=list(ps), va=va, ud=ud, b=body)
    def bin(self, op, l, r): return self.add("bin", op=op, l=l, r=r)
    def and_(self, l, r): return self.add("and", l=l, r=r)
    def or_(self, l, r): return self.add("or", l=l, r=r)
    def un(self, op, e): return self.add("un", op=op, e=e)
    def paren(self, e): return self.add("paren", e=e)
    def table(self, items):
        """items: list of ("p", v) or ("k", key, v)"""
        it = []
        for x in items:
            if x[0] == "p":
                it.append({"t": "p", "kk": 0, "v": x[1]})
            else:
                it.append({"t": "k", "kk": x[1], "v": x[2]})
        return self.add("table", it=it)

    # ---- statement constructors
    def block(self, ss):
        ss = list(ss)
        lb = []
        ndecl = 0
        for i, s in enumerate(ss):
            nd = self.nodes[s]
            if nd["k"] == "label":
                lb.append([nd["lab"], i + 1, ndecl])
            elif nd["k"] == "local":
                ndecl += len(nd["ns"])
            elif nd["k"] == "localfunction":
                ndecl += 1
        return self.add("block", ss=ss, lb=lb)

    def local(self, ns, es): return self.add("local", ns=list(ns), es=list(es))
    def localfunction(self, n, f): return self.add("localfunction", n=n, f=f)
    def assign(self, ts, es): return self.add("assign", ts=list(ts), es=list(es))
    def callstat(self, e): return self.add("callstat", e=e)
    def do(self, b): return self.add("do", b=b)
    def while_(self, c, b): return self.add("while", c=c, b=b)
    def repeat(self, b, c): return self.add("repeat", b=b, c=c)
    def if_(self, cs, bs, el=0): return self.add("if", cs=list(cs), bs=list(bs), el=el)
    def fornum(self, v, e1, e2, e3, b): return self.add("fornum", v=v, e1=e1, e2=e2, e3=e3 or 0, b=b)
    def forin(self, ns, es, b): return self.add("forin", ns=list(ns), es=list(es), b=b)
    def ret(self, es): return self.add("return", es=list(es))
    def brk(self): return self.add("break")
    def goto(self, lab): return self.add("goto", lab=lab)
    def label(self, lab): return self.add("label", lab=lab)

    def emit(self, args):
        return self.callstat(self.call(self.id("emit"), args))


# --------------------------------------------------------------------------
# rendering

def lua_string(bs):
    out = ['"']
    for b in bs:
        if b == 34:
            out.append('\\"')
        elif b == 92:
            out.append("\\\\")
        elif 32 <= b < 127:
            out.append(chr(b))
        else:
            out.append("\\%03d" % b)
    out.append('"')
    return "".join(out)


class Renderer:
    """Canonical layout: one statement per line; every node gets
    ln = [line of first token, line of last token]."""

    def __init__(self, prog, rng=None, extra_parens=0.0):
        self.p = prog
        self.n = prog.nodes
        self.lines = [""]
        self.rng = rng
        self.extra_parens = extra_parens

    @property
    def line(self):
        return len(self.lines)

    def w(self, s):
        self.lines[-1] += s

    def nl(self, indent):
        self.lines.append("  " * indent)

    def prec(self, e):
        nd = self.n[e]
        k = nd["k"]
        if k == "bin":
            return PREC[nd["op"]]
        if k in ("and", "or"):
            return PREC[k]
        if k == "un":
            return 7
        if k == "num" and nd["v"] < 0:
            return 7
        return 9

    def expr(self, e, indent, minprec=0, strict=False):
        """render e; parenthesise when its precedence is below minprec (or equal, if strict)"""
        nd = self.n[e]
        p = self.prec(e)
        need = p < minprec or (strict and p == minprec)
        if not need and p < 9 and self.rng and self.extra_parens and self.rng.random() < self.extra_parens:
            need = True
        start = self.line
        if need:
            self.w("(")
        self._expr(e, nd, indent)
        if need:
            self.w(")")
        nd["ln"] = [start, self.line]

    def prefix(self, e, indent):
        nd = self.n[e]
        if nd["k"] in ("id", "index", "call", "method", "paren"):
            self.expr(e, indent)
        else:
            start = self.line
            self.w("(")
            self._expr(e, nd, indent)
            self.w(")")
            nd["ln"] = [start, self.line]

    def exprlist(self, es, indent):
        for i, e in enumerate(es):
            if i:
                self.w(", ")
            self.expr(e, indent)

    def _expr(self, e, nd, indent):
        k = nd["k"]
        if k in ("nil", "true", "false"):
            self.w(k)
        elif k == "num":
            self.w(str(nd["v"]))
        elif k == "str":
            self.w(lua_string(nd["s"]))
        elif k == "dots":
            self.w("...")
        elif k == "id":
            self.w(nd["n"])
        elif k == "index":
            self.prefix(nd["o"], indent)
            if nd.get("dot"):
                self.w("." + bytes(self.n[nd["i"]]["s"]).decode())
                self.n[nd["i"]]["ln"] = [self.line, self.line]
            else:
                self.w("[")
                self.expr(nd["i"], indent)
                self.w("]")
        elif k == "call":
            self.prefix(nd["f"], indent)
            self.w("(")
            self.exprlist(nd["as"], indent)
            self.w(")")
        elif k == "method":
            self.prefix(nd["o"], indent)
            self.w(":" + bytes(nd["nb"]).decode() + "(")
            self.exprlist(nd["as"], indent)
            self.w(")")
        elif k == "func":
            self.w("function(" + ", ".join(nd["ps"] + (["..."] if nd["va"] else [])) + ")")
            self.blockbody(nd["b"], indent + 1)
            self.nl(indent)
            self.w("end")
        elif k == "bin":
            op = nd["op"]
            p = PREC[op]
            self.expr(nd["l"], indent, p, strict=(op in RIGHT))
            self.w(" " + op + " ")
            self.expr(nd["r"], indent, p, strict=(op not in RIGHT))
        elif k in ("and", "or"):
            p = PREC[k]
            self.expr(nd["l"], indent, p)
            self.w(" " + k + " ")
            self.expr(nd["r"], indent, p, strict=True)
        elif k == "un":
            op = nd["op"]
            self.w("not " if op == "not" else op)
            if op == "-":
                self.w(" ")
            self.expr(nd["e"], indent, 7)
        elif k == "paren":
            self.w("(")
            self.expr(nd["e"], indent)
            self.w(")")
        elif k == "table":
            self.w("{")
            for i, it in enumerate(nd["it"]):
                if i:
                    self.w(", ")
                if it["t"] == "k":
                    kn = self.n[it["kk"]]
                    if kn["k"] == "str" and kn.get("name"):
                        self.w(bytes(kn["s"]).decode() + " = ")
                        kn["ln"] = [self.line, self.line]
                    else:
                        self.w("[")
                        self.expr(it["kk"], indent)
                        self.w("] = ")
                self.expr(it["v"], indent)
            self.w("}")
        else:
            raise ValueError("expr kind " + k)

    def blockbody(self, b, indent):
        nd = self.n[b]
        start = self.line
        for j, s in enumerate(nd["ss"]):
            self.nl(indent)
            at = self.line
            self.stmt(s, indent)
            self.disambiguate(j, at)
        nd["ln"] = [start, self.line]

    def disambiguate(self, j, at):
        """a statement starting with '(' would continue the previous statement's
        expression (f\n(g)() is one call): terminate the previous one with ';'"""
        if j > 0 and self.lines[at - 1].lstrip().startswith("("):
            self.lines[at - 2] += ";"

    def stmt(self, s, indent):
        nd = self.n[s]
        k = nd["k"]
        start = self.line
        hdr_end = None
        if k == "local":
            self.w("local " + ", ".join(nd["ns"]))
            if nd["es"]:
                self.w(" = ")
                self.exprlist(nd["es"], indent)
        elif k == "localfunction":
            f = self.n[nd["f"]]
            self.w("local function %s(%s)" % (nd["n"], ", ".join(f["ps"] + (["..."] if f["va"] else []))))
            hdr_end = self.line
            self.blockbody(f["b"], indent + 1)
            self.nl(indent)
            self.w("end")
            f["ln"] = [start, self.line]
        elif k == "assign":
            self.exprlist(nd["ts"], indent)
            self.w(" = ")
            self.exprlist(nd["es"], indent)
        elif k == "callstat":
            self.expr(nd["e"], indent)
        elif k == "do":
            self.w("do")
            hdr_end = self.line
            self.blockbody(nd["b"], indent + 1)
            self.nl(indent)
            self.w("end")
        elif k == "while":
            self.w("while ")
            self.expr(nd["c"], indent)
            self.w(" do")
            hdr_end = self.line
            self.blockbody(nd["b"], indent + 1)
            self.nl(indent)
            self.w("end")
        elif k == "repeat":
            self.w("repeat")
            hdr_end = self.line
            self.blockbody(nd["b"], indent + 1)
            self.nl(indent)
            self.w("until ")
            self.expr(nd["c"], indent)
        elif k == "if":
            for i, (c, b) in enumerate(zip(nd["cs"], nd["bs"])):
                if i:
                    self.nl(indent)
                self.w("if " if i == 0 else "elseif ")
                self.expr(c, indent)
                self.w(" then")
                if i == 0:
                    hdr_end = self.line
                self.blockbody(b, indent + 1)
            if nd["el"]:
                self.nl(indent)
                self.w("else")
                self.blockbody(nd["el"], indent + 1)
            self.nl(indent)
            self.w("end")
        elif k == "fornum":
            self.w("for %s = " % nd["v"])
            self.expr(nd["e1"], indent)
            self.w(", ")
            self.expr(nd["e2"], indent)
            if nd["e3"]:
                self.w(", ")
                self.expr(nd["e3"], indent)
            self.w(" do")
            hdr_end = self.line
            self.blockbody(nd["b"], indent + 1)
            self.nl(indent)
            self.w("end")
        elif k == "forin":
            self.w("for %s in " % ", ".join(nd["ns"]))
            self.exprlist(nd["es"], indent)
            self.w(" do")
            hdr_end = self.line
            self.blockbody(nd["b"], indent + 1)
            self.nl(indent)
            self.w("end")
        elif k == "return":
            self.w("return")
            if nd["es"]:
                self.w(" ")
                self.exprlist(nd["es"], indent)
        elif k == "break":
            self.w("break")
        elif k == "goto":
            self.w("goto " + nd["lab"])
        elif k == "label":
            self.w("::" + nd["lab"] + "::")
        else:
            raise ValueError("stmt kind " + k)
        nd["ln"] = [start, hdr_end or self.line]

    def render(self, root):
        nd = self.n[root]
        first = True
        for j, s in enumerate(nd["ss"]):
            if not first:
                self.nl(0)
            first = False
            at = self.line
            self.stmt(s, 0)
            self.disambiguate(j, at)
        nd["ln"] = [1, self.line]
        return "\n".join(self.lines) + "\n"


def render(prog, root, rng=None, extra_parens=0.0):
    r = Renderer(prog, rng, extra_parens)
    src = r.render(root)
    for nd in prog.nodes[1:]:
        if "ln" not in nd:
            nd["ln"] = [0, 0]
    return src


def to_record(pid, prog, root, src=None):
    return {"id": pid, "root": root, "nodes": prog.nodes[1:], "src": src}
