#!/usr/bin/env python3
"""Regenerates /verif/MANIFEST.json from the table below (single source of truth)."""
import json, os

ROOT = os.path.dirname(os.path.dirname(os.path.abspath(__file__)))
REPO_HOOK_COMMITS = ["verif: add read-only accessors for the verification harness (build tag verif)"]

CHECKS = {
    "C09": dict(
        technique="TLA+ refinement TableImpl=>Table checked by TLC; histories exported from the spec's state graph replayed on the real table; recorded traces validated by TableTrace.tla",
        category="model_checking",
        text="TLC proves on the transcribed algorithm (array/dict/keys routing, Next) that lookups agree with the abstract map, Len is a border and stepwise traversal under clears/overwrites is complete, within small constants; every transition of that state graph is replayed on the real LTable through every access path (Go API, LState API, Lua operators) and the observed reads/lengths/traversals are validated by TLC against the abstract Table spec, plus seeded random long histories.",
        design_ref="DESIGN.md section 4 C09",
        note="Trusted: TLC, the Go harness' projection (reads through RawGet/Lua/typed accessors), Json module. Bounded: keys universe of 13 tokens incl. both sides of MaxArrayIndex (lowered to 5 in one configuration), array length <= 4 in GEN, random histories <= 200 ops.",
        specs=["Table", "TableImpl", "TableMC", "TableTrace"]),
}

CHECKS["C01"] = dict(
    technique="TLA+ reference semantics (LuaSem, CEK machine) evaluated step by step by TLC on every generated program; the real interpreter's recorded trace must be the trace the spec defines",
    category="model_checking",
    text="Each generated program (random type-directed; multiple-assignment shapes; operator x operand-kind x destination-kind; padded with many locals/constants) is run on the real lexer+parser+compiler+VM and its observable trace (emit values, results, error line) is validated by TLC against the explicit TLA+ semantics LuaSem; every candidate is reproduced on a fresh interpreter before it is reported.",
    design_ref="DESIGN.md section 3.4, 4 C01",
    note="Trusted: TLC, the Go runner (emit/outcome normalisation), the Python AST renderer. Bounded: integer-valued numbers |n|<2^30 (other runs are inconclusive and counted), programs of ~20-200 nodes, seeded sampling of the shape families (exhaustive 2-target assignments in the thorough tier).",
    specs=["LuaValues", "LuaNames", "LuaSem", "LuaSemTrace"])

LSEM_NOTE = "Trusted: TLC, the Go runner (emit/outcome normalisation), the Python AST renderer. Bounded: integer-valued numbers |n|<2^30 (other runs are inconclusive and counted), seeded sampling of the stated families."
CHECKS["C02"] = dict(
    technique="LuaSem call rules (Adjust by context, varargs, arg table, __call, method sugar, host callees) evaluated by TLC on enumerated call shapes; real traces validated by LuaSemTrace",
    category="model_checking",
    text="The product #params x parameter style x #args x 21 result contexts x #results x callee kind (Lua, __call object, host, method, host re-entry) is enumerated (sampled in the quick tier), each shape rendered to Lua, run on the real interpreter and its trace validated by TLC against LuaSem; plus random nestings, random programs with functions, and tail-call loops 15x deeper than CallStackSize on both call-stack implementations.",
    design_ref="DESIGN.md section 4 C02", note=LSEM_NOTE, specs=["LuaSem", "LuaSemTrace"])
CHECKS["C03"] = dict(
    technique="LuaSem variable cells and fenv rules evaluated by TLC on the capture x exit-path family; real traces validated by LuaSemTrace",
    category="model_checking",
    text="Every valid combination of (construct in which a closure is created) x (route by which the scope is left, incl. errors caught by pcall/xpcall and coroutine suspension/death) x (sharing pattern) is rendered with register churn before the closures are used; the real trace must equal the one LuaSem defines (fresh cell per declaration execution, shared between closures, surviving the scope). fenv programs and random closure programs likewise.",
    design_ref="DESIGN.md section 4 C03", note=LSEM_NOTE, specs=["LuaSem", "LuaSemTrace"])
CHECKS["C04"] = dict(
    technique="LuaSem metatable rules (manual 2.8) evaluated by TLC on the operand-type x operator x handler-presence family; real traces validated by LuaSemTrace",
    category="model_checking",
    text="Handlers emit their tag and the operands they receive; for operand pairs over 11 value kinds, every binary operator, 5 handler-presence configurations and several handler result kinds the real trace (handler chosen, operand order, result conversion, error or not) must be the one LuaSem defines; __index/__newindex chains, __call positions, <= fallback, unary minus, tostring/__metatable likewise.",
    design_ref="DESIGN.md section 4 C04", note=LSEM_NOTE, specs=["LuaSem", "LuaSemTrace"])

CHECKS["C05"] = dict(
    technique="fault enumeration at every VM instruction boundary, each faulted run explained by TLC through fault injection into the TLA+ semantics (LuaSemFault), non-decreasing in the fault point; error-value family validated by LuaSemTrace",
    category="fault_enumeration",
    text="For every corpus program (protected bodies under pcall/xpcall/nested/metamethod/iterator/Go-side PCall) the real VM is run once per dispatch poll with a one-shot fault raised exactly there; TLC explores the fault-free run of the TLA+ semantics and, at every class of step boundaries, the run with the fault injected there; every real fault point must be explained by an injection point and the assignment must be non-decreasing, so lost, duplicated or reordered effects, wrong catcher, wrong handler count, damaged caller state or later misbehaviour are rejected. error(v,level) for v of every type through every catcher and host-function failures (RaiseError, Go panic) are validated likewise; a Go panic escaping, crash or hang is a violation by itself.",
    design_ref="DESIGN.md section 4 C05", note=LSEM_NOTE + " Faults inside Go library functions occur only at their Lua callbacks; second faults (failing handler) are inconclusive.", specs=["LuaSem", "LuaSemTrace", "LuaSemFault"])
CHECKS["C16"] = dict(
    technique="TLA+ specs Lexical (Denote/Quote/Numeral/IntToStr) and Calendar (Fields/SecondsOf/strftime) model-checked by TLC; TLC-enumerated literal texts, numeral spellings and instants replayed on the real lexer/tonumber/coercion/os.date/os.time; real %q and tostring output validated by LexicalTrace",
    category="model_checking",
    text="TLC proves Denote(Quote(s))=s, the literal-form and numeral laws and the calendar round trip on the small scope, enumerates all literal forms of all strings <=4 over 10 bytes, all numeral spellings <=5 over 14 characters and boundary instants with the values they must denote, and the real readers/printers must agree (exactly inside the integer model, with each other outside it).",
    design_ref="DESIGN.md section 4 C16",
    note="Trusted: TLC, Json module, harness projection (bytes as integer arrays, float64 as exact mantissa*2^e), Go time for zone names. Not judged: shortest-digit float printing, C-library dependent spellings (hex floats, inf/nan), %c layout (locale-defined), DST zones.",
    specs=["Lexical", "LexicalMC", "LexicalGen", "LexicalTrace", "Calendar", "CalendarMC"])

NOT_YET = {}


def main():
    props = [json.loads(l) for l in open(os.path.join(ROOT, "properties.jsonl"))]
    checks = []
    na = []
    for p in props:
        pid = p["id"]
        c = CHECKS.get(pid)
        if not c:
            na.append({"property_id": pid, "reason": NOT_YET.get(pid, "check not built yet in this round (planned in DESIGN.md section 4); nothing is claimed")})
            continue
        checks.append({
            "property_id": pid,
            "quick_cmd": "./check %s quick" % pid,
            "thorough_cmd": "./check %s thorough" % pid,
            "evidence_file": "/verif/evidence/%s.json" % pid,
            "replay_cmd_template": "./check %s --replay {path}" % pid,
            "engine": "tlc",
            "level_claimed": {"category": c["category"], "text": c["text"], "design_ref": c["design_ref"]},
            "level_note": c["note"],
            "technique": c["technique"],
        })
    man = {
        "version": 1,
        "setup_cmd": "./setup.sh",
        "hooks": {
            "guard": "verif",
            "enable": "go build -tags verif (file /repo/verif_access.go, //go:build verif; read-only accessors, no inline hooks)",
            "baseline_off_cmd": "cd /repo && GOFLAGS=-mod=mod GOPROXY=off go test -vet=off -count=1 -timeout 25m ./...",
            "source_commits": REPO_HOOK_COMMITS,
            "add_only": True,
        },
        "engines": [
            {"name": "tlc", "path": "/verif/specs", "serves_properties": [c["property_id"] for c in checks],
             "kind_free_text": "explicit TLA+ specifications checked with TLC (exhaustive MC, behaviour export, trace validation); Go conformance harness in /verif/harness built against /repo with -tags verif"},
        ],
        "checks": checks,
        "not_applicable": na,
        "notes": "Driver: ./check <id> quick|thorough. Known findings: /verif/known_findings.json. Design: /verif/DESIGN.md.",
    }
    with open(os.path.join(ROOT, "MANIFEST.json"), "w") as f:
        json.dump(man, f, indent=1)
    print("MANIFEST.json: %d checks, %d not claimed" % (len(checks), len(na)))


if __name__ == "__main__":
    main()
