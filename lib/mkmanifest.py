#!/usr/bin/env python3
"""Regenerates /verif/MANIFEST.json from the table below (single source of truth)."""
import json, os

ROOT = os.path.dirname(os.path.dirname(os.path.abspath(__file__)))
REPO_HOOK_COMMITS = ["verif: add read-only accessors for the verification harness (build tag verif)",
                            "verif: accessors for the current frame, a register window and the open-upvalue registers (build tag verif)"]

CHECKS = {
    "C09": dict(
        technique="TLA+ refinement TableImpl=>Table checked by TLC; histories exported from the spec's state graph replayed on the real table; recorded traces validated by TableTrace.tla",
        category="model_checking",
        text="TLC proves on the transcribed algorithm (array/dict/keys routing, Next) that lookups agree with the abstract map, Len is a border and stepwise traversal under clears/overwrites is complete, within small constants; every transition of that state graph is replayed on the real LTable through every access path (Go API, LState API, Lua operators) and the observed reads/lengths/traversals are validated by TLC against the abstract Table spec, plus seeded random long histories.",
        design_ref="DESIGN.md section 4 C09",
        note="Trusted: TLC, the Go harness' projection (reads through RawGet/Lua/typed accessors), Json module. Bounded: keys universe of 13 tokens incl. both sides of MaxArrayIndex (lowered to 5 in one configuration), array length <= 4 in GEN, random histories <= 200 ops.",
        specs=["Table", "TableImpl", "TableMC", "TableTrace"]),
}

CHECKS["C01"] = dict(
    technique="TLA+ reference semantics (LuaSem, CEK machine) evaluated step by step by TLC on every generated program; the real interpreter's recorded trace must be the trace the spec defines",
    category="model_checking",
    text="Each generated program (random type-directed; multiple-assignment shapes; operator x operand-kind x destination-kind; padded with many locals/constants) is run on the real lexer+parser+compiler+VM and its observable trace (emit values, results, error line) is validated by TLC against the explicit TLA+ semantics LuaSem; every candidate is reproduced on a fresh interpreter before it is reported. In addition every program's run is recorded instruction by instruction (state before each instruction of the main thread, through the deterministic context's dispatch poll) and TLC judges each distinct step against FramesStep.tla: a live, uncaptured local changes only if the instruction names its register as a target, and a readable local stays below the register top.",
    design_ref="DESIGN.md section 3.4, 4 C01",
    note="Trusted: TLC, the Go runner (emit/outcome normalisation), the Python AST renderer. Bounded: integer-valued numbers |n|<2^30 (other runs are inconclusive and counted), programs of ~20-200 nodes, seeded sampling of the shape families (exhaustive 2-target assignments in the thorough tier).",
    specs=["LuaValues", "LuaNames", "LuaSem", "LuaSemTrace", "FramesStep", "FramesStepTrace", "FramesStepMC"])

LSEM_NOTE = "Trusted: TLC, the Go runner (emit/outcome normalisation), the Python AST renderer. Bounded: integer-valued numbers |n|<2^30 (other runs are inconclusive and counted), seeded sampling of the stated families."
CHECKS["C02"] = dict(
    technique="LuaSem call rules (Adjust by context, varargs, arg table, __call, method sugar, host callees) evaluated by TLC on enumerated call shapes; real traces validated by LuaSemTrace",
    category="model_checking",
    text="The product #params x parameter style x #args x 21 result contexts x #results x callee kind (Lua, __call object, host, method, host re-entry) is enumerated (sampled in the quick tier), each shape rendered to Lua, run on the real interpreter and its trace validated by TLC against LuaSem; plus random nestings, random programs with functions, and tail-call loops 15x deeper than CallStackSize on both call-stack implementations. In addition every program's run is recorded instruction by instruction (state before each instruction of the main thread, through the deterministic context's dispatch poll) and TLC judges each distinct step against FramesStep.tla: a live, uncaptured local changes only if the instruction names its register as a target, and a readable local stays below the register top.",
    design_ref="DESIGN.md section 4 C02", note=LSEM_NOTE, specs=["LuaSem", "LuaSemTrace", "FramesStep", "FramesStepTrace"])
CHECKS["C03"] = dict(
    technique="LuaSem variable cells and fenv rules evaluated by TLC on the capture x exit-path family; real traces validated by LuaSemTrace",
    category="model_checking",
    text="Every valid combination of (construct in which a closure is created) x (route by which the scope is left, incl. errors caught by pcall/xpcall and coroutine suspension/death) x (sharing pattern) is rendered with register churn before the closures are used; the real trace must equal the one LuaSem defines (fresh cell per declaration execution, shared between closures, surviving the scope). fenv programs and random closure programs likewise. In addition every program's run is recorded instruction by instruction (state before each instruction of the main thread, through the deterministic context's dispatch poll) and TLC judges each distinct step against FramesStep.tla: a live, uncaptured local changes only if the instruction names its register as a target, and a readable local stays below the register top.",
    design_ref="DESIGN.md section 4 C03", note=LSEM_NOTE, specs=["LuaSem", "LuaSemTrace", "FramesStep", "FramesStepTrace"])
CHECKS["C04"] = dict(
    technique="LuaSem metatable rules (manual 2.8) evaluated by TLC on the operand-type x operator x handler-presence family; real traces validated by LuaSemTrace",
    category="model_checking",
    text="Handlers emit their tag and the operands they receive; for operand pairs over 11 value kinds, every binary operator, 5 handler-presence configurations and several handler result kinds the real trace (handler chosen, operand order, result conversion, error or not) must be the one LuaSem defines; __index/__newindex chains, __call positions, <= fallback, unary minus, tostring/__metatable likewise. In addition every program's run is recorded instruction by instruction (state before each instruction of the main thread, through the deterministic context's dispatch poll) and TLC judges each distinct step against FramesStep.tla: a live, uncaptured local changes only if the instruction names its register as a target, and a readable local stays below the register top.",
    design_ref="DESIGN.md section 4 C04", note=LSEM_NOTE, specs=["LuaSem", "LuaSemTrace", "FramesStep", "FramesStepTrace"])

CHECKS["C05"] = dict(
    technique="fault enumeration at every VM instruction boundary, each faulted run explained by TLC through fault injection into the TLA+ semantics (LuaSemFault), non-decreasing in the fault point; error-value family validated by LuaSemTrace",
    category="fault_enumeration",
    text="For every corpus program (protected bodies under pcall/xpcall/nested/metamethod/iterator/Go-side PCall) the real VM is run once per dispatch poll with a one-shot fault raised exactly there; TLC explores the fault-free run of the TLA+ semantics and, at every class of step boundaries, the run with the fault injected there; every real fault point must be explained by an injection point and the assignment must be non-decreasing, so lost, duplicated or reordered effects, wrong catcher, wrong handler count, damaged caller state or later misbehaviour are rejected. error(v,level) for v of every type through every catcher and host-function failures (RaiseError, Go panic) are validated likewise; a Go panic escaping, crash or hang is a violation by itself.",
    design_ref="DESIGN.md section 4 C05", note=LSEM_NOTE + " Faults inside Go library functions occur only at their Lua callbacks; second faults (failing handler) are inconclusive.", specs=["LuaSem", "LuaSemTrace", "LuaSemFault", "Frames", "FramesTrace"])
CHECKS["C16"] = dict(
    technique="TLA+ specs Lexical (Denote/Quote/Numeral/IntToStr) and Calendar (Fields/SecondsOf/strftime) model-checked by TLC; TLC-enumerated literal texts, numeral spellings and instants replayed on the real lexer/tonumber/coercion/os.date/os.time; real %q and tostring output validated by LexicalTrace",
    category="model_checking",
    text="TLC proves Denote(Quote(s))=s, the literal-form and numeral laws and the calendar round trip on the small scope, enumerates all literal forms of all strings <=4 over 10 bytes, all numeral spellings <=5 over 14 characters and boundary instants with the values they must denote, and the real readers/printers must agree (exactly inside the integer model, with each other outside it).",
    design_ref="DESIGN.md section 4 C16",
    note="Trusted: TLC, Json module, harness projection (bytes as integer arrays, float64 as exact mantissa*2^e), Go time for zone names. Not judged: shortest-digit float printing, C-library dependent spellings (hex floats, inf/nan), %c layout (locale-defined), DST zones.",
    specs=["Lexical", "LexicalMC", "LexicalGen", "LexicalTrace", "Calendar", "CalendarMC"])

CHECKS["C06"] = dict(
    technique="LuaSem coroutine rules (continuation per thread, status machine, value transfer) evaluated by TLC on generated coroutine scripts; status-machine invariants (CoInv) checked by TLC on every state; real traces validated by LuaSemTrace",
    category="model_checking",
    text="Scripts over 1-3 coroutines (create/wrap) whose bodies yield, resume any coroutine (incl. resumer, self, dead), query status, yield from nested/tail calls, loop with locals across yields, return or fail, driven by a main script, are run on the real interpreter; the trace (payload order and number, statuses, error propagation) must be the one LuaSem defines, and TLC checks on every spec state that exactly one thread runs, normal = resumer chain, dead keeps nothing. In addition every program's run is recorded instruction by instruction (state before each instruction of the main thread, through the deterministic context's dispatch poll) and TLC judges each distinct step against FramesStep.tla: a live, uncaptured local changes only if the instruction names its register as a target, and a readable local stays below the register top.",
    design_ref="DESIGN.md section 4 C06", note=LSEM_NOTE + " No yield across pcall/metamethods/iterators (Lua 5.1 rejects it).", specs=["LuaSem", "LuaSemTrace", "FramesStep", "FramesStepTrace", "Frames", "FramesTrace"])
CHECKS["C11"] = dict(
    technique="design spec Cancel model-checked by TLC (dispatch bound, liveness); cancellation at every dispatch poll of a looping corpus on the real VM judged by TLC (LuaSemCancel) against the prefix of the uncancelled TLA+ behaviour; bounded-wait runs for blocking channel operations",
    category="model_checking",
    text="TLC proves on the design model that after cancellation no instruction completes and the loop exits within depth+1 dispatch attempts (and eventually, under fairness). 15 terminating and non-terminating programs (tight loops, recursion, tail calls, goto, pcall/xpcall retry loops, looping handlers, metamethod recursion, coroutine ping-pong, generators) are cancelled at every dispatch poll k; TLC judges each run: error carrying the reason, effects a prefix of the uncancelled behaviour, nothing after the cancelling poll, dispatch attempts after cancellation bounded by the call depth. Blocking receive/send/select and coroutines are sampled with a real context; attaching an undone context must not change traces.",
    design_ref="DESIGN.md section 4 C11", note=LSEM_NOTE + " Polls inside coroutines are not observed (child context). Blocking operations use wall-clock bounds (4 s).", specs=["Cancel", "LuaSem", "LuaSemCancel"])
CHECKS["C15"] = dict(
    technique="TLA+ function specs StrLib/MathLib with laws model-checked by TLC; bounded-exhaustive call families exported by TLC (StrMathGen) replayed on the real library; listed/random calls judged by TLC (StrMathTrace)",
    category="model_checking",
    text="TLC proves on 132k small-scope cases that each specified operator agrees with an independent characterisation (sub/byte/find/format digit laws, modf/frexp/fmod recomposition, pow as repeated multiplication). The real functions are compared byte-exactly on complete finite families (all strings <=3/4 over 6 bytes x all indices, all 256 bytes, format flag/width/precision grids, dyadic number grids) and on seeded random calls judged by TLC.",
    design_ref="DESIGN.md section 4 C15",
    note="Trusted: TLC, Json module, harness value<->token conversion. No floating point in TLC: transcendentals, %e %E %f %g, inexact pow/sqrt, signed zeros, NaN, subnormals, huge values are not decided.",
    specs=["StrLib", "MathLib", "StrMathEval", "StrMathMC", "StrMathGen", "StrMathTrace"])
CHECKS["C18"] = dict(
    technique="TLA+ spec ListLib checked by TLC against a transcription of ltablib.c (ListRef) over the Table map; histories from that state graph and enumerated sort cases replayed on the real table library; traces (results, list read-back, comparator call logs) validated by ListTrace",
    category="model_checking",
    text="TLC proves within list length <=5 that the sequence-level spec agrees with the element-wise reference algorithms and that SortOK admits exactly ordered permutations (errors only for failing/inconsistent comparators, comparator called only with elements). Every history to depth 4 (sampled depth 5, simulated 30-call histories) and sort cases over all sequences <=5 x 12 comparators x 6 list constructions run on the real library and are validated by TLC.",
    design_ref="DESIGN.md section 4 C18",
    note="Trusted: TLC, Json module, harness projection. Proper lists only; elements small integers/strings/true/tables; error texts not compared.",
    specs=["ListLib", "ListRef", "ListMC", "ListTrace"])
CHECKS["C19"] = dict(
    technique="TLA+ specs ByteFile (reference byte sequence + cursor) and IoFile (sparse oracle) checked by TLC in lock-step; histories carrying TLC-computed expected results replayed through Lua on real files (GEN->replay), incl. seeded random histories evaluated by IoFileEval",
    category="model_checking",
    text="TLC checks that the sparse oracle returns exactly the reference model's result after every operation of every legal history on small files and holds cursor/length/closed-handle invariants on files up to 4097 bytes in all 12 open modes; the real io library is compared byte-exactly (read results, seek offsets, nil vs error, file on disk after close) on every transition of slices around the 4096-byte buffer plus random histories.",
    design_ref="DESIGN.md section 4 C19",
    note="Trusted: TLC, Json, byte generators mirrored in Go, OS file system. Histories obey the ISO C stream discipline the property states; io.popen, std handles, default-file functions not covered.",
    specs=["IoData", "ByteFile", "IoFile", "IoFileMC", "IoFileEval"])
CHECKS["C20"] = dict(
    technique="TLA+ reference semantics of require/preload/path search/module/luaL_register (Require) with 3 invariants + 11 step laws checked by TLC; every history of a bounded operation alphabet exported with expected observations and replayed on the real module system; random histories and stdlib entries validated by RequireTrace",
    category="model_checking",
    text="TLC checks once-only loading, cache identity, preload precedence, loop errors, failure residue and error listing on the spec, exports every history over 15 loader behaviours x 4 loader sources x clear/unpreload/rmfile/RegisterModule operations, and each is executed on a fresh real LState with instrumented loaders; result identity, loader log, package.loaded[n], _G[n] must match TLC's expectation.",
    design_ref="DESIGN.md section 4 C20",
    note="Trusted: TLC, Json, reduction of error messages to classes. 2-3 names to depth 3-5 exhaustively, random to 50 ops; package.loaders/loaded/preload tables never replaced.",
    specs=["Require", "RequireMC", "RequireTrace"])

CHECKS["C13"] = dict(
    technique="TLA+ channel spec model-checked by TLC over all interleavings; real multi-goroutine runs accepted only if TLC finds an interleaving of the per-state logs the spec allows (witness validation); shared-prototype runs compared with sequential LuaSem-validated traces; harness built with -race",
    category="model_checking",
    text="TLC enumerates every interleaving of up to 3 processes on up to 2 channels (capacity 0..2) against history laws (exactly-once, FIFO, per-sender order, closed-channel rules, select only ready cases, refused payloads never travel). Thousands of real runs of 2-8 LStates in goroutines (GOMAXPROCS 1/4/16) log call/return of every channel operation per state; ChannelTrace must find an explaining interleaving. States created from one shared FunctionProto while others are created/compiled/closed must produce exactly the sequential trace, the prototype snapshot must be unchanged, and a race report on interpreter memory fails the run.",
    design_ref="DESIGN.md section 4 C13",
    note="The Go scheduler is sampled, not enumerated; the Go race detector is a trusted oracle outside TLA+. Payload admissibility judged on the top-level value only.",
    specs=["Channel", "ChannelMC", "ChannelTrace", "LuaSemTrace", "SharedProto", "SharedProtoTrace", "PerState", "PerStateTrace"])
CHECKS["C14"] = dict(
    technique="TLA+ transcription of lstrlib.c's backtracking matcher and find/match/gmatch/gsub drivers (Pattern) with laws model-checked by TLC over a bounded-exhaustive pattern x subject scope; the same run exports reference results compared with the real functions; random calls validated by PatternTrace",
    category="model_checking",
    text="TLC proves on every pattern <=3 (thorough <=4) over 16 pattern symbols x every subject in scope that the transcription is self-consistent (well-formedness = lazy errors, soundness/completeness against a declarative set semantics for the capture-free fragment, greedy maximal / lazy minimal, capture bookkeeping, drivers agree, 27 manual vectors). For exactly that scope every real call of find/match (init -5..5), gmatch and gsub (7 replacement kinds) is compared with the outcomes TLC computes (up to 32.6M calls), plus seeded random longer cases decided by TLC; large inputs must end in a value or a Lua error in time.",
    design_ref="DESIGN.md section 4 C14",
    note="Trusted: TLC, Json, faithfulness of the transcription (supported by laws and vectors), harness projection. No byte 0 in patterns, no %f; error texts not compared.",
    specs=["Pattern", "PatternMC", "PatternTrace", "PatternSets", "PatternEsc"])
CHECKS["C17"] = dict(
    technique="LuaSem with per-layout token lines evaluated by TLC: error positions, error level 2, debug.getinfo lines, debug.getlocal/getupvalue enumeration and setlocal/setupvalue; real traces validated by LuaSemTrace under several layouts",
    category="model_checking",
    text="One failing construct of 11 kinds in each of 15 statement positions is rendered under layouts {canonical, blank and comment lines of every form inserted, line breaks inside statements} x {LF, CRLF, CR}; the reported chunk:line: must be the statement's line (any line of the statement when it spans several), level 2 the calling statement; debug.getinfo currentline/linedefined/lastlinedefined and the named locals/upvalues enumerated (and set) at levels 1-3 in random nestings with shadowing must be what the TLA+ semantics defines for that layout.",
    design_ref="DESIGN.md section 4 C17", note=LSEM_NOTE + " Upvalues compared by name (order not fixed by the manual); internal/temporary slots filtered by name.", specs=["LuaSem", "LuaSemTrace"])

CHECKS["C08"] = dict(
    technique="TLA+ token-level recogniser of the Lua 5.1 grammar (Grammar) evaluated by TLC on enumerated token sequences; loader must accept what the grammar accepts; layout independence by validating every layout of every program against LuaSem; robustness sweep judged by the outcome relation",
    category="model_checking",
    text="TLC classifies every token sequence of length <=3 over 39 tokens (length 4 over 24 tokens in the thorough tier) and every one-token deletion/replacement/insertion of 22 valid templates with the position-set recogniser of the Lua 5.1 grammar incl. context conditions; the real loader must accept each accepted text and may only answer {function, syntax error} on all of them. Random programs are rendered under 9 layouts x line-end conventions with optional semicolons and neutral parentheses and each rendering must produce the trace LuaSem defines. Truncation at every byte offset, byte mutations, random bytes, token soup and nesting to depth 2*10^4 (2*10^5 thorough) are loaded twice in child processes with deadlines.",
    design_ref="DESIGN.md section 4 C08", note=LSEM_NOTE + " Acceptance is one-directional; goto/labels are not classified by the recogniser; for arbitrary bytes the spec contributes only the outcome relation.", specs=["Grammar", "GrammarGen", "LuaSem", "LuaSemTrace"])
CHECKS["C12"] = dict(
    technique="implementation-shaped TLA+ specs of both call-frame stacks and the register file model-checked by TLC to refine list models; every transition replayed on the real structures through tagged wrappers and judged by TLC; option tuples normalised by a TLA+ spec; limit probes and within-limit programs run under the tuples on the real interpreter with TLC deciding thresholds, catchability and trace identity",
    category="model_checking",
    text="CallStackImpl (fixed and segmented, sizes 1..17) and RegistryImpl (grow/resize, scaled sizes) are model-checked against bounded-sequence/list specs; each transition of those graphs plus seeded random histories is replayed on the real code and validated by TLC. 10,296 raw option tuples x context are compared with TLC's normalisation and thread inheritance. Limit probes must overflow only above the configured size, always as an error pcall catches, after which a follow-up computation is right; programs within limits must produce identical traces under every configuration (reference traces cross-validated by LuaSem).",
    design_ref="DESIGN.md section 4 C12",
    note="Trusted: TLC, the wrappers in verif_access.go, the lua-run harness. VM protocol preconditions assumed (Pop on non-empty, SetSp(n<=Sp)). One slot of register-file slack per overflow error already raised is admitted.",
    specs=["CallStack", "CallStackImpl", "CallStackTrace", "Registry", "RegistryImpl", "RegistryMC", "RegistryTrace", "LuaOptions", "LuaOptionsGen", "LuaLimitsTrace", "LuaCoTransferTrace"])

CHECKS["C07"] = dict(
    technique="TLA+ well-formedness predicate (Bytecode; instruction words decoded inside TLA+) evaluated by TLC on every nested FunctionProto the real parser+compiler emit; TLC model-checks that WF implies safety of an abstract VM (BytecodeVM)",
    category="model_checking",
    text="TLC proves WF(p) => no index outside constants/stringConstants/upvalues/prototypes/code/frame, only instruction boundaries dispatched, for all one-instruction prototypes over boundary operands and all code sequences of <=3 words over ~105 well-formed and ill-formed instruction instances; the same predicate is evaluated by TLC on every prototype compiled from the generators' sources and an adversarial family (register/constant/upvalue limits, giant table constructors, jumps near the 18-bit range, deep nesting), including instructions never executed.",
    design_ref="DESIGN.md section 4 C07",
    note="Trusted: TLC, Json, the dumper (field copies, 16-bit split, VerifStringConstants), BytecodeVM as a reading of vm.go. MC bound <=3 words; FrameLimit 200; sources compiled, never executed.",
    specs=["Bytecode", "BytecodeTrace", "BytecodeVM", "BytecodeMC", "CtorTrace"])

CHECKS["C10"] = dict(
    technique="TLA+ ApiStackImpl (transcribed registry/LocalBase/call-return code) model-checked by TLC to refine the abstract per-activation lists of ApiStack; spec-generated histories replayed on the real LState inside nested host functions and validated by ApiStackTrace; object-level API methods validated against the Lua expression and LuaSem's operator definitions by ApiObjTrace",
    category="model_checking",
    text="List semantics of Push/Pop/Get/SetTop/Insert/Remove/Replace/GetTop and the Call/PCall/CallByParam/host-return contract are model-checked exhaustively on the transcribed algorithm (lists <=3, indices -5..5, depth <=3, every NRet/protected flag, full/one-free-slot/non-growing register file); every transition of that graph, simulated 40-op histories and the complete (nargs, NRet, produced, callee kind, protected, failing) family run on the real code at non-zero LocalBase, across registry growth, inside a coroutine and at top level, TLC deciding every re-read. The 15 object-level methods are compared with the Lua expression on every operand pair of a metatable-rich world (API = Lua required outright; = LuaSem wherever the model decides).",
    design_ref="DESIGN.md section 4 C10",
    note="Trusted: fidelity of the transcription (bound through replay), LuaSem/LuaValues for operators. Programmer errors (Pop(k>n), Insert beyond n+1, pseudo-indices) excluded; error texts not compared.",
    specs=["ApiStack", "ApiStackImpl", "ApiStackTrace", "ApiObjTrace", "LuaSem"])

NOT_YET = {}


def main():
    props = [json.loads(l) for l in open(os.path.join(ROOT, "properties.jsonl"))]
    checks = []
    na = []
    for p in props:
        pid = p["id"]
        c = CHECKS.get(pid)
        if not c:
            na.append({"property_id": pid, "reason": NOT_YET.get(pid, "check not built yet in this round (planned in DESIGN.md section 4); nothing is claimed")})
            continue
        checks.append({
            "property_id": pid,
            "quick_cmd": "./check %s quick" % pid,
            "thorough_cmd": "./check %s thorough" % pid,
            "evidence_file": "/verif/evidence/%s.json" % pid,
            "replay_cmd_template": "./check %s --replay {path}" % pid,
            "engine": "tlc",
            "level_claimed": {"category": c["category"], "text": c["text"], "design_ref": c["design_ref"]},
            "level_note": c["note"],
            "technique": c["technique"],
        })
    man = {
        "version": 1,
        "setup_cmd": "./setup.sh",
        "hooks": {
            "guard": "verif",
            "enable": "go build -tags verif (file /repo/verif_access.go, //go:build verif; read-only accessors, no inline hooks)",
            "baseline_off_cmd": "cd /repo && GOFLAGS=-mod=mod GOPROXY=off go test -vet=off -count=1 -timeout 25m ./...",
            "source_commits": REPO_HOOK_COMMITS,
            "add_only": True,
        },
        "engines": [
            {"name": "tlc", "path": "/verif/specs", "serves_properties": [c["property_id"] for c in checks],
             "kind_free_text": "explicit TLA+ specifications checked with TLC (exhaustive MC, behaviour export, trace validation); Go conformance harness in /verif/harness built against /repo with -tags verif"},
        ],
        "checks": checks,
        "not_applicable": na,
        "notes": "Driver: ./check <id> quick|thorough. Known findings: /verif/known_findings.json. Design: /verif/DESIGN.md.",
    }
    with open(os.path.join(ROOT, "MANIFEST.json"), "w") as f:
        json.dump(man, f, indent=1)
    print("MANIFEST.json: %d checks, %d not claimed" % (len(checks), len(na)))


if __name__ == "__main__":
    main()
