"""C03 families: capture x exit path x sharing pattern, with register churn
before the closures are used; fenv programs."""
import itertools, random
from luagen import Prog

WHERES = ["block", "while", "repeat", "repeatcond", "fornum", "forin", "function", "toplevel"]
EXITS = ["fall", "break", "goto_out", "goto_cont", "return", "tailcall", "pcall_error", "xpcall_error", "xpcall_badhandler",
         "pcall_rterror", "co_yield", "co_death", "co_error", "co_rterror", "nested_pcall"]
CAPTURES = ["get", "incget", "nested", "modafter"]
LOOPS = {"while", "repeat", "repeatcond", "fornum", "forin"}


def _name(p, s):
    return p.add("str", s=list(s.encode()), name=True)


def capture_stmts(p, cap, var, extra=None):
    """statements creating closures over `var` and storing them in keep[ki]"""
    def store(fn):
        return [p.assign([p.id("ki")], [p.bin("+", p.id("ki"), p.num(1))]),
                p.assign([p.index(p.id("keep"), p.id("ki"))], [fn])]
    get = lambda: p.func([], p.block([p.ret([p.id(var)] + ([p.id(extra)] if extra else []))]))
    inc = lambda k: p.func([], p.block([p.assign([p.id(var)], [p.bin("+", p.id(var), p.num(k))]), p.ret([p.id(var)])]))
    ss = []
    if cap == "get":
        ss += store(get())
    elif cap == "incget":
        ss += store(inc(1)) + store(get())
    elif cap == "nested":
        outer = p.func([], p.block([p.ret([inc(2)])]))
        ss += store(p.call(p.paren(outer), [])) + store(get())
    elif cap == "modafter":
        ss += store(get()) + [p.assign([p.id(var)], [p.bin("+", p.id(var), p.num(100))])] + store(inc(1))
    return ss


NESTS = ["body", "do", "if"]      # where in the construct the captured local lives: directly in the body or in a nested block


def clos_case(where, exit_, cap, nest="body", reg0=False):
    """reg0: the loop counter lives in an upvalue, so the captured local is the scope
    function's very first register"""
    if nest != "body" and where not in ("while", "repeat", "fornum", "forin"):
        return None
    if reg0 and (where not in ("while", "repeat", "repeatcond", "block") or nest != "body"):
        return None
    if exit_ in ("break", "goto_cont") and where not in LOOPS:
        return None
    if where == "repeatcond" and exit_ in ("goto_cont",):
        return None
    if where == "function" and exit_ == "goto_out":
        return None          # a goto cannot leave a function
    p = Prog()
    churn_body = p.block([p.local(["x1", "x2", "x3", "x4"], [p.num(71), p.num(72), p.num(73), p.num(74)]),
                          p.ret([p.bin("+", p.id("a"), p.id("x4"))])])
    pre = [p.local(["keep", "ki"], [p.table([]), p.num(0)]),
           p.localfunction("churn", p.func(list("abcdefgh"), churn_body))]
    decl_i = [p.local(["i"], [p.num(0)])]
    if reg0:
        pre += decl_i
        decl_i = []
    # ---- the exit statement
    def exit_stmt():
        if exit_ == "fall":
            return [p.emit([p.str("fall")])]
        if exit_ == "break":
            return [p.brk()]
        if exit_ == "goto_out":
            return [p.goto("out")]
        if exit_ == "goto_cont":
            return [p.goto("cont")]
        if exit_ == "return":
            return [p.ret([p.num(1)])]
        if exit_ == "tailcall":
            return [p.ret([p.call(p.id("churn"), [p.num(i) for i in range(1, 9)])])]
        if exit_ in ("pcall_error", "xpcall_error", "xpcall_badhandler", "co_error"):
            return [p.callstat(p.call(p.id("error"), [p.str("x")]))]
        if exit_ in ("pcall_rterror", "co_rterror"):      # raised by the VM in the very frame that owns the captured local
            return [p.local(["zz"], [p.bin("+", p.nil(), p.num(1))])]
        if exit_ == "nested_pcall":
            return [p.emit([p.call(p.id("pcall"), [p.id("error"), p.str("inner")])]), p.callstat(p.call(p.id("error"), [p.str("x")]))]
        if exit_ == "co_yield":
            return [p.callstat(p.call(p.field(p.id("coroutine"), "yield"), [p.num(1)]))]
        if exit_ == "co_death":
            return [p.emit([p.str("dying")])]
    guard = lambda cond, ss: p.if_([cond], [p.block(ss)])

    def nested(stmts, keep_first=0):
        """move the statements declaring/capturing v (all but the first keep_first and a trailing label) into a nested block"""
        if nest == "body":
            return stmts
        tail = [stmts[-1]] if p.nodes[stmts[-1]]["k"] == "label" else []
        core = stmts[keep_first:len(stmts) - len(tail)]
        blk = p.block(core)
        wrapped = p.do(blk) if nest == "do" else p.if_([p.true()], [blk])
        return stmts[:keep_first] + [wrapped] + tail
    # ---- the scope construct
    body = []
    if where == "toplevel":
        # the captured local belongs to the scope function's own body: only the function's end (return, error, the
        # death of the coroutine running it) closes it
        ex = exit_stmt()
        if exit_ in ("return", "tailcall"):
            ex = [p.do(p.block(ex))]          # a return ends its block: the statements after it follow the do ... end
        body += [p.local(["v"], [p.num(10)])] + capture_stmts(p, cap, "v") + ex
    elif where == "block":
        body.append(p.do(p.block([p.local(["v"], [p.num(10)])] + capture_stmts(p, cap, "v") + exit_stmt())))
    elif where == "while":
        inner = [p.assign([p.id("i")], [p.bin("+", p.id("i"), p.num(1))]), p.local(["v"], [p.bin("*", p.id("i"), p.num(10))])] \
            + capture_stmts(p, cap, "v") + [guard(p.bin("==", p.id("i"), p.num(2)), exit_stmt())]
        if exit_ == "goto_cont":
            inner.append(p.label("cont"))
        body += decl_i + [p.while_(p.bin("<", p.id("i"), p.num(3)), p.block(nested(inner, 1)))]
    elif where == "repeat":
        inner = [p.assign([p.id("i")], [p.bin("+", p.id("i"), p.num(1))]), p.local(["v"], [p.bin("*", p.id("i"), p.num(10))])] \
            + capture_stmts(p, cap, "v") + [guard(p.bin("==", p.id("i"), p.num(2)), exit_stmt())]
        if exit_ == "goto_cont":
            inner.append(p.label("cont"))
        body += decl_i + [p.repeat(p.block(nested(inner, 1)), p.bin(">=", p.id("i"), p.num(3)))]
    elif where == "repeatcond":
        inner = [p.assign([p.id("i")], [p.bin("+", p.id("i"), p.num(1))]), p.local(["v"], [p.bin("*", p.id("i"), p.num(10))])] \
            + capture_stmts(p, cap, "v") + [guard(p.bin("==", p.id("i"), p.num(2)), exit_stmt())]
        body += decl_i + [p.repeat(p.block(inner), p.bin(">=", p.id("v"), p.num(30)))]
    elif where == "fornum":
        inner = [p.local(["v"], [p.bin("*", p.id("i"), p.num(10))])] + capture_stmts(p, cap, "v", extra="i") \
            + [guard(p.bin("==", p.id("i"), p.num(2)), exit_stmt())]
        if exit_ == "goto_cont":
            inner.append(p.label("cont"))
        body.append(p.fornum("i", p.num(1), p.num(3), 0, p.block(nested(inner))))
    elif where == "forin":
        inner = [p.local(["v"], [p.bin("*", p.id("x"), p.num(10))])] + capture_stmts(p, cap, "v", extra="x") \
            + [guard(p.bin("==", p.id("k"), p.num(2)), exit_stmt())]
        if exit_ == "goto_cont":
            inner.append(p.label("cont"))
        body.append(p.forin(["k", "x"], [p.call(p.id("ipairs"), [p.table([("p", p.num(5)), ("p", p.num(6)), ("p", p.num(7))])])], p.block(nested(inner))))
    elif where == "function":
        fb = capture_stmts(p, cap, "v") + exit_stmt()
        body += [p.localfunction("inner", p.func(["v"], p.block(fb))), p.emit([p.call(p.id("inner"), [p.num(10)])])]
    if exit_ == "goto_out":
        body.append(p.label("out"))
    body.append(p.emit([p.str("scope-end")]))
    # as a coroutine body the scope function is vararg and resumed with arguments in every other case: its locals
    # then live above the varargs, in the registers the thread hands back first
    co_va = exit_.startswith("co_") and (len(where) + len(cap) + len(nest)) % 2 == 0
    scope = p.localfunction("scope", p.func([], p.block(body), va=co_va, ud=co_va))
    pre.append(scope)
    # ---- how the scope function is run
    if exit_ in ("pcall_error", "pcall_rterror", "nested_pcall"):
        pre.append(p.emit([p.call(p.id("pcall"), [p.id("scope")])]))
    elif exit_ == "xpcall_error":
        h = p.func(["m"], p.block([p.ret([p.bin("..", p.str("h:"), p.id("m"))])]))
        pre.append(p.emit([p.call(p.id("xpcall"), [p.id("scope"), h])]))
    elif exit_ == "xpcall_badhandler":       # the message handler fails too
        h = p.func(["m"], p.block([p.emit([p.str("handler-runs")]), p.callstat(p.call(p.id("error"), [p.str("handler-fails")]))]))
        pre.append(p.emit([p.paren(p.call(p.id("xpcall"), [p.id("scope"), h]))]))
    elif exit_ in ("co_yield", "co_death", "co_error", "co_rterror"):
        pre += [p.local(["co"], [p.call(p.field(p.id("coroutine"), "create"), [p.id("scope")])]),
                p.emit([p.call(p.field(p.id("coroutine"), "resume"), [p.id("co")] + ([p.num(60 + i) for i in range(12)] if co_va else []))]),      # many varargs: the thread hands back 1 + nargs registers first
                p.emit([p.call(p.field(p.id("coroutine"), "status"), [p.id("co")])])]
    else:
        pre.append(p.emit([p.call(p.id("scope"), [])]))
    # ---- register churn, then use the closures twice
    pre.append(p.emit([p.call(p.id("churn"), [p.num(90 + i) for i in range(1, 9)])]))
    use = p.block([p.emit([p.id("j"), p.call(p.index(p.id("keep"), p.id("j")), [])])])
    pre.append(p.fornum("j", p.num(1), p.id("ki"), 0, use))
    pre.append(p.emit([p.call(p.id("churn"), [p.num(80 + i) for i in range(1, 9)])]))
    use2 = p.block([p.emit([p.id("j"), p.call(p.index(p.id("keep"), p.id("j")), [])])])
    pre.append(p.fornum("j", p.num(1), p.id("ki"), 0, use2))
    return p, p.block(pre)


def all_clos():
    out = []
    for w, e, c, n in itertools.product(WHERES, EXITS, CAPTURES, NESTS):
        r = clos_case(w, e, c, n)
        if r:
            out.append(((w, e, c, n), r))
    for w, e, c in itertools.product(WHERES, EXITS, CAPTURES):
        r = clos_case(w, e, c, "body", reg0=True)
        if r:
            out.append(((w, e, c, "reg0"), r))
    return out


def retry_cases():
    """the same capturing function is run again from the same stack position after a failed
    protected call / a dead coroutine; nothing of an enclosing frame is captured (globals only),
    so the failed attempt's upvalues are the only ones the thread ever had open"""
    out = []
    for catcher, fails, cap, where in itertools.product(["pcall", "xpcall", "coresume", "cowrap_in_pcall"], ["all", "first", "second", "none"],
                                                        ["get", "incget", "two"], ["main", "function", "coroutine"]):
        p = Prog()
        # attempt(tag): local v = tag; K[#K+1] = closures over v; fails when told to
        body = [p.local(["v"], [p.id("tag")])]
        body.append(p.assign([p.index(p.id("K"), p.bin("+", p.un("#", p.id("K")), p.num(1)))], [p.func([], p.block([p.ret([p.id("v")])]))]))
        if cap == "incget":
            body.append(p.assign([p.index(p.id("K"), p.bin("+", p.un("#", p.id("K")), p.num(1)))],
                                 [p.func([], p.block([p.assign([p.id("v")], [p.bin("..", p.id("v"), p.str("+"))]), p.ret([p.id("v")])]))]))
        if cap == "two":
            # a second captured local of the same activation, written by the activation itself after the capture
            body.append(p.local(["w"], [p.bin("..", p.id("tag"), p.str("-w"))]))
            body.append(p.assign([p.index(p.id("K"), p.bin("+", p.un("#", p.id("K")), p.num(1)))], [p.func([], p.block([p.ret([p.id("w"), p.id("v")])]))]))
            body.append(p.assign([p.id("w")], [p.bin("..", p.id("w"), p.str("!"))]))
            body.append(p.assign([p.id("v")], [p.bin("..", p.id("v"), p.str("!"))]))
            body.append(p.emit([p.str("own"), p.call(p.index(p.id("K"), p.un("#", p.id("K"))), [])]))
        body.append(p.if_([p.id("fail")], [p.block([p.callstat(p.call(p.id("error"), [p.bin("..", p.str("failed-"), p.id("tag"))]))])]))
        body.append(p.ret([p.bin("..", p.str("done-"), p.id("tag"))]))
        ss = [p.assign([p.id("K")], [p.table([])]),
              p.assign([p.id("attempt")], [p.func(["tag", "fail"], p.block(body))])]
        def run(tag, fail):
            args = [p.str(tag), p.true() if fail else p.false()]
            if catcher == "pcall":
                return p.emit([p.str(tag), p.call(p.id("pcall"), [p.id("attempt")] + args)])
            if catcher == "xpcall":
                return p.emit([p.str(tag), p.call(p.id("xpcall"), [p.func([], p.block([p.ret([p.call(p.id("attempt"), args)])])),
                                                                    p.func(["m"], p.block([p.ret([p.id("m")])]))])])
            if catcher == "coresume":
                return p.emit([p.str(tag), p.call(p.field(p.id("coroutine"), "resume"), [p.call(p.field(p.id("coroutine"), "create"), [p.id("attempt")])] + args)])
            return p.emit([p.str(tag), p.call(p.id("pcall"), [p.call(p.field(p.id("coroutine"), "wrap"), [p.id("attempt")])] + args)])
        plan = {"all": [True, True, True], "first": [True, False, False], "second": [False, True, False], "none": [False, False, False]}[fails]
        runs = [run("a%d" % (i + 1), f) for i, f in enumerate(plan)]
        use = [p.forin(["i", "f"], [p.call(p.id("ipairs"), [p.id("K")])], p.block([p.emit([p.id("i"), p.call(p.id("f"), [])])]))]
        use2 = [p.forin(["i", "f"], [p.call(p.id("ipairs"), [p.id("K")])], p.block([p.emit([p.id("i"), p.call(p.id("f"), [])])]))]
        if where == "main":
            ss += runs + use + use2
        elif where == "function":
            ss += [p.assign([p.id("driver")], [p.func([], p.block(runs + use))]), p.callstat(p.call(p.id("driver"), []))] + use2
        else:
            ss += [p.assign([p.id("driver")], [p.func([], p.block(runs + use))]),
                   p.emit([p.call(p.field(p.id("coroutine"), "resume"), [p.call(p.field(p.id("coroutine"), "create"), [p.id("driver")])])])] + use2
        out.append((p, p.block(ss)))
    return out


def env_cases(rng, n):
    """fenv: globals follow the environment of the function that mentions them"""
    out = []
    for i in range(n):
        p = Prog()
        S = lambda s: p.str(s)
        envt = lambda tag: p.table([("k", _name(p, "x"), S(tag)), ("k", _name(p, "emit"), p.id("emit"))])
        ss = [p.assign([p.id("x")], [S("global-x")]),
              p.localfunction("f", p.func([], p.block([p.ret([p.id("x")])]))),
              p.localfunction("mk", p.func([], p.block([p.ret([p.func([], p.block([p.ret([p.id("x")])]))])])))]
        steps = ["call_f", "setfenv_f", "call_f", "mk1", "setfenv_mk", "mk2", "call_g", "level1", "getfenv", "writer", "setfenv_f2", "call_f"]
        k = rng.randint(6, len(steps))
        order = steps[:3] + rng.sample(steps[3:], k - 3)
        have_g1 = have_g2 = False
        for st in order:
            if st == "call_f":
                ss.append(p.emit([S("f"), p.call(p.id("f"), [])]))
            elif st == "setfenv_f":
                ss.append(p.emit([p.bin("==", p.call(p.id("setfenv"), [p.id("f"), envt("env-f")]), p.id("f"))]))
            elif st == "setfenv_f2":
                ss.append(p.callstat(p.call(p.id("setfenv"), [p.id("f"), envt("env-f2")])))
            elif st == "mk1":
                ss.append(p.assign([p.id("g1")], [p.call(p.id("mk"), [])]))
                have_g1 = True
            elif st == "setfenv_mk":
                ss.append(p.callstat(p.call(p.id("setfenv"), [p.id("mk"), envt("env-mk")])))
            elif st == "mk2":
                ss.append(p.assign([p.id("g2")], [p.call(p.id("mk"), [])]))
                have_g2 = True
            elif st == "call_g":
                if have_g1:
                    ss.append(p.emit([S("g1"), p.call(p.id("g1"), [])]))
                if have_g2:
                    ss.append(p.emit([S("g2"), p.call(p.id("g2"), [])]))
            elif st == "level1":
                hb = p.block([p.callstat(p.call(p.id("setfenv"), [p.num(1), envt("env-h")])),
                              p.emit([S("in-h"), p.id("x")]),
                              p.assign([p.id("y")], [p.num(5)]),
                              p.ret([p.field(p.call(p.id("getfenv"), [p.num(1)]), "y"), p.func([], p.block([p.ret([p.id("x"), p.id("y")])]))])])
                ss += [p.localfunction("h", p.func([], hb)),
                       p.local(["hy", "hc"], [p.call(p.id("h"), [])]),
                       p.emit([S("h"), p.id("hy"), p.id("y"), p.call(p.id("hc"), [])])]
            elif st == "getfenv":
                ss.append(p.emit([p.bin("==", p.call(p.id("getfenv"), [p.id("f")]), p.id("_G")),
                                  p.bin("==", p.call(p.id("getfenv"), []), p.id("_G")),
                                  p.bin("==", p.call(p.id("getfenv"), [p.num(0)]), p.id("_G")),
                                  p.field(p.call(p.id("getfenv"), [p.id("f")]), "x")]))
            elif st == "writer":
                wb = p.block([p.assign([p.id("x")], [S("written")]), p.ret([p.id("x")])])
                ss += [p.localfunction("w", p.func([], wb)),
                       p.local(["we"], [p.table([])]),
                       p.callstat(p.call(p.id("setfenv"), [p.id("w"), p.id("we")])),
                       p.emit([S("w"), p.call(p.id("w"), []), p.field(p.id("we"), "x"), p.id("x")])]
        ss.append(p.emit([S("end"), p.id("x")]))
        out.append((p, p.block(ss)))
    return out


def selfref_cases():
    """`local function f` binds f before its body is compiled; `local f = function`
    does not (the body sees the enclosing/global f)"""
    out = []
    for form in ("localfunction", "local=function", "local2=function", "assign"):
        for outer in ("global", "local", "none"):
            p = Prog()
            ss = []
            if outer == "global":
                ss.append(p.assign([p.id("f")], [p.str("outer-g")]))
            elif outer == "local":
                ss.append(p.local(["f"], [p.str("outer-l")]))
            body = p.block([p.ret([p.call(p.id("type"), [p.id("f")]), p.id("n")])])
            fn = p.func(["n"], body)
            inner = []
            if form == "localfunction":
                inner.append(p.localfunction("f", fn))
            elif form == "local=function":
                inner.append(p.local(["f"], [fn]))
            elif form == "local2=function":
                inner.append(p.local(["f", "g"], [fn, p.num(1)]))
            else:
                if outer == "none":
                    continue
                inner.append(p.assign([p.id("f")], [fn]))
            inner.append(p.emit([p.call(p.id("f"), [p.num(3)])]))
            ss.append(p.do(p.block(inner)))
            ss.append(p.emit([p.call(p.id("type"), [p.id("f")])]))
            out.append((p, p.block(ss)))
    return out


def goto_loop_cases():
    """loops built from goto: a local declared AFTER the label is captured on every pass; the
    backward goto sits directly in the label's block, or in nested blocks that capture nothing"""
    out = []
    for depth in (1, 2, 3):                 # nesting of the goto below the label's block
        for labelblock in ("function", "do", "while-body"):
            for cap in ("get", "incget", "modafter"):
                for extra_local in (False, True):
                    p = Prog()
                    pre = [p.local(["keep", "ki", "i"], [p.table([]), p.num(0), p.num(0)])]
                    jump = p.if_([p.bin("<=", p.id("i"), p.num(3))], [p.block([p.goto("top")])])
                    for _ in range(depth - 1):
                        jump = p.do(p.block([p.local(["pad"], [p.num(1)]), jump])) if extra_local else p.do(p.block([jump]))
                    loop = [p.label("top"),
                            p.local(["v"], [p.bin("*", p.id("i"), p.num(10))]),
                            p.assign([p.id("i")], [p.bin("+", p.id("i"), p.num(1))])] + capture_stmts(p, cap, "v") + [jump, p.emit([p.str("after"), p.id("i"), p.id("v")])]
                    if labelblock == "function":
                        pre += [p.localfunction("run", p.func([], p.block(loop))), p.callstat(p.call(p.id("run"), []))]
                    elif labelblock == "do":
                        pre.append(p.do(p.block(loop)))
                    else:
                        pre += [p.local(["once"], [p.true()]), p.while_(p.id("once"), p.block([p.assign([p.id("once")], [p.false()])] + loop))]
                    use = lambda: p.fornum("j", p.num(1), p.id("ki"), 0, p.block([p.emit([p.id("j"), p.call(p.index(p.id("keep"), p.id("j")), [])])]))
                    pre += [use(), use()]
                    out.append((p, p.block(pre)))
    return out


def late_capture_cases():
    """the jump that ends the scope of a local is written BEFORE the closure that captures the local (a label lets
    control come back to the jump after the capture): whether the jump has to close the variable is only known at the
    end of the block.  break out of every loop form, goto back above the declaration (a fresh variable per pass), goto
    forward out of the block; the jump directly in an if or below further blocks; registers reused afterwards"""
    out = []
    for jump_kind, container in [("break", "while"), ("break", "repeat"), ("break", "fornum"), ("break", "forin"),
                                 ("goto_top", "do"), ("goto_top", "function"), ("goto_top", "while-once"), ("goto_top", "chunk"),
                                 ("goto_out", "do"), ("goto_out", "while-once")]:
        for nest in (0, 1, 2):
            for cap in ("get", "incget", "modafter"):
                for two in (False, True):             # a second captured local declared next to the first
                    p = Prog()
                    pre = [p.local(["keep", "ki", "i"], [p.table([]), p.num(0), p.num(0)])]
                    jstmt = {"break": p.brk, "goto_top": lambda: p.goto("top"), "goto_out": lambda: p.goto("out")}[jump_kind]()
                    inner = p.block([jstmt])
                    for k in range(nest):
                        inner = p.block([p.local(["pad%d" % k], [p.num(k)]), p.do(inner)]) if k % 2 == 0 else p.block([p.do(inner)])
                    jump = p.if_([p.bin("==", p.bin("%", p.id("i"), p.num(2)), p.num(0))], [inner])
                    body = []
                    if jump_kind == "goto_top":
                        body.append(p.label("top"))
                    body.append(p.local(["v"] + (["w"] if two else []), [p.bin("+", p.bin("*", p.id("i"), p.num(10)), p.num(1))] + ([p.str("w")] if two else [])))
                    body += [p.label("again"), p.assign([p.id("i")], [p.bin("+", p.id("i"), p.num(1))]), jump]
                    body += capture_stmts(p, cap, "v", "w" if two else None)
                    body.append(p.if_([p.bin("<", p.id("i"), p.num(6))], [p.block([p.goto("again")])]))
                    body.append(p.emit([p.str("fell out"), p.id("i"), p.id("v")]))
                    if container == "while":
                        pre.append(p.while_(p.true(), p.block(body + [p.brk()])))
                    elif container == "repeat":
                        pre.append(p.repeat(p.block(body), p.true()))
                    elif container == "fornum":
                        pre.append(p.fornum("q", p.num(1), p.num(1), 0, p.block(body)))
                    elif container == "forin":
                        pre.append(p.forin(["q1", "q2"], [p.call(p.id("pairs"), [p.table([("p", p.num(1))])])], p.block(body)))
                    elif container == "do":
                        pre.append(p.do(p.block(body)))
                    elif container == "function":
                        pre += [p.localfunction("run", p.func([], p.block(body))), p.callstat(p.call(p.id("run"), []))]
                    elif container == "while-once":
                        pre += [p.local(["once"], [p.true()]), p.while_(p.id("once"), p.block([p.assign([p.id("once")], [p.false()])] + body))]
                    elif container == "chunk":
                        pre += body
                    if jump_kind == "goto_out":
                        pre.append(p.label("out"))
                    # the registers of the ended scope are used again before the closures run
                    pre.append(p.local(["r1", "r2", "r3", "r4", "r5"], [p.num(100), p.num(200), p.num(300), p.num(400), p.num(500)]))
                    use = lambda: p.fornum("j", p.num(1), p.id("ki"), 0, p.block([p.emit([p.id("j"), p.call(p.index(p.id("keep"), p.id("j")), [])])]))
                    pre += [use(), use(), p.emit([p.str("regs"), p.id("r1"), p.id("r5")])]
                    out.append((p, p.block(pre)))
    return out


def twin_env_cases():
    """closures made from ONE function expression that captures nothing are still separate objects, each with its own
    environment: setfenv on one (from outside, or setfenv(1, ...) run inside it) leaves the others reading and writing
    globals through the table they had; they are not equal to each other either"""
    out = []
    for how in ("loop", "factory", "factory-nested"):
        for change in ("setfenv-outside", "setfenv-inside", "both"):
            for n in (2, 3):
                p = Prog()
                lit = lambda: p.func(["cmd"], p.block([
                    p.if_([p.bin("==", p.id("cmd"), p.str("move"))], [p.block([p.callstat(p.call(p.id("setfenv"), [p.num(1), p.id("GE2")]))])]),
                    p.if_([p.bin("==", p.id("cmd"), p.str("write"))], [p.block([p.assign([p.id("written")], [p.str("w")])])]),
                    p.ret([p.id("who")])]))
                ss = [p.assign([p.id("who")], [p.str("globals")]),
                      p.local(["E1", "E2"], [p.table([("k", _name(p, "who"), p.str("E1"))]), p.table([("k", _name(p, "who"), p.str("E2"))])]),
                      p.assign([p.id("GE2")], [p.id("E2")]),     # the GLOBAL name the literal reads when told to move (it must not capture anything)
                      p.local(["fs"], [p.table([])])]
                if how == "loop":
                    ss.append(p.fornum("i", p.num(1), p.num(n), 0, p.block([p.assign([p.index(p.id("fs"), p.id("i"))], [lit()])])))
                elif how == "factory":
                    ss.append(p.localfunction("mk", p.func([], p.block([p.ret([lit()])]))))
                    ss += [p.assign([p.index(p.id("fs"), p.num(i))], [p.call(p.id("mk"), [])]) for i in range(1, n + 1)]
                else:
                    ss.append(p.localfunction("mk", p.func([], p.block([p.ret([p.call(p.paren(p.func([], p.block([p.ret([lit()])]))), [])])]))))
                    ss += [p.assign([p.index(p.id("fs"), p.num(i))], [p.call(p.id("mk"), [])]) for i in range(1, n + 1)]
                ss.append(p.emit([p.str("distinct"), p.bin("==", p.index(p.id("fs"), p.num(1)), p.index(p.id("fs"), p.num(2))),
                                  p.bin("==", p.call(p.id("getfenv"), [p.index(p.id("fs"), p.num(1))]), p.call(p.id("getfenv"), [p.index(p.id("fs"), p.num(2))]))]))
                if change in ("setfenv-outside", "both"):
                    ss.append(p.callstat(p.call(p.id("setfenv"), [p.index(p.id("fs"), p.num(1)), p.id("E1")])))
                if change in ("setfenv-inside", "both"):
                    ss.append(p.emit([p.str("moved"), p.call(p.index(p.id("fs"), p.num(n)), [p.str("move")])]))
                ss.append(p.emit([p.str("reads")] + [p.call(p.index(p.id("fs"), p.num(i)), [p.str("read")]) for i in range(1, n + 1)]))
                ss += [p.callstat(p.call(p.index(p.id("fs"), p.num(i)), [p.str("write")])) for i in range(1, n + 1)]
                ss.append(p.emit([p.str("writes"), p.id("written"), p.field(p.id("E1"), "written"), p.field(p.id("E2"), "written")]))
                ss.append(p.emit([p.str("envs")] + [p.bin("==", p.call(p.id("getfenv"), [p.index(p.id("fs"), p.num(i))]), p.id("_G")) for i in range(1, n + 1)]))
                out.append((p, p.block(ss)))
    return out
