"""Seeded, type-directed random program generator for the LuaSem-based checks.

Discipline (DESIGN section 7): programs terminate by construction (loop
counters are reserved and never assigned by bodies), functions called inside
expressions write only dedicated globals that the calling statement does not
read, one assignment never has aliasing targets, pairs() bodies are
order-insensitive.  A controlled share of programs ends in a runtime error."""
import random
from luagen import Prog, render

NUM, STR, NSTR, BOOL, NIL, TAB, REC, FN = "num", "str", "nstr", "bool", "nil", "tab", "rec", "fn"
SCALARS = [NUM, STR, NSTR, BOOL, NIL]


class Var:
    def __init__(self, name, ty, kind, assignable=True, meta=None):
        self.name, self.ty, self.kind, self.assignable, self.meta = name, ty, kind, assignable, meta


class RandGen:
    def __init__(self, rng, feats=None, size=14, err_rate=0.12):
        self.rng = rng
        self.p = Prog()
        self.scopes = [[]]            # list of lists of Var (locals); scopes[0] = chunk level
        self.fnscope = [0]            # index in scopes where the current function starts
        self.globals = []
        self.counter = 0
        self.size = size
        self.err_rate = err_rate
        self.in_loop = 0
        self.in_func = 0
        self.feats = feats or {"func", "closure", "pcall", "goto", "table", "varargs", "method"}
        self.want_error = rng.random() < err_rate
        self.error_done = False
        self.labels = 0
        self.nest = 0

    # ---- naming / scopes
    def fresh(self, prefix="v"):
        self.counter += 1
        return "%s%d" % (prefix, self.counter)

    def visible(self, ty=None, assignable=None, direct_only=False):
        out = []
        seen = set()
        for si in range(len(self.scopes) - 1, -1, -1):
            for v in reversed(self.scopes[si]):
                if v.name in seen:
                    continue
                seen.add(v.name)
                if ty is not None and v.ty != ty:
                    continue
                if assignable is not None and v.assignable != assignable:
                    continue
                out.append(v)
        for v in self.globals:
            if v.name in seen:
                continue
            if ty is not None and v.ty != ty:
                continue
            if assignable is not None and v.assignable != assignable:
                continue
            out.append(v)
        return out

    def declare(self, name, ty, assignable=True, meta=None):
        v = Var(name, ty, "local", assignable, meta)
        self.scopes[-1].append(v)
        return v

    def declare_global(self, name, ty, assignable=True, meta=None):
        for v in self.globals:
            if v.name == name:
                v.ty, v.meta = ty, meta
                return v
        v = Var(name, ty, "global", assignable, meta)
        self.globals.append(v)
        return v

    # ---- expressions
    def lit(self, ty):
        r, p = self.rng, self.p
        if ty == NUM:
            c = r.random()
            if c < 0.75:
                return p.num(r.randint(-4, 12))
            if c < 0.9:
                return p.num(r.choice([100, 255, 256, 257, 1000, 65536, 1048576]))
            return p.num(r.randint(-1000, 1000))
        if ty == STR:
            return p.str(r.choice(["", "a", "b", "ab", "abc", "hello", "x y", "A", "z\n", "\0q", "10x"]))
        if ty == NSTR:
            return p.str(r.choice(["10", "7", "0", " 5 ", "-3", "0x10", "12", "3"]))
        if ty == BOOL:
            return p.true() if r.random() < 0.5 else p.false()
        return p.nil()

    def var_expr(self, ty):
        vs = self.visible(ty)
        if not vs:
            return None
        v = self.rng.choice(vs[:6])
        return self.p.id(v.name)

    def expr(self, ty, d=2):
        r, p = self.rng, self.p
        if d <= 0 or r.random() < 0.25:
            if r.random() < 0.55:
                e = self.var_expr(ty)
                if e:
                    return e
            if ty in (TAB, REC, FN):
                return self.make(ty, d)
            return self.lit(ty)
        if ty == NUM:
            c = r.random()
            if c < 0.40:
                op = r.choice(["+", "-", "*", "+", "-"])
                return p.bin(op, self.numop(d - 1), self.numop(d - 1))
            if c < 0.48:
                return p.bin("%", self.numop(d - 1), p.num(r.choice([2, 3, 5, -3, 7])))
            if c < 0.52:
                return p.bin("^", p.num(r.randint(-3, 4)), p.num(r.randint(0, 3)))
            if c < 0.56:
                k = r.choice([1, 2, 4])
                return p.bin("/", p.bin("*", self.numop(d - 1), p.num(k)), p.num(k))
            if c < 0.62:
                return p.un("-", self.numop(d - 1))
            if c < 0.68:
                return p.un("#", self.expr(STR, d - 1))
            if c < 0.74 and "table" in self.feats:
                vs = self.visible(TAB)
                if vs:
                    v = r.choice(vs[:4])
                    if v.meta and v.meta > 0 and r.random() < 0.7:
                        return p.index(p.id(v.name), p.num(r.randint(1, v.meta)))
                    return p.un("#", p.id(v.name))
            if c < 0.80:
                # logical selection between numbers
                return p.or_(p.and_(self.expr(BOOL, d - 1), self.expr(NUM, d - 1)), self.expr(NUM, d - 1))
            if c < 0.86:
                fs = [v for v in self.visible(FN) if v.meta and v.meta["ret"] and v.meta["ret"][0] == NUM]
                if fs:
                    return self.call_of(r.choice(fs[:4]), d - 1)
            if c < 0.90 and "varargs" in self.feats:
                return p.call(p.id("select"), [p.str("#")] + [self.expr(r.choice(SCALARS), 0) for _ in range(r.randint(0, 3))])
            if c < 0.94:
                return p.call(p.id("tonumber"), [self.expr(NSTR, d - 1)])
            return self.lit(NUM)
        if ty == STR:
            c = r.random()
            if c < 0.6:
                a = self.expr(r.choice([STR, STR, NUM, NSTR]), d - 1)
                b = self.expr(r.choice([STR, STR, NUM]), d - 1)
                return p.bin("..", a, b)
            if c < 0.7:
                return p.call(p.id("tostring"), [self.expr(r.choice([NUM, BOOL, NIL, STR]), d - 1)])
            if c < 0.8:
                return p.call(p.id("type"), [self.expr(r.choice(SCALARS + [TAB, FN]), d - 1)])
            if c < 0.9:
                return p.or_(p.and_(self.expr(BOOL, d - 1), self.expr(STR, d - 1)), self.expr(STR, d - 1))
            return self.lit(STR)
        if ty == NSTR:
            return self.lit(NSTR)
        if ty == BOOL:
            c = r.random()
            if c < 0.35:
                op = r.choice(["<", "<=", ">", ">=", "==", "~="])
                return p.bin(op, self.numop(d - 1, coerce=False), self.numop(d - 1, coerce=False))
            if c < 0.45:
                return p.bin(r.choice(["<", "<=", ">", ">=", "==", "~="]), self.expr(STR, d - 1), self.expr(STR, d - 1))
            if c < 0.55:
                t1, t2 = r.choice(SCALARS), r.choice(SCALARS)
                return p.bin(r.choice(["==", "~="]), self.expr(t1, d - 1), self.expr(t2, d - 1))
            if c < 0.70:
                return p.un("not", self.expr(r.choice([BOOL, BOOL, NIL, NUM]), d - 1))
            if c < 0.85:
                return (p.and_ if r.random() < 0.5 else p.or_)(self.expr(BOOL, d - 1), self.expr(BOOL, d - 1))
            return self.lit(BOOL)
        if ty == NIL:
            if r.random() < 0.3:
                return p.and_(self.expr(NIL, 0), self.expr(r.choice(SCALARS), d - 1))
            return p.nil()
        return self.make(ty, d)

    def numop(self, d, coerce=True):
        """a numeric operand: number, or (for arithmetic) a numeric string"""
        if coerce and self.rng.random() < 0.12:
            return self.expr(NSTR, d)
        return self.expr(NUM, d)

    def make(self, ty, d):
        r, p = self.rng, self.p
        if ty == TAB:
            n = r.randint(0, 4)
            items = [("p", self.expr(NUM, min(d, 1))) for _ in range(n)]
            return p.table(items)
        if ty == REC:
            return p.table([("k", p.add("str", s=[97], name=True), self.expr(NUM, 1)),
                            ("k", p.add("str", s=[98], name=True), self.expr(NUM, 1))])
        if ty == FN:
            return self.function_expr()[0]
        raise ValueError(ty)

    def any_expr(self, d=2):
        return self.expr(self.rng.choice([NUM, NUM, STR, BOOL, NIL, NSTR]), d)

    # ---- functions
    def function_expr(self, name=None):
        """function with 0-3 params (typed num), optional varargs; body writes only
        fresh dedicated globals / its own locals / upvalue counters; returns nums."""
        r, p = self.rng, self.p
        np_ = r.randint(0, 3)
        ps = [self.fresh("p") for _ in range(np_)]
        va = "varargs" in self.feats and r.random() < 0.3
        ud = va and r.random() < 0.7
        self.scopes.append([])
        self.fnscope.append(len(self.scopes) - 1)
        saved_loop, self.in_loop = self.in_loop, 0
        self.in_func += 1
        self.nest += 1
        for q in ps:
            self.declare(q, NUM, assignable=True)
        body = []
        if r.random() < 0.25:
            # a statement that STARTS with '(' (first in its block: no separator needed)
            body.append(p.callstat(p.call(p.paren(p.id("emit")), [p.str("paren-call")])))
        for _ in range(r.randint(0, 3)):
            body.extend(self.stmt(1, infunc=True))
        nret = r.choice([0, 1, 1, 1, 2, 3])
        rets = [self.expr(NUM, 1) for _ in range(nret)]
        rty = [NUM] * nret
        if va and ud and r.random() < 0.6:
            rets.append(p.dots())
        elif va and ud and r.random() < 0.5:
            rets.append(p.call(p.id("select"), [p.str("#"), p.dots()]))
            rty.append(NUM)
        elif va and not ud and r.random() < 0.5:
            rets.append(p.field(p.id("arg"), "n"))
            rty.append(NUM)
        if rets or r.random() < 0.5:
            body.append(p.ret(rets))
        self.in_func -= 1
        self.nest -= 1
        self.in_loop = saved_loop
        self.fnscope.pop()
        self.scopes.pop()
        f = p.func(ps, p.block(body), va=va, ud=ud)
        return f, {"np": np_, "va": va, "ret": rty}

    def call_of(self, v, d, nargs=None):
        r, p = self.rng, self.p
        m = v.meta
        n = nargs if nargs is not None else max(0, m["np"] + r.choice([0, 0, 0, 0, 1, 2 if m["va"] else 0]))
        args = [self.expr(NUM, min(d, 1)) for _ in range(n)]
        return p.call(p.id(v.name), args)

    # ---- statements
    def block(self, n, d, extra=None, cond=True):
        self.scopes.append([])
        self.nest += 1 if cond else 0
        ss = []
        for _ in range(n):
            ss.extend(self.stmt(d))
        if extra:
            ss.extend(extra)
        self.nest -= 1 if cond else 0
        self.scopes.pop()
        return self.p.block(ss)

    def emit_vars(self):
        vs = [v for v in self.visible() if v.ty in (NUM, STR, NSTR, BOOL, NIL)]
        self.rng.shuffle(vs)
        return self.p.emit([self.p.id(v.name) for v in vs[:3]] or [self.p.num(0)])

    def error_stmt(self):
        """a statement that fails at run time (or raises)"""
        r, p = self.rng, self.p
        c = r.random()
        if c < 0.2:
            return p.local([self.fresh()], [p.bin("+", self.expr(NIL, 0), self.expr(NUM, 1))])
        if c < 0.35:
            return p.callstat(p.call(self.expr(NIL, 0), []))
        if c < 0.5:
            return p.local([self.fresh()], [p.index(self.expr(NIL, 0), p.num(1))])
        if c < 0.6:
            return p.local([self.fresh()], [p.bin("<", self.expr(NUM, 1), self.expr(STR, 1))])
        if c < 0.7:
            return p.local([self.fresh()], [p.bin("..", self.expr(STR, 1), self.expr(r.choice([NIL, BOOL]), 0))])
        if c < 0.85:
            return p.callstat(p.call(p.id("error"), [p.str(r.choice(["boom", "e1", ""]))]))
        if c < 0.92:
            return p.callstat(p.call(p.id("error"), [self.expr(r.choice([NUM, BOOL, NIL, TAB]), 0)]))
        return p.local([self.fresh()], [p.un("-", self.expr(r.choice([STR, BOOL]), 0))])

    def stmt(self, d, infunc=False):
        """returns a list of statements"""
        r, p = self.rng, self.p
        c = r.random()
        if self.want_error and not self.error_done and not infunc and r.random() < 0.08:
            self.error_done = True
            if "pcall" in self.feats and r.random() < 0.5:
                body = p.block([self.error_stmt()])
                return [p.emit([p.call(p.id("pcall"), [p.func([], body)])])]
            return [self.error_stmt()]
        if c < 0.16:     # local declaration
            n = r.choice([1, 1, 1, 2, 3])
            names = [self.fresh() for _ in range(n)]
            tys = [r.choice([NUM, NUM, NUM, STR, BOOL, NSTR, NIL] + ([TAB] if "table" in self.feats else [])) for _ in range(n)]
            nex = r.choice([n, n, n, max(0, n - 1), n + 1])
            es = [self.expr(tys[i] if i < n else NUM, 2) for i in range(nex)]
            for i in range(nex, n):
                tys[i] = NIL
            st = p.local(names, es)
            for i, nm in enumerate(names):
                meta = None
                if tys[i] == TAB and i < nex:
                    meta = len(p.nodes[es[i]]["it"]) if p.nodes[es[i]]["k"] == "table" else None
                    if meta is None:
                        tys[i] = TAB
                self.declare(nm, tys[i], meta=meta)
            return [st]
        if c < 0.34:     # assignment
            n = r.choice([1, 1, 2, 2, 3])
            cands = [v for v in self.visible(assignable=True) if v.ty in (NUM, STR, BOOL, NIL, NSTR)]
            if infunc:
                # inside functions assign only own locals/params (declared within the function)
                own = set()
                for sc in self.scopes[self.fnscope[-1]:]:
                    own.update(v.name for v in sc)
                cands = [v for v in cands if v.name in own]
            r.shuffle(cands)
            targets = cands[:n]
            if len(targets) < n and not infunc and self.nest == 0:
                for _ in range(n - len(targets)):
                    targets.append(self.declare_global(self.fresh("g"), NUM))
            if not targets:
                return [self.emit_vars()]
            n = len(targets)
            if self.nest > 0:      # conditional code keeps variable types (typing stays path-independent)
                newt = [t.ty for t in targets]
            else:
                newt = [r.choice([NUM, NUM, t.ty if t.ty != NIL else NUM, STR, BOOL]) for t in targets]
            es = [self.expr(newt[i], 2) for i in range(n)]
            st = p.assign([p.id(t.name) for t in targets], es)
            for t, ty in zip(targets, newt):
                t.ty = ty
            return [st]
        if c < 0.42 and "table" in self.feats:   # table field assignment
            vs = self.visible(TAB)
            if vs:
                v = r.choice(vs[:4])
                if v.meta is not None and v.assignable:
                    hi = v.meta + (0 if self.nest > 0 else 1)
                    if hi < 1:
                        return [self.emit_vars()]
                    k = r.randint(1, hi)
                    st = p.assign([p.index(p.id(v.name), p.num(k))], [self.expr(NUM, 1)])
                    if k == v.meta + 1:
                        v.meta += 1
                    return [st]
            return [self.emit_vars()]
        if c < 0.53:     # emit
            return [p.emit([self.any_expr(2) for _ in range(r.randint(1, 3))])]
        if c < 0.56:     # statements starting with a parenthesised prefix expression
            k = r.random()
            if k < 0.4:
                return [p.callstat(p.call(p.paren(p.id("emit")), [self.any_expr(1)]))]
            if k < 0.7:
                return [p.callstat(p.method(p.paren(p.table([("k", p.add("str", s=[109], name=True), p.func(["self", "a"], p.block([p.emit([p.str("m"), p.id("a")])])))])), "m", [self.any_expr(1)]))]
            return [p.assign([p.field(p.paren(p.id("_G")), self.fresh("gp"))], [self.expr(NUM, 1)])]
        if d <= 0:
            return [self.emit_vars()]
        if c < 0.66:     # if
            n = r.choice([1, 1, 2, 3])
            cs = [self.expr(r.choice([BOOL, BOOL, BOOL, NIL, NUM]), 2) for _ in range(n)]
            snap = self.snapshot()
            bs = []
            for _ in range(n):
                bs.append(self.block(r.randint(1, 2), d - 1))
                self.restore_types_unknown(snap)
            el = self.block(r.randint(1, 2), d - 1) if r.random() < 0.5 else 0
            self.restore_types_unknown(snap)
            return [p.if_(cs, bs, el)]
        if c < 0.72:     # while with reserved counter
            i = self.fresh("i")
            lim = r.randint(0, 4)
            self.declare(i, NUM, assignable=False)
            snap = self.snapshot()
            self.in_loop += 1
            self.nest += 1
            inc = p.assign([p.id(i)], [p.bin("+", p.id(i), p.num(1))])
            body_ss = [inc]
            self.scopes.append([])
            for _ in range(r.randint(1, 2)):
                body_ss.extend(self.stmt(d - 1))
            if r.random() < 0.3:
                body_ss.append(p.if_([p.bin(">=", p.id(i), p.num(r.randint(1, 3)))], [p.block([p.brk()])]))
            self.scopes.pop()
            self.in_loop -= 1
            self.nest -= 1
            self.restore_types_unknown(snap)
            return [p.local([i], [p.num(0)]), p.while_(p.bin("<", p.id(i), p.num(lim)), p.block(body_ss))]
        if c < 0.77:     # repeat
            i = self.fresh("i")
            self.declare(i, NUM, assignable=False)
            snap = self.snapshot()
            self.in_loop += 1
            self.nest += 1
            self.scopes.append([])
            body_ss = [p.assign([p.id(i)], [p.bin("+", p.id(i), p.num(1))])]
            for _ in range(r.randint(1, 2)):
                body_ss.extend(self.stmt(d - 1))
            # the condition may see a body local
            bl = self.fresh("b")
            body_ss.append(p.local([bl], [p.bin(">=", p.id(i), p.num(r.randint(1, 3)))]))
            self.scopes.pop()
            self.in_loop -= 1
            self.nest -= 1
            self.restore_types_unknown(snap)
            return [p.local([i], [p.num(0)]), p.repeat(p.block(body_ss), p.id(bl))]
        if c < 0.84:     # numeric for
            v = self.fresh("k")
            a, b = r.randint(-1, 3), r.randint(-1, 5)
            step = r.choice([0, 0, 1, 2, -1, -2])
            snap = self.snapshot()
            self.in_loop += 1
            self.nest += 1
            self.scopes.append([Var(v, NUM, "local", assignable=False)])
            body_ss = []
            for _ in range(r.randint(1, 2)):
                body_ss.extend(self.stmt(d - 1))
            if r.random() < 0.2:
                body_ss.append(p.if_([p.bin("==", p.id(v), p.num(r.randint(0, 3)))], [p.block([p.brk()])]))
            self.scopes.pop()
            self.in_loop -= 1
            self.nest -= 1
            self.restore_types_unknown(snap)
            if step < 0:
                a, b = max(a, b), min(a, b)
            return [p.fornum(v, p.num(a), p.num(b), p.num(step) if step else 0, p.block(body_ss))]
        if c < 0.88 and "table" in self.feats:   # generic for over ipairs / pairs (order-insensitive body)
            vs = self.visible(TAB)
            if vs:
                t = r.choice(vs[:4])
                acc = self.fresh("s")
                kn, vn = self.fresh("k"), self.fresh("x")
                self.declare(acc, NUM, assignable=False)
                it = r.choice(["ipairs", "pairs"])
                upd = p.assign([p.id(acc)], [p.bin("+", p.id(acc), p.bin("*", p.id(vn), p.num(r.randint(1, 3))))])
                body = [upd]
                if it == "ipairs":
                    body.append(p.emit([p.id(kn), p.id(vn)]))
                return [p.local([acc], [p.num(0)]),
                        p.forin([kn, vn], [p.call(p.id(it), [p.id(t.name)])], p.block(body)),
                        p.emit([p.id(acc)])]
            return [self.emit_vars()]
        if c < 0.91:     # do block
            return [p.do(self.block(r.randint(1, 3), d - 1, cond=False))]
        if c < 0.96 and "func" in self.feats and self.in_func < 2:
            name = self.fresh("f")
            f, meta = self.function_expr()
            form = r.random()
            if form < 0.4:
                st = p.localfunction(name, f)
                self.declare(name, FN, assignable=False, meta=meta)
            elif form < 0.7:
                st = p.local([name], [f])
                self.declare(name, FN, assignable=False, meta=meta)
            else:
                # global function: plain assignment or the statement sugar "function name(...) end"
                st = p.assign([p.id(name)], [f]) if form < 0.85 else p.funcstat(p.id(name), f)
                self.declare_global(name, FN, assignable=False, meta=meta)
            out = [st]
            v = [x for x in self.visible(FN) if x.name == name][0]
            for _ in range(r.randint(1, 2)):
                out.append(p.emit([self.call_of(v, 1)] if r.random() < 0.7 else [p.num(0), self.call_of(v, 1), p.num(1)]))
            return out
        if c < 0.98 and "goto" in self.feats and not infunc:
            # continue-style / forward goto
            self.labels += 1
            lab = "L%d" % self.labels
            i = self.fresh("i")
            self.declare(i, NUM, assignable=False)
            snap = self.snapshot()
            self.scopes.append([])
            self.nest += 1
            body = [p.assign([p.id(i)], [p.bin("+", p.id(i), p.num(1))]),
                    p.if_([p.bin("==", p.bin("%", p.id(i), p.num(2)), p.num(0))], [p.block([p.goto(lab)])])]
            body.extend(self.stmt(d - 1))
            body.append(p.label(lab))
            self.nest -= 1
            self.scopes.pop()
            self.restore_types_unknown(snap)
            return [p.local([i], [p.num(0)]), p.while_(p.bin("<", p.id(i), p.num(r.randint(1, 4))), p.block(body))]
        return [self.emit_vars()]

    # conservative typing across branches: variables assigned inside a branch or
    # loop body may or may not have changed; re-assign them afterwards
    def snapshot(self):
        return [(v, v.ty, v.meta) for v in self.visible()]

    def restore_types_unknown(self, snap):
        self.fixups = getattr(self, "fixups", [])
        for v, ty, meta in snap:
            if v.ty != ty or v.meta != meta:
                v.ty, v.meta = ty, meta
                v.dirty = True

    def program(self):
        ss = []
        for _ in range(self.size):
            out = self.stmt(2)
            ss.extend(out)
            # variables whose type became path-dependent are re-initialised
            fix = []
            for v in self.visible():
                if getattr(v, "dirty", False) and v.ty in SCALARS:
                    v.dirty = False
                    if v.assignable:
                        fix.append(self.p.assign([self.p.id(v.name)], [self.lit(v.ty)]))
                elif getattr(v, "dirty", False):
                    v.dirty = False
            ss.extend(fix)
        ss.append(self.emit_vars())
        if self.rng.random() < 0.7:
            ss.append(self.p.ret([self.any_expr(2) for _ in range(self.rng.randint(0, 3))]))
        return self.p.block(ss)


def gen_program(seed, **kw):
    rng = random.Random(seed)
    g = RandGen(rng, **kw)
    root = g.program()
    src = render(g.p, root, rng=rng, extra_parens=0.05)
    return g.p, root, src
