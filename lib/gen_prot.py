"""C05 corpus: protected bodies that assign locals/upvalues/globals/table
fields, create closures, call functions and host functions, nest pcall/xpcall,
run inside metamethods and iterators; error values of every type."""
import random
from luagen import Prog, render
import gen_core
from gen_core import RandGen, NUM, STR, BOOL, TAB, FN

MODES = ["pcall", "xpcall", "nested", "meta", "iter", "gopcall", "xnested"]


def prot_program(seed, mode=None, size=4):
    rng = random.Random(seed)
    mode = mode or rng.choice(MODES)
    g = RandGen(rng, feats={"func", "closure", "table", "pcall", "varargs"}, size=size, err_rate=0.0)
    p = g.p
    ss = [p.local(["a", "b"], [p.num(1), p.str("s")]),
          p.assign([p.id("g1")], [p.num(3)]),
          p.local(["t"], [p.table([("p", p.num(10)), ("p", p.num(20)), ("p", p.num(30))])])]
    g.declare("a", NUM)
    g.declare("b", STR)
    g.declare_global("g1", NUM)
    g.declare("t", TAB, meta=3)
    # ---- the protected body
    g.scopes.append([])
    g.fnscope.append(len(g.scopes) - 1)
    g.nest += 1
    body = []
    for _ in range(size):
        body.extend(g.stmt(2))
    body.append(p.ret([p.id("a"), p.num(77)]))
    g.nest -= 1
    g.fnscope.pop()
    g.scopes.pop()
    bodyfn = p.func([], p.block(body))
    ss.append(p.localfunction("body", bodyfn))
    handler = lambda: p.func(["m"], p.block([p.emit([p.str("handler"), p.call(p.id("type"), [p.id("m")])]), p.ret([p.str("handled")])]))
    if mode == "pcall":
        ss.append(p.emit([p.str("r"), p.call(p.id("pcall"), [p.id("body")])]))
    elif mode == "xpcall":
        ss.append(p.emit([p.str("r"), p.call(p.id("xpcall"), [p.id("body"), handler()])]))
    elif mode == "nested":
        outer = p.func([], p.block([p.emit([p.str("inner"), p.call(p.id("pcall"), [p.id("body")])]),
                                    p.assign([p.id("g1")], [p.bin("+", p.id("g1"), p.num(1))]),
                                    p.ret([p.call(p.id("body"), [])])]))
        ss.append(p.emit([p.str("r"), p.call(p.id("pcall"), [outer])]))
    elif mode == "xnested":
        outer = p.func([], p.block([p.emit([p.str("inner"), p.call(p.id("xpcall"), [p.id("body"), handler()])]),
                                    p.emit([p.str("inner2"), p.call(p.id("pcall"), [p.id("body")])]),
                                    p.ret([p.num(5)])]))
        ss.append(p.emit([p.str("r"), p.call(p.id("xpcall"), [outer, handler()])]))
    elif mode == "meta":
        mt = p.table([("k", p.add("str", s=list(b"__index"), name=True),
                       p.func(["tt", "k"], p.block([p.ret([p.call(p.id("body"), [])])])))])
        ss.append(p.local(["o"], [p.call(p.id("setmetatable"), [p.table([]), mt])]))
        ss.append(p.emit([p.str("r"), p.call(p.id("pcall"), [p.func([], p.block([p.ret([p.field(p.id("o"), "missing")])]))])]))
    elif mode == "iter":
        itf = p.func(["s", "c"], p.block([p.if_([p.bin(">=", p.id("c"), p.num(2))], [p.block([p.ret([p.nil()])])]),
                                          p.callstat(p.call(p.id("body"), [])),
                                          p.ret([p.bin("+", p.id("c"), p.num(1))])]))
        loop = p.forin(["i"], [itf, p.nil(), p.num(0)], p.block([p.emit([p.str("it"), p.id("i")])]))
        ss.append(p.emit([p.str("r"), p.call(p.id("pcall"), [p.func([], p.block([loop, p.ret([p.str("loop-done")])]))])]))
    elif mode == "gopcall":
        ss.append(p.emit([p.str("r"), p.call(p.id("body"), [])]))
    # control-skeleton snapshots right before the protected statement and right after it,
    # at the same place of the same activation (no local is declared in between)
    ss.insert(len(ss) - 1, p.callstat(p.call(p.id("snap"), [p.num(1)])))
    ss.append(p.callstat(p.call(p.id("snap"), [p.num(1)])))
    # ---- state afterwards and later behaviour
    ss.append(p.emit([p.str("after"), p.id("a"), p.id("b"), p.id("g1"), p.index(p.id("t"), p.num(1)), p.index(p.id("t"), p.num(2)), p.index(p.id("t"), p.num(3))]))
    ss.append(p.localfunction("later", p.func(["x"], p.block([p.local(["y"], [p.bin("*", p.id("x"), p.num(2))]), p.ret([p.id("y"), p.id("g1")])]))))
    ss.append(p.emit([p.str("later"), p.call(p.id("later"), [p.num(21)]), p.call(p.id("pcall"), [p.id("later"), p.num(4)])]))
    root = p.block(ss)
    return p, root, render(p, root), mode


ERRVALS = ["str", "num", "nil", "true", "false", "table", "func", "emptystr", "numstr", "pct1", "pct2", "pct3", "pct4"]
STRKINDS = ("str", "emptystr", "numstr", "pct1", "pct2", "pct3", "pct4")     # error values that are strings (messages must arrive byte for byte)


def errval_program(kind, catcher, level, via, callstyle="plain"):
    """error(v [,level]) for v of every type, raised directly / from a nested function /
    from a host function, caught by pcall / xpcall / nested"""
    p = Prog()
    val = {"str": lambda: p.str("msg"), "num": lambda: p.num(42), "nil": lambda: p.nil(), "true": lambda: p.true(), "false": lambda: p.false(),
           "table": lambda: p.id("errtab"), "func": lambda: p.id("errfn"), "emptystr": lambda: p.str(""), "numstr": lambda: p.str("12"),
           "pct1": lambda: p.str("disk 100% full"), "pct2": lambda: p.str("%d %s %v"), "pct3": lambda: p.str("trailing %"), "pct4": lambda: p.str("%%")}[kind]
    ss = [p.local(["errtab", "errfn"], [p.table([("k", p.add("str", s=list(b"code"), name=True), p.num(7))]), p.func([], p.block([]))]),
          p.emit([p.id("errtab"), p.id("errfn")]),
          p.local(["x"], [p.num(1)])]
    if via == "error":
        args = [val()] + ([p.num(level)] if level is not None else [])
        raiser = [p.assign([p.id("x")], [p.num(2)]), p.callstat(p.call(p.id("error"), args)), p.assign([p.id("x")], [p.num(3)])]
    elif via == "gerr":
        raiser = [p.assign([p.id("x")], [p.num(2)]), p.callstat(p.call(p.id("gerr"), [val() if kind in STRKINDS and kind != "str" else p.str("host-msg")])), p.assign([p.id("x")], [p.num(3)])]
    elif via == "gpanic":
        raiser = [p.assign([p.id("x")], [p.num(2)]), p.callstat(p.call(p.id("gpanic"), [val() if kind in STRKINDS and kind != "str" else p.str("go-panic")])), p.assign([p.id("x")], [p.num(3)])]
    elif via == "assert":
        raiser = [p.assign([p.id("x")], [p.num(2)]), p.callstat(p.call(p.id("assert"), [p.false()] + ([val()] if kind in STRKINDS else []))), p.assign([p.id("x")], [p.num(3)])]
    ss.append(p.localfunction("thrower", p.func([], p.block(raiser))))
    # how the failing function is reached: the name the call site gives it feeds the stack trace
    ss.append(p.local(["holder"], [p.table([("k", p.str(""), p.id("thrower")), ("k", p.str("a b"), p.id("thrower")), ("k", p.add("str", s=list(b"m"), name=True), p.func(["self"], p.block([p.ret([p.call(p.id("thrower"), [])])])))])]))
    if callstyle == "emptykey":
        thecall = p.call(p.index(p.id("holder"), p.str("")), [])
    elif callstyle == "oddkey":
        thecall = p.call(p.index(p.id("holder"), p.str("a b")), [])
    elif callstyle == "method":
        thecall = p.method(p.id("holder"), "m", [])
    else:
        thecall = p.call(p.id("thrower"), [])
    ss.append(p.localfunction("caller", p.func([], p.block([p.callstat(thecall), p.emit([p.str("not reached")])]))))
    h = lambda: p.func(["m"], p.block([p.emit([p.str("handler"), p.id("m"), p.id("x")]), p.ret([p.id("m"), p.str("extra")])]))
    target = lambda: p.id("caller")
    if callstyle == "callable":      # what the protected call is given is not a function but an object with __call
        ss.append(p.local(["cobj"], [p.call(p.id("setmetatable"), [p.table([]), p.table([("k", p.add("str", s=list(b"__call"), name=True),
                                     p.func(["self"], p.block([p.emit([p.str("via __call"), p.call(p.id("select"), [p.str("#"), p.dots()])]), p.ret([p.call(p.id("caller"), [])])]), va=True, ud=True))])])]))
        target = lambda: p.id("cobj")
    elif callstyle == "uncallable":  # ... or nothing that can be called: the fault is raised inside the protected call
        target = lambda: p.num(5)
    if callstyle in ("callable", "uncallable") and catcher in ("nested", "none"):
        catcher = "pcall"
    if catcher == "pcall":
        ss.append(p.emit([p.str("r"), p.call(p.id("pcall"), [target()])]))
    elif catcher == "xpcall":
        ss.append(p.emit([p.str("r"), p.call(p.id("xpcall"), [target(), h()])]))
    elif catcher == "nested":
        inner = p.func([], p.block([p.emit([p.str("inner"), p.call(p.id("pcall"), [p.id("caller")])]), p.callstat(p.call(p.id("caller"), []))]))
        ss.append(p.emit([p.str("r"), p.call(p.id("pcall"), [inner])]))
    elif catcher == "none":
        ss.append(p.callstat(p.call(p.id("caller"), [])))
    ss.append(p.emit([p.str("after"), p.id("x")]))
    return p, p.block(ss)


def depth_program(target, catcher="pcall", raise_depth=3):
    """a protected call whose own frame sits at call depth `target`, failing raise_depth frames
    deeper; afterwards every enclosing activation must still be there and return normally"""
    p = Prog()
    deeper = p.func(["k"], p.block([p.if_([p.bin("==", p.id("k"), p.num(0))], [p.block([p.callstat(p.call(p.id("error"), [p.str("E")]))])]),
                                    p.ret([p.bin("+", p.num(1), p.call(p.id("deeper"), [p.bin("-", p.id("k"), p.num(1))]))])]))
    if catcher == "pcall":
        caught = p.call(p.id("pcall"), [p.id("deeper"), p.num(raise_depth)])
    else:
        caught = p.call(p.id("xpcall"), [p.func([], p.block([p.ret([p.call(p.id("deeper"), [p.num(raise_depth)])])])),
                                         p.func(["m"], p.block([p.ret([p.bin("..", p.str("h:"), p.id("m"))])]))])
    rec = p.func(["d"], p.block([
        p.local(["mine"], [p.bin("*", p.id("d"), p.num(10))]),
        p.if_([p.bin("==", p.id("d"), p.num(target))], [p.block([p.emit([p.str("caught"), p.id("d"), caught]), p.ret([p.id("mine")])])]),
        p.local(["r"], [p.call(p.id("rec"), [p.bin("+", p.id("d"), p.num(1))])]),
        p.emit([p.str("back"), p.id("d"), p.id("mine"), p.id("r")]),
        p.ret([p.bin("+", p.id("r"), p.num(1))])]))
    ss = [p.localfunction("deeper", deeper), p.localfunction("rec", rec),
          p.emit([p.str("result"), p.call(p.id("rec"), [p.num(1)])]),
          p.emit([p.str("again"), p.call(p.id("pcall"), [p.id("rec"), p.num(1)])])]
    return p, p.block(ss)


def wraperr_program(raise_kind, resumer, catcher):
    """an error escapes a coroutine.wrap function and is caught in its resumer; afterwards the resumer
    still is who it was (running/status), the dead function stays dead, and other coroutines work"""
    p = Prog()
    co = lambda n: p.field(p.id("coroutine"), n)
    fail = {"error": lambda: p.callstat(p.call(p.id("error"), [p.str("in-wrap")])),
            "errtab": lambda: p.callstat(p.call(p.id("error"), [p.id("errtab")])),
            "fault": lambda: p.local(["zz"], [p.bin("+", p.nil(), p.num(1))]),
            "gerr": lambda: p.callstat(p.call(p.id("gerr"), [p.str("host")])),
            "gpanic": lambda: p.callstat(p.call(p.id("gpanic"), [p.str("panic")])),
            "after-yield": lambda: p.callstat(p.call(p.id("error"), [p.str("late")]))}[raise_kind]
    body = [p.emit([p.str("w-start"), p.id("a")])]
    if raise_kind == "after-yield":
        body.append(p.callstat(p.call(co("yield"), [p.num(1)])))
    body.append(fail())
    ss = [p.local(["errtab"], [p.table([])]), p.emit([p.id("errtab")])]
    h = p.func(["m"], p.block([p.emit([p.str("handler"), p.call(co("running"), []) if resumer == "main" else p.bin("==", p.call(co("running"), []), p.id("me"))]), p.ret([p.id("m")])]))
    def caught(call):
        return p.call(p.id("pcall"), [call[0]] + call[1]) if catcher == "pcall" else p.call(p.id("xpcall"), [p.func([], p.block([p.ret([p.call(call[0], call[1])])])), h])
    drive = [p.local(["w"], [p.call(co("wrap"), [p.func(["a"], p.block(body))])])]
    if raise_kind == "after-yield":
        drive.append(p.emit([p.str("first"), p.call(p.id("w"), [p.num(7)])]))
    drive += [p.emit([p.str("caught"), caught((p.id("w"), [p.num(8)]))]),
              p.emit([p.str("who"), p.call(co("running"), []) if resumer == "main" else p.bin("==", p.call(co("running"), []), p.id("me")),
                      p.call(co("status"), [p.id("me")]) if resumer != "main" else p.str("-")]),
              p.emit([p.str("again"), p.call(p.id("pcall"), [p.id("w"), p.num(9)])]),
              p.local(["c2"], [p.call(co("create"), [p.func(["x"], p.block([p.local(["y"], [p.call(co("yield"), [p.bin("+", p.id("x"), p.num(1))])]), p.ret([p.bin("*", p.id("y"), p.num(2))])]))])]),
              p.emit([p.str("other"), p.call(co("resume"), [p.id("c2"), p.num(1)]), p.call(co("resume"), [p.id("c2"), p.num(5)]), p.call(co("status"), [p.id("c2")])])]
    if resumer == "main":
        ss += drive
    else:
        ss += [p.local(["me"], []),
               p.assign([p.id("me")], [p.call(co("create"), [p.func([], p.block(drive + [p.local(["v"], [p.call(co("yield"), [p.str("mid")])]),
                                                                                            p.emit([p.str("resumed"), p.id("v"), p.call(co("status"), [p.id("me")])]), p.ret([p.str("me-done")])]))])]),
               p.emit([p.str("r1"), p.call(co("resume"), [p.id("me")])]),
               p.emit([p.str("st"), p.call(co("status"), [p.id("me")]), p.call(co("running"), [])]),
               p.emit([p.str("r2"), p.call(co("resume"), [p.id("me"), p.num(3)])]),
               p.emit([p.str("st"), p.call(co("status"), [p.id("me")])])]
    return p, p.block(ss)


def bottom_tail_program(level, where, kind):
    """error(msg, level) from a function that was TAIL-called by the bottom function of a coroutine /
    of a protected call: there is no caller frame left to name; the error must still be an ordinary one"""
    p = Prog()
    co = lambda n: p.field(p.id("coroutine"), n)
    val = {"str": lambda: p.str("bad"), "tab": lambda: p.table([]), "nil": lambda: p.nil()}[kind]
    args = [val()] + ([p.num(level)] if level is not None else [])
    check = p.func(["x"], p.block([p.callstat(p.call(p.id("error"), args))]))
    mid = p.func(["x"], p.block([p.ret([p.call(p.id("check"), [p.id("x")])])]))
    ss = [p.localfunction("check", check), p.localfunction("mid", mid)]
    bottom = lambda: p.func(["x"], p.block([p.ret([p.call(p.id("mid"), [p.id("x")])])]))
    if where == "wrap":
        ss.append(p.emit([p.str("r"), p.call(p.id("pcall"), [p.call(co("wrap"), [bottom()]), p.num(1)])]))
    elif where == "resume":
        ss.append(p.emit([p.str("r"), p.call(co("resume"), [p.call(co("create"), [bottom()]), p.num(1)])]))
    elif where == "pcall":
        ss.append(p.emit([p.str("r"), p.call(p.id("pcall"), [bottom(), p.num(1)])]))
    elif where == "xpcall":
        ss.append(p.emit([p.str("r"), p.call(p.id("xpcall"), [p.func([], p.block([p.ret([p.call(p.id("mid"), [p.num(1)])])])), p.func(["m"], p.block([p.ret([p.call(p.id("type"), [p.id("m")])])]))])]))
    elif where == "gcall":
        ss.append(p.emit([p.str("r"), p.call(p.id("pcall"), [p.id("gcall"), bottom(), p.num(1)])]))
    ss.append(p.emit([p.str("after"), p.call(p.id("pcall"), [p.id("check"), p.num(2)])]))
    return p, p.block(ss)


def overflow_program(catcher, shape, handler="plain"):
    """recursion without bound under a protected call: the "stack overflow" error is an ordinary error; xpcall's
    handler runs exactly once before unwinding (Lua 5.1 keeps spare frames for it) and its result is what comes back"""
    p = Prog()
    ss = [p.callstat(p.call(p.id("glimit"), [p.num(30)])), p.local(["x", "hits"], [p.num(1), p.num(0)])]
    if shape == "plain":
        deep = p.func(["k"], p.block([p.ret([p.bin("+", p.num(1), p.call(p.id("deep"), [p.bin("+", p.id("k"), p.num(1))]))])]))
    elif shape == "capture":      # every level captures a local: the upvalues of all levels are closed by the unwinding
        deep = p.func(["k"], p.block([p.local(["y"], [p.id("k")]), p.local(["g"], [p.func([], p.block([p.ret([p.id("y")])]))]),
                                      p.ret([p.bin("+", p.call(p.id("deep"), [p.bin("+", p.id("k"), p.num(1))]), p.call(p.id("g"), []))])]))
    elif shape == "method":
        deep = p.func(["k"], p.block([p.local(["o"], [p.table([("k", p.add("str", s=list(b"m"), name=True), p.id("deep"))])]),
                                      p.ret([p.bin("+", p.num(1), p.method(p.id("o"), "m", []))])]))
    elif shape == "pcall-inside":  # an inner pcall catches the overflow and the level raises it again
        deep = p.func(["k"], p.block([p.local(["ok", "e"], [p.call(p.id("pcall"), [p.id("deep"), p.bin("+", p.id("k"), p.num(1))])]),
                                      p.callstat(p.call(p.id("error"), [p.id("e"), p.num(0)]))]))
    ss.append(p.local(["deep"], [p.nil()]))
    ss.append(p.assign([p.id("deep")], [deep]))
    if handler == "plain":
        h = p.func(["m"], p.block([p.assign([p.id("hits")], [p.bin("+", p.id("hits"), p.num(1))]), p.emit([p.str("handler"), p.call(p.id("type"), [p.id("m")]), p.id("hits"), p.id("x")]), p.ret([p.str("handled"), p.str("extra")])]))
    elif handler == "calls":       # the handler itself calls a few levels deep
        h = p.func(["m"], p.block([p.localfunction("down", p.func(["n"], p.block([p.if_([p.bin("==", p.id("n"), p.num(0))], [p.block([p.ret([p.str("bottom")])])]),
                                                                                   p.ret([p.call(p.id("down"), [p.bin("-", p.id("n"), p.num(1))])])]))),
                                   p.assign([p.id("hits")], [p.bin("+", p.id("hits"), p.num(1))]),
                                   p.emit([p.str("handler"), p.call(p.id("type"), [p.id("m")]), p.id("hits"), p.call(p.id("down"), [p.num(3)])]), p.ret([p.str("handled")])]))
    if catcher == "pcall":
        ss.append(p.emit([p.str("r"), p.call(p.id("select"), [p.num(1), p.call(p.id("pcall"), [p.id("deep"), p.num(1)])])]))
        ss.append(p.emit([p.str("type"), p.call(p.id("type"), [p.call(p.id("select"), [p.num(2), p.call(p.id("pcall"), [p.id("deep"), p.num(1)])])])]))
    elif catcher == "xpcall":
        ss.append(p.emit([p.str("r"), p.call(p.id("xpcall"), [p.func([], p.block([p.ret([p.call(p.id("deep"), [p.num(1)])])])), h])]))
        ss.append(p.emit([p.str("hits"), p.id("hits")]))
    elif catcher == "co":          # the overflow kills a coroutine; resume reports it
        ss.append(p.local(["co"], [p.call(p.field(p.id("coroutine"), "create"), [p.id("deep")])]))
        ss.append(p.emit([p.str("r"), p.call(p.id("select"), [p.num(1), p.call(p.field(p.id("coroutine"), "resume"), [p.id("co"), p.num(1)])]), p.call(p.field(p.id("coroutine"), "status"), [p.id("co")])]))
    # afterwards the state works: bounded recursion and another protected call
    ss.append(p.localfunction("fin", p.func(["n"], p.block([p.if_([p.bin("==", p.id("n"), p.num(0))], [p.block([p.ret([p.num(0)])])]), p.ret([p.bin("+", p.num(1), p.call(p.id("fin"), [p.bin("-", p.id("n"), p.num(1))]))])]))))
    ss.append(p.emit([p.str("after"), p.id("x"), p.call(p.id("fin"), [p.num(10)]), p.call(p.id("pcall"), [p.id("error"), p.table([])])]))
    return p, p.block(ss)
