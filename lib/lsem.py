"""Shared pipeline for the LuaSem-based checks: programs (flat AST + rendered
source) -> real interpreter (harness lua-run) -> recorded traces -> TLC
(LuaSemTrace) -> verdicts."""
import json, os, time
import vlib


def run_real(progs, tag, extra=None, timeout=1200):
    """progs: list of dicts with id, src (+ optional budget/fault/opts).
    Returns {id: result} from the real interpreter."""
    d = vlib.subdir("lsem")
    inp = os.path.join(d, "in_%s.ndjson" % tag)
    outp = os.path.join(d, "out_%s.ndjson" % tag)
    recs = []
    for p in progs:
        r = {"id": p["id"], "src": p["src"]}
        for k in ("budget", "fault", "opts", "snap"):
            if k in p:
                r[k] = p[k]
        recs.append(r)
    vlib.write_ndjson(inp, recs)
    vlib.run_harness(["lua-run", "--in", inp, "--out", outp] + (extra or []), timeout=timeout)
    outs = {o["id"]: o for o in vlib.read_ndjson(open(outp).read())}
    os.remove(inp)
    os.remove(outp)
    if len(outs) != len(progs):
        raise vlib.Infra("lua-run returned %d results for %d programs" % (len(outs), len(progs)))
    return outs


def trace_records(progs, outs):
    recs = []
    for p in progs:
        o = outs[p["id"]]
        recs.append({"id": p["id"], "root": p["root"], "nodes": p["nodes"],
                     "trace": {"emits": o["emits"], "outcome": o["outcome"][:2]}})
    return recs


def validate(progs, outs, tag, stats, max_steps=20000, batch=150, module="LuaSemTrace", cfg="LuaSemTrace", extra_consts=None):
    """Returns {id: verdict}.  Crashes / hangs / Go panics of the real code are
    verdicts of their own (no specification admits them)."""
    verdicts = {}
    todo = []
    for p in progs:
        o = outs[p["id"]]
        oc = o["outcome"][0]
        if oc in ("crash", "hang", "gopanic", "loaderr"):
            verdicts[p["id"]] = {"id": p["id"], "v": "bad", "at": -1, "exp": "a Lua outcome", "got": o["outcome"], "why": oc}
        else:
            todo.append(p)
    recs = trace_records(todo, outs)
    consts = {"MaxSteps": str(max_steps)}
    if extra_consts:
        consts.update(extra_consts)
    for r in vlib.validate_batches(module, cfg, recs, "lsem_" + tag, batch=batch, parallel=4, timeout=1500,
                                   extra_consts=consts, heap="4g"):
        stats["states"] += r.distinct
        stats["transitions"] += r.generated
        vs = r.tag("VERDICT")
        if len(vs) != r.nrecords:
            raise vlib.Infra("%s: %d verdicts for %d programs (%s)" % (module, len(vs), r.nrecords, tag))
        for v in vs:
            verdicts[v["id"]] = v
    return verdicts


def summarize(verdicts):
    c = {"ok": 0, "bad": 0, "unmod": 0}
    why = {}
    for v in verdicts.values():
        c[v["v"]] = c.get(v["v"], 0) + 1
        if v["v"] == "unmod":
            why[v.get("why", "?")] = why.get(v.get("why", "?"), 0) + 1
    return c, why


def tok_str(t):
    """human-readable rendering of a token (for messages)"""
    try:
        if isinstance(t, list) and t and t[0] == "s":
            return repr(bytes(t[1]).decode("latin-1"))
        if isinstance(t, list) and t and isinstance(t[0], list):
            return "(" + ", ".join(tok_str(x) for x in t) + ")"
        if isinstance(t, list) and len(t) == 2 and t[0] in ("ok", "err") :
            return "%s %s" % (t[0], tok_str(t[1]))
        return json.dumps(t)
    except Exception:
        return json.dumps(t)
