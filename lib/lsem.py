"""Shared pipeline for the LuaSem-based checks: programs (flat AST + rendered
source) -> real interpreter (harness lua-run) -> recorded traces -> TLC
(LuaSemTrace) -> verdicts."""
import json, os, time
import vlib


def run_real(progs, tag, extra=None, timeout=1200):
    """progs: list of dicts with id, src (+ optional budget/fault/opts).
    Returns {id: result} from the real interpreter."""
    d = vlib.subdir("lsem")
    inp = os.path.join(d, "in_%s.ndjson" % tag)
    outp = os.path.join(d, "out_%s.ndjson" % tag)
    recs = []
    for p in progs:
        r = {"id": p["id"], "src": p["src"]}
        for k in ("budget", "fault", "opts", "snap", "deadline_ms"):
            if k in p:
                r[k] = p[k]
        recs.append(r)
    vlib.write_ndjson(inp, recs)
    vlib.run_harness(["lua-run", "--in", inp, "--out", outp] + (extra or []), timeout=timeout)
    outs = {o["id"]: o for o in vlib.read_ndjson(open(outp).read())}
    os.remove(inp)
    os.remove(outp)
    if len(outs) != len(progs):
        raise vlib.Infra("lua-run returned %d results for %d programs" % (len(outs), len(progs)))
    return outs


GO_PANIC_MARKS = (b"invalid memory address or nil pointer dereference", b"runtime error: index out of range", b"runtime error: slice bounds out of range",
                  b"interface conversion:", b"runtime error: integer divide by zero")


def _emitted_bytes(o):
    n = 0
    stack = [o.get("emits"), o.get("outcome")]
    while stack:
        x = stack.pop()
        if isinstance(x, list):
            if len(x) == 2 and x[0] == "s" and isinstance(x[1], list):
                n += len(x[1])
            else:
                stack.extend(x)
    return n


def go_panic_text(o):
    """the first string token of a run (emitted values, results, error value) that carries the text of a Go run-time panic"""
    def walk(x):
        if isinstance(x, list):
            if len(x) == 2 and x[0] == "s" and isinstance(x[1], list):
                b = bytes(v & 255 for v in x[1])
                for m in GO_PANIC_MARKS:
                    if m in b:
                        return b.decode("latin-1")[:160]
                return None
            for y in x:
                r = walk(y)
                if r:
                    return r
        return None
    return walk(o.get("emits")) or walk(o.get("outcome"))


def trace_records(progs, outs):
    recs = []
    for p in progs:
        o = outs[p["id"]]
        recs.append({"id": p["id"], "root": p["root"], "nodes": p["nodes"],
                     "trace": {"emits": o["emits"], "outcome": o["outcome"][:2]}})
    return recs


def validate(progs, outs, tag, stats, max_steps=20000, batch=150, module="LuaSemTrace", cfg="LuaSemTrace", extra_consts=None):
    """Returns {id: verdict}.  Crashes / hangs / Go panics of the real code are
    verdicts of their own (no specification admits them)."""
    verdicts = {}
    todo = []
    for p in progs:
        o = outs[p["id"]]
        oc = o["outcome"][0]
        if oc in ("crash", "hang", "gopanic", "loaderr"):
            verdicts[p["id"]] = {"id": p["id"], "v": "bad", "at": -1, "exp": "a Lua outcome", "got": o["outcome"], "why": oc}
        elif _emitted_bytes(o) > 200000:
            # a program that blows a string up exponentially: the run is not sent to TLC (outside the model)
            verdicts[p["id"]] = {"id": p["id"], "v": "unmod", "why": "string too long", "steps": 0}
        elif go_panic_text(o) and not any(m in p["src"].encode("latin-1", "replace") for m in GO_PANIC_MARKS):
            # a Go run-time panic (nil dereference, index out of range, failed type assertion) that surfaced as the
            # text of a Lua error: no specification admits it, whether or not the position of that error is judged
            verdicts[p["id"]] = {"id": p["id"], "v": "bad", "at": -1, "exp": "a Lua outcome", "got": go_panic_text(o), "why": "go-runtime-panic-text"}
        else:
            todo.append(p)
    recs = trace_records(todo, outs)
    consts = {"MaxSteps": str(max_steps)}
    if extra_consts:
        consts.update(extra_consts)
    for r in vlib.validate_batches(module, cfg, recs, "lsem_" + tag, batch=batch, parallel=4, timeout=1500,
                                   extra_consts=consts, heap="4g"):
        stats["states"] += r.distinct
        stats["transitions"] += r.generated
        vs = r.tag("VERDICT")
        if len(vs) != r.nrecords:
            raise vlib.Infra("%s: %d verdicts for %d programs (%s)" % (module, len(vs), r.nrecords, tag))
        for v in vs:
            verdicts[v["id"]] = v
    return verdicts


def summarize(verdicts):
    c = {"ok": 0, "bad": 0, "unmod": 0}
    why = {}
    for v in verdicts.values():
        c[v["v"]] = c.get(v["v"], 0) + 1
        if v["v"] == "unmod":
            why[v.get("why", "?")] = why.get(v.get("why", "?"), 0) + 1
    return c, why


def tok_str(t):
    """human-readable rendering of a token (for messages)"""
    try:
        if isinstance(t, list) and t and t[0] == "s":
            return repr(bytes(t[1]).decode("latin-1"))
        if isinstance(t, list) and t and isinstance(t[0], list):
            return "(" + ", ".join(tok_str(x) for x in t) + ")"
        if isinstance(t, list) and len(t) == 2 and t[0] in ("ok", "err") :
            return "%s %s" % (t[0], tok_str(t[1]))
        return json.dumps(t)
    except Exception:
        return json.dumps(t)


def default_classify(prop):
    def classify(p, v, out):
        """narrow case key of a rejected program: family + kind of mismatch + source hash"""
        if v.get("at", 0) == -1:
            return "%s:%s:%s" % (prop, p["fam"], v.get("why"))
        exp, got = v.get("exp"), v.get("got")
        kind = "value"
        if v.get("at") == 0 and isinstance(exp, list) and isinstance(got, list) and exp and got and exp[0] != got[0]:
            kind = "%s-instead-of-%s" % (got[0], exp[0])
        elif v.get("at") == 0 and exp and exp[0] == "err":
            kind = "error-value-or-line"
        return "%s:%s:%s:%s" % (prop, p["fam"], kind, vlib.canon_hash(p["src"])[:10])
    return classify


def decide(prop, progs, tag, verd, stats, counts, samples, classify=None, max_steps=20000, batch=150):
    """run, validate, reproduce candidates on a fresh interpreter, report."""
    classify = classify or default_classify(prop)
    outs = run_real(progs, tag)
    verdicts = validate(progs, outs, tag, stats, max_steps=max_steps, batch=batch)
    bad = [p for p in progs if verdicts[p["id"]]["v"] == "bad"]
    if bad:
        outs2 = run_real(bad, tag + "_re")
        v2 = validate(bad, outs2, tag + "_re", stats, max_steps=max_steps, batch=batch)
        for p in bad:
            v = v2[p["id"]]
            if v["v"] != "bad":
                raise vlib.Infra("candidate violation did not reproduce: program %d (%s)" % (p["id"], tag))
            verd.candidate(classify(p, v, outs2[p["id"]]),
                           "program (%s) diverges from LuaSem at event %s: expected %s, real %s" % (
                               p["fam"], v.get("at"), tok_str(v.get("exp")), tok_str(v.get("got"))),
                           {"program": p, "real": outs2[p["id"]], "verdict": v})
    c, why = summarize(verdicts)
    for k in c:
        counts[k] = counts.get(k, 0) + c[k]
    for k in why:
        counts.setdefault("unmod_why", {})
        counts["unmod_why"][k] = counts["unmod_why"].get(k, 0) + why[k]
    for p in progs[:2]:
        samples.append({"family": p["fam"], "src": p["src"][:700], "trace": outs[p["id"]]["emits"][:4],
                        "outcome": outs[p["id"]]["outcome"][:2], "verdict": verdicts[p["id"]]["v"]})
    return verdicts, outs


def number(fams):
    """fams: list of (family, Prog, root, src or None) -> program records"""
    from luagen import render, finalize
    progs = []
    for i, (fam, p, root, src) in enumerate(fams):
        if src is None:
            src = render(p, root)
        finalize(p, root)
        progs.append({"id": i + 1, "fam": fam, "root": root, "nodes": p.nodes[1:], "src": src})
    return progs


def run_families(prop, tier, progs, rule, assumptions, t0, max_steps=20000, extra_cov=None, nontrivial_min_emits=2, classify=None):
    """the whole check for a LuaSem-validated corpus; returns (rc, verd, verdicts_by_id, outs_by_id)"""
    verd = vlib.Verdicts(prop)
    stats = {"states": 0, "transitions": 0}
    counts, samples = {}, []
    vlib.build_harness()
    by = {}
    for p in progs:
        by.setdefault(p["fam"], []).append(p)
    nontrivial = set()
    allv, allo = {}, {}
    for fam, ps in by.items():
        verdicts, outs = decide(prop, ps, fam, verd, stats, counts, samples, classify=classify, max_steps=max_steps)
        allv.update(verdicts)
        allo.update(outs)
        for p in ps:
            if verdicts[p["id"]]["v"] == "ok" and len(outs[p["id"]]["emits"]) >= nontrivial_min_emits:
                nontrivial.add(vlib.canon_hash(p["src"]))
        vlib.log("[%s] family %-8s: %d programs validated" % (prop, fam, len(ps)))
    total = len(progs)
    unmod = counts.get("unmod", 0)
    vlib.log("[%s] %d programs: %s" % (prop, total, json.dumps(counts)))
    if unmod > 0.05 * total:
        raise vlib.Infra("out-of-model rate %.1f%% exceeds 5%%" % (100.0 * unmod / total))
    cov = {
        "states": stats["states"], "transitions": stats["transitions"],
        "traces_validated_against_impl": total - unmod,
        "programs": total, "evaluations": total, "distinct_nontrivial": len(nontrivial),
        "rule": rule, "verdicts": counts, "samples": samples, "exhaustive": False,
    }
    if extra_cov:
        cov.update(extra_cov)
    return verd, cov, allv, allo, stats


def selftest(prop, progs, max_steps=30000):
    """binding demonstration: corrupt one field / drop / duplicate one event of recorded traces
    of validated programs; every corruption must be rejected by LuaSemTrace"""
    import copy, random
    vlib.build_harness()
    stats = {"states": 0, "transitions": 0}
    outs = run_real(progs, "st")
    verdicts = validate(progs, outs, "st", stats, max_steps=max_steps)
    good = [p for p in progs if verdicts[p["id"]]["v"] == "ok" and len(outs[p["id"]]["emits"]) >= 2][:60]
    rng = random.Random(7)
    mutants, kinds = [], {}
    for p in good:
        o = outs[p["id"]]
        for kind in ("value", "drop", "dup", "outcome"):
            m = copy.deepcopy(o)
            ev = m["emits"]
            if kind == "value":
                cands = [(i, j) for i, e in enumerate(ev) for j, t in enumerate(e) if t[0] == "n"]
                if not cands:
                    continue
                i, j = rng.choice(cands)
                ev[i][j] = ["n", ev[i][j][1] + 1]
            elif kind == "drop":
                del ev[rng.randrange(len(ev))]
            elif kind == "dup":
                i = rng.randrange(len(ev))
                ev.insert(i, copy.deepcopy(ev[i]))
            else:
                if m["outcome"][0] == "ok":
                    m["outcome"] = ["ok", m["outcome"][1] + [["n", 12345]]]
                else:
                    m["outcome"] = ["ok", []]
            q = dict(p, id=len(mutants) + 1)
            mutants.append((q, m))
            kinds[q["id"]] = kind
    v2 = validate([q for q, m in mutants], {q["id"]: m for q, m in mutants}, "stm", stats, max_steps=max_steps)
    rejected = sum(1 for q, m in mutants if v2[q["id"]]["v"] == "bad")
    accepted = [(kinds[q["id"]], q["src"][:200]) for q, m in mutants if v2[q["id"]]["v"] != "bad"]
    vlib.log("[%s selftest] %d validated programs, %d corrupted traces (value changed / event dropped / event duplicated / outcome changed): %d rejected by LuaSemTrace" % (
        prop, len(good), len(mutants), rejected))
    for k, src in accepted[:3]:
        vlib.log("  NOT rejected (%s): %s" % (k, src))
    # a duplicated event equal to its neighbour's copy can be indistinguishable only if the program emitted it twice: none expected
    return 0 if rejected == len(mutants) and mutants else 2


def foot_pass(prop, progs, verd, stats, cov, sample=None, seed=1):
    """Frames stage 2: the per-instruction register footprint of the main thread of the real VM
    (harness option foot) judged by TLC against specs/FramesStep.tla.  Programs that rewrite
    locals from outside (debug.setlocal) are skipped; faulted/cancelled runs are not used."""
    import random
    ps = [p for p in progs if "setlocal" not in p["src"] and not (p.get("opts") or {}).get("noctx") and "fault" not in p]
    if sample and len(ps) > sample:
        ps = random.Random(seed).sample(ps, sample)
    runs = [dict(p, opts=dict(p.get("opts") or {}, foot=True)) for p in ps]
    outs = run_real(runs, "foot", timeout=2400)
    recs = []
    nsteps = 0
    for p in ps:
        st = outs[p["id"]].get("steps") or []
        nsteps += len(st)
        if st:
            recs.append({"id": p["id"], "steps": st})
    byid = {p["id"]: p for p in ps}
    nver = 0
    for r in vlib.validate_batches("FramesStepTrace", "FramesStepTrace", recs, "foot", batch=400, parallel=4, timeout=1500, heap="3g"):
        stats["states"] += r.distinct
        stats["transitions"] += r.generated
        vs = r.tag("VERDICT")
        if len(vs) != r.nrecords:
            raise vlib.Infra("FramesStepTrace: %d verdicts for %d runs" % (len(vs), r.nrecords))
        for v in vs:
            nver += 1
            if not v["ok"]:
                p = byid[v["id"]]
                step = (outs[v["id"]].get("steps") or [])[v["at"] - 1]
                verd.candidate("%s:step:%s" % (prop, v["rule"]), "program (%s): instruction %s A=%d B=%d C=%d at line %d breaks '%s' (changed live locals %s, locals pushed above the top %s)" % (
                    p["fam"], step["op"], step["a"], step["b"], step["c"], step["line"], v["rule"], step["changed"], step["dropped"]),
                    {"program": p, "step": step, "foot": True})
    vlib.log("[%s] FramesStep: %d programs, %d distinct instruction steps of the real VM judged by TLC" % (prop, nver, nsteps))
    cov["frames_step"] = {"programs": nver, "distinct_steps": nsteps}
    return nver, nsteps


def replay_foot(prop, rec):
    """re-runs the footprint pass on the program of a replay file"""
    vlib.build_harness()
    verd = vlib.Verdicts(prop)
    verd.findings = []
    foot_pass(prop, [rec["replay"]["program"]], verd, {"states": 0, "transitions": 0}, {})
    return verd.finish()
