#!/bin/sh
# Offline setup: warm the Go build cache for the harness and parse every spec.
set -e
cd "$(dirname "$0")"
export GOFLAGS=-mod=mod GOPROXY=off GOSUMDB=off GOTOOLCHAIN=local
cp /repo/go.sum harness/go.sum
(cd harness && go build -tags verif -o /dev/null ./cmd/vharness)
python3 - <<'PY'
import sys, os, glob
sys.path.insert(0, "lib")
import vlib
mods = sorted(os.path.basename(p)[:-4] for p in glob.glob("specs/*.tla"))
for m in mods:
    vlib.sany(m)
print("setup: %d TLA+ modules parsed by SANY" % len(mods))
PY
