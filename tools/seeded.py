#!/usr/bin/env python3
"""Seeded changes (breaking changes written by sub-agents that saw only the property text).

  tools/seeded.py collect              copy /tmp/mut-c*/out/M* and /tmp/mut3-c*/out/M* into seeded/<ID>/
  tools/seeded.py run [-j N] [ID ...]  confirm each change in a scratch worktree of /repo HEAD (demo passes
                                       without it, repository tests pass with it, demo fails with it) and run
                                       the checks named in its meta.json against the changed tree; results are
                                       written back to seeded/<ID>/meta.json
  tools/seeded.py table                the detection matrix (markdown)

Nothing is ever applied to /repo itself: every trial happens in /tmp/seedwt-<ID>, removed afterwards."""
import glob, json, os, shutil, subprocess, sys, time
from concurrent.futures import ThreadPoolExecutor

ROOT = os.path.dirname(os.path.dirname(os.path.abspath(__file__)))
OUT = os.path.join(ROOT, "seeded")
ENV = dict(os.environ, GOFLAGS="-mod=mod", GOPROXY="off", GOSUMDB="off", GOTOOLCHAIN="local")


def sh(cmd, cwd=None, timeout=1800, env=None):
    try:
        p = subprocess.run(cmd, shell=True, cwd=cwd, capture_output=True, text=True, timeout=timeout, env=env or ENV)
        return p.returncode, p.stdout + p.stderr
    except subprocess.TimeoutExpired:
        return 124, "timeout"


def collect():
    wave3 = {"C01", "C02", "C03", "C04", "C05", "C06", "C08", "C09", "C11", "C17"}    # properties that had a third wave
    for wave, pat in ((0, "/tmp/mut-c*/out/M*"), (2, "/tmp/mut3-c*/out/M*"), (4, "/tmp/mut4-c*/out/M*"), (6, "/tmp/mut5-c*/out/M*"), (8, "/tmp/mut6-c*/out/M*"), (10, "/tmp/mut7-c*/out/M*")):
        for d in sorted(glob.glob(pat)):
            if not os.path.exists(os.path.join(d, "patch.diff")) or not os.path.exists(os.path.join(d, "meta.json")):
                continue
            prop = d.split("/")[2].split("-")[1].upper()
            m = int(os.path.basename(d)[1:]) + (wave if wave < 4 or prop in wave3 else wave - 2)
            sid = "%s-M%d" % (prop, m)
            dst = os.path.join(OUT, sid)
            os.makedirs(dst, exist_ok=True)
            meta = json.load(open(os.path.join(d, "meta.json")))
            rebased = os.path.exists(os.path.join(dst, "patch.orig.diff"))      # patch.diff was re-based by hand onto a later /repo HEAD
            for f in os.listdir(d):
                if f != "meta.json" and not (rebased and f == "patch.diff"):
                    shutil.copy(os.path.join(d, f), os.path.join(dst, f))
            old = {}
            if os.path.exists(os.path.join(dst, "meta.json")):
                old = json.load(open(os.path.join(dst, "meta.json")))
            new = {"id": sid, "property": prop, "summary": meta.get("summary"), "needs": meta.get("needs"),
                   "demo_cmd": meta.get("demo_cmd", "").split("   (")[0].replace(d, "seeded/" + sid).replace("/verif/seeded/", "seeded/"),
                   "author_verified": meta.get("verified"),
                   "checks": old.get("checks") or [prop]}
            for k in ("confirmed_by_me", "checks_run", "detected_by", "notes"):
                if k in old:
                    new[k] = old[k]
            json.dump(new, open(os.path.join(dst, "meta.json"), "w"), indent=1)
            print("collected", sid)


def trial(sid):
    d = os.path.join(OUT, sid)
    meta = json.load(open(os.path.join(d, "meta.json")))
    wt = "/tmp/seedwt-" + sid
    sh("git -C /repo worktree remove --force %s; rm -rf %s" % (wt, wt))
    rc, out = sh("git -C /repo worktree add --detach %s HEAD" % wt)
    if rc != 0:
        return sid, {"error": out[-300:]}
    head = sh("git -C /repo rev-parse --short HEAD")[1].strip()
    demo = meta["demo_cmd"].replace("seeded/" + sid, d)
    if " ; rm -f " in demo and "rc=$?" not in demo:      # "cp test . && go test ... ; rm -f test": keep the test's exit code
        head, tail = demo.rsplit(" ; rm -f ", 1)
        demo = "( %s ); rc=$?; rm -f %s; exit $rc" % (head, tail)
    res = {"repo_head": head}
    try:
        rc, out = sh(demo, cwd=wt, timeout=600)
        res["demo_exit_code_without_change"] = rc
        rc, out = sh("git apply %s" % os.path.join(d, "patch.diff"), cwd=wt)
        res["applies_to_repo_head"] = rc == 0
        if rc != 0:
            res["apply_error"] = out[-300:]
            return sid, res
        rc, out = sh("go build ./... && go test -vet=off -count=1 ./... 2>&1 | tail -5", cwd=wt, timeout=1200)
        res["repository_tests_pass_with_change"] = rc == 0 and "FAIL" not in out
        rc, out = sh(demo, cwd=wt, timeout=600)
        res["demo_exit_code_with_change"] = rc
        sh("git status --short | grep -v '^ M' | awk '{print $2}' | xargs -r rm -f", cwd=wt)   # demo leftovers
        runs = {}
        for c in meta.get("checks") or [meta["property"]]:
            t0 = time.time()
            rc, out = sh("./check %s quick" % c, cwd=ROOT, timeout=3000, env=dict(ENV, VERIF_REPO=wt, VERIF_EVIDENCE_DIR="/tmp/seedev-" + sid, VERIF_REPLAY_DIR="/tmp/seedrp-" + sid))
            keys = [l.strip()[4:200] for l in out.splitlines() if l.strip().startswith("key=")]
            runs[c] = {"exit": rc, "violation_lines": sum(1 for l in out.splitlines() if l.startswith("VIOLATION")), "first_keys": keys[:3], "seconds": round(time.time() - t0)}
            if rc not in (0, 1):
                runs[c]["tail"] = out[-400:]
        res["checks_run"] = runs
    finally:
        sh("git -C /repo worktree remove --force %s; rm -rf %s /tmp/seedev-%s /tmp/seedrp-%s" % (wt, wt, sid, sid))
    return sid, res


def run(ids, jobs):
    ids = ids or sorted(d for d in os.listdir(OUT) if os.path.isdir(os.path.join(OUT, d)))
    with ThreadPoolExecutor(jobs) as ex:
        for sid, res in ex.map(trial, ids):
            mp = os.path.join(OUT, sid, "meta.json")
            meta = json.load(open(mp))
            runs = res.pop("checks_run", {})
            meta["confirmed_by_me"] = dict(res, how="tools/seeded.py run: scratch worktree of /repo HEAD under /tmp; demo on the clean tree; git apply patch.diff; go build + go test ./...; demo again; ./check <id> quick with VERIF_REPO pointing at the worktree; worktree removed")
            meta["checks_run"] = runs
            meta["detected_by"] = sorted(c for c, v in runs.items() if v["exit"] == 1)
            json.dump(meta, open(mp, "w"), indent=1)
            print(sid, "demo %s->%s" % (res.get("demo_exit_code_without_change"), res.get("demo_exit_code_with_change")), "tests", res.get("repository_tests_pass_with_change"),
                  {c: v["exit"] for c, v in runs.items()}, flush=True)
    sh("git -C /repo worktree prune")


def retest(ids):
    """the repository's test suite alone, for trials in which it failed (it has a rare out-of-memory flake under machine
    load): scratch worktree of /repo HEAD, apply the patch, go test up to three times; only the test field is updated"""
    ids = ids or [d for d in sorted(os.listdir(OUT)) if os.path.isdir(os.path.join(OUT, d))
                  and json.load(open(os.path.join(OUT, d, "meta.json"))).get("confirmed_by_me", {}).get("repository_tests_pass_with_change") is False]
    for sid in ids:
        d = os.path.join(OUT, sid)
        wt = "/tmp/seedwt-" + sid
        sh("git -C /repo worktree remove --force %s; rm -rf %s" % (wt, wt))
        sh("git -C /repo worktree add --detach %s HEAD" % wt)
        try:
            rc, out = sh("git apply %s" % os.path.join(d, "patch.diff"), cwd=wt)
            if rc != 0:
                print(sid, "does not apply")
                continue
            ok, tails = False, []
            for _ in range(3):
                rc, out = sh("go build ./... && go test -vet=off -count=1 ./... 2>&1 | tail -5", cwd=wt, timeout=1200)
                tails.append(out[-200:])
                if rc == 0 and "FAIL" not in out:
                    ok = True
                    break
            mp = os.path.join(d, "meta.json")
            meta = json.load(open(mp))
            meta["confirmed_by_me"]["repository_tests_pass_with_change"] = ok
            meta["confirmed_by_me"]["tests_rerun"] = "go test re-run alone (%d attempt(s)) after a failure during a trial at high machine load" % len(tails)
            if not ok:
                meta["confirmed_by_me"]["test_output_tail"] = tails[-1]
            json.dump(meta, open(mp, "w"), indent=1)
            print(sid, "tests", ok, flush=True)
        finally:
            sh("git -C /repo worktree remove --force %s; rm -rf %s" % (wt, wt))
    sh("git -C /repo worktree prune")


def table():
    print("| id | change | needs | confirmed (tests pass / demo fails) | detected by |")
    print("|---|---|---|---|---|")
    for sid in sorted(d for d in os.listdir(OUT) if os.path.isdir(os.path.join(OUT, d))):
        m = json.load(open(os.path.join(OUT, sid, "meta.json")))
        c = m.get("confirmed_by_me", {})
        ok = "%s / %s" % ("yes" if c.get("repository_tests_pass_with_change") else "NO", "yes" if c.get("demo_exit_code_with_change") not in (0, None) and c.get("demo_exit_code_without_change") == 0 else "NO")
        note = (m.get("notes") or "").split(":")[0]
        det = ", ".join(m.get("detected_by") or []) or ("(superseded) " + ", ".join(m.get("detected_on_its_base") or []) if m.get("detected_on_its_base")
                                                         else "(%s, see meta.json)" % note if note in ("superseded", "not judged") else "**missed**")
        others = [k for k, v in m.get("checks_run", {}).items() if v["exit"] == 0]
        if others and m.get("detected_by"):
            det += " (not by %s)" % ", ".join(others)
        cl = lambda s: (s or "").replace("|", "/").replace("\n", " ")
        print("| %s | %s | %s | %s | %s |" % (sid, cl(m.get("summary"))[:160], cl(m.get("needs"))[:140], ok, det))


if __name__ == "__main__":
    cmd = sys.argv[1]
    if cmd == "collect":
        collect()
    elif cmd == "run":
        args = sys.argv[2:]
        jobs = 2
        if args and args[0] == "-j":
            jobs = int(args[1])
            args = args[2:]
        run(args, jobs)
    elif cmd == "retest":
        retest(sys.argv[2:])
    elif cmd == "table":
        table()
