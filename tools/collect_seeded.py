#!/usr/bin/env python3
"""Copies the confirmed seeded changes (patch, demonstration, meta) into /verif/seeded/<id>/,
adding what tools/trymut.py observed (results given as /tmp/mutres/<name>.json)."""
import glob, json, os, shutil, sys

RES = sys.argv[1] if len(sys.argv) > 1 else "/tmp/mutres"
OUT = os.path.join(os.path.dirname(os.path.dirname(os.path.abspath(__file__))), "seeded")
rows = []
for d in sorted(glob.glob("/tmp/mut-c*/out/M*")):
    prop = d.split("/")[2].replace("mut-", "").upper()
    m = os.path.basename(d)
    name = "%s-%s" % (prop.lower(), m)
    if not os.path.exists(os.path.join(d, "patch.diff")):
        continue
    meta = json.load(open(os.path.join(d, "meta.json")))
    resf = os.path.join(RES, name + ".json")
    res = json.load(open(resf)) if os.path.exists(resf) and os.path.getsize(resf) > 0 else {}
    dst = os.path.join(OUT, "%s-%s" % (prop, m))
    os.makedirs(dst, exist_ok=True)
    for f in os.listdir(d):
        if f != "meta.json":
            shutil.copy(os.path.join(d, f), os.path.join(dst, f))
    meta["property"] = prop
    meta["confirmed_by_me"] = {
        "applies_to_current_repo_head": res.get("applies"),
        "repository_tests_pass_with_change": res.get("tests_pass"),
        "demo_exit_code_without_change": res.get("demo_clean_rc"),
        "demo_exit_code_with_change": res.get("demo_mutated_rc"),
        "how": "tools/trymut.py: scratch worktree of /repo HEAD under /tmp, demo run on the clean tree, git apply patch.diff, go build + go test ./..., demo again, then ./check <id> quick with VERIF_REPO pointing at the worktree; worktree removed afterwards",
    }
    meta["checks_run"] = {c: {"exit": v["rc"], "violation_lines": v["violations"], "first_keys": v.get("first", [])} for c, v in res.get("checks", {}).items()}
    meta["detected_by"] = [c for c, v in res.get("checks", {}).items() if v["rc"] == 1]
    json.dump(meta, open(os.path.join(dst, "meta.json"), "w"), indent=1)
    rows.append((prop, m, meta.get("summary", "")[:110], ",".join(meta["detected_by"]) or "MISSED", res.get("demo_mutated_rc")))
for r in rows:
    print("| %s-%s | %s | %s |" % (r[0], r[1], r[2].replace("|", "/"), r[3]))
