#!/usr/bin/env python3
"""tools/trymut.py <dir with patch.diff, meta.json, demo> <check ids...>
Confirms a seeded change in a scratch worktree of /repo (demo fails with it, passes
without it, repository tests pass) and runs the given checks against it."""
import json, os, subprocess, sys, time

ENV = dict(os.environ, GOFLAGS="-mod=mod", GOPROXY="off", GOSUMDB="off", GOTOOLCHAIN="local")
WT = "/tmp/mutrepo"


def sh(cmd, cwd=None, timeout=1800, env=None):
    p = subprocess.run(cmd, shell=True, cwd=cwd, capture_output=True, text=True, timeout=timeout, env=env or ENV)
    return p.returncode, p.stdout + p.stderr


def main():
    d = os.path.abspath(sys.argv[1])
    checks = sys.argv[2:]
    meta = json.load(open(os.path.join(d, "meta.json")))
    sh("git -C /repo worktree remove --force %s" % WT)
    sh("rm -rf %s" % WT)
    rc, out = sh("git -C /repo worktree add --detach %s HEAD" % WT)
    assert rc == 0, out
    res = {"dir": d, "property": meta.get("property"), "summary": meta.get("summary"), "needs": meta.get("needs")}
    try:
        demo = meta["demo_cmd"].split("   (")[0]        # run verbatim from the worktree root (absolute paths stay valid)
        rc, out = sh(demo, cwd=WT, timeout=300)
        res["demo_clean_rc"] = rc
        rc, out = sh("git apply --3way %s" % os.path.join(d, "patch.diff"), cwd=WT)
        if rc != 0:
            rc, out = sh("git apply %s" % os.path.join(d, "patch.diff"), cwd=WT)
        res["applies"] = rc == 0
        if rc != 0:
            res["apply_err"] = out[-500:]
            return res
        rc, out = sh("go build ./... && go test -vet=off -count=1 ./... 2>&1 | tail -3", cwd=WT, timeout=900)
        res["tests_pass"] = rc == 0 and "FAIL" not in out
        rc, out = sh(demo, cwd=WT, timeout=300)
        res["demo_mutated_rc"] = rc
        res["checks"] = {}
        for c in checks:
            t0 = time.time()
            rc, out = sh("./check %s quick" % c, cwd="/verif", timeout=2400, env=dict(ENV, VERIF_REPO=WT))
            keys = [l.strip() for l in out.splitlines() if l.strip().startswith("key=")]
            res["checks"][c] = {"rc": rc, "violations": out.count("\nVIOLATION") + out.startswith("VIOLATION"), "first": keys[:2], "wall": round(time.time() - t0)}
            if rc == 2:
                res["checks"][c]["tail"] = out[-600:]
    finally:
        sh("git -C /repo worktree remove --force %s" % WT)
    return res


if __name__ == "__main__":
    print(json.dumps(main(), indent=1))
