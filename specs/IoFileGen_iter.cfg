SPECIFICATION Spec
CONSTANTS
  Sizes = {100, 4097}
  Lays <- MC_ModesLays
  Modes = {"r", "r+"}
  RCounts = {1}
  WCounts <- MC_None
  SOffs = {0}
  VBufs <- MC_None
  MFmts <- MC_None
  VSizes = {0}
  Extra = {"getiter", "calliter", "iterarg", "close", "readline", "seek0"}
  Naive = FALSE
  Gen = TRUE
VIEW genview
ACTION_CONSTRAINT GenPrint
CHECK_DEADLOCK FALSE
