------------------------------ MODULE ListTrace ------------------------------
(***************************************************************************)
(* Trace validation for property C18.  Each line of File is one history    *)
(* executed on the real table library: the calls, what they returned, the   *)
(* list read back with rawget 0..W, #t, getn, maxn and (q) a battery of     *)
(* concat/unpack calls.  The sequence xs of module ListLib is advanced by   *)
(* each event and everything observed must be admissible; for sort the      *)
(* post-state is bound to the observed list after SortOK.                   *)
(* Every inadmissible observation is collected in bads.  A rejected query   *)
(* does not touch the state, validation simply goes on.  After a rejected   *)
(* call validation goes on from the list the real table holds (when that is *)
(* a proper list), so one defect does not hide what follows it.             *)
(* One TLC run validates all histories; each ends in one VERDICT line.      *)
(***************************************************************************)
EXTENDS ListLib, Json

CONSTANT File
Data == ndJsonDeserialize(File)
MaxBads == 400

VARIABLES idx, pos, xs, bads, stop
vars == <<idx, pos, xs, bads, stop>>

Init ==
    /\ idx \in 1..Len(Data)
    /\ pos = 1
    /\ xs = <<>>
    /\ bads = <<>>
    /\ stop = ""

Ev == Data[idx].ev
Keys == Data[idx].keys

(* rd[1] is t[0], rd[i+1] is t[i] *)
RdList(e, n) == [i \in 1..n |-> e.rd[i + 1]]
RdBad(e, ys) == {i \in 1..Len(e.rd) : e.rd[i] # At(ys, i - 1)}
(* the list the real table holds, if it is one inside the window *)
RdLen(e) == LET P == {k \in 0..(Len(e.rd) - 1) : \A i \in 1..k : e.rd[i + 1] # Nil}
            IN CHOOSE k \in P : \A l \in P : l <= k
RdIsList(e) == LET k == RdLen(e) IN
    /\ k <= Len(e.rd) - 2
    /\ e.rd[1] = Nil
    /\ \A i \in (k + 2)..Len(e.rd) : e.rd[i] = Nil
    /\ e.len = k

QueryOK(q, ys) ==
    IF q.q = "concat"
    THEN LET r == Concat(ys, q.sep, q.i, q.j) IN q.err = r.err /\ (~r.err => q.r = <<"s", r.s>>)
    ELSE ~q.err /\ q.rs = Unpack(ys, q.i, q.j)
QueryExp(q, ys) ==
    IF q.q = "concat"
    THEN LET r == Concat(ys, q.sep, q.i, q.j) IN [q |-> "concat", err |-> r.err, at |-> r.at, s |-> r.s, n |-> Len(ys)]
    ELSE [q |-> "unpack", err |-> FALSE, at |-> 0, s |-> "", n |-> Len(ys)]

(* first inadmissible read-back of event e against the expected list ys, or <<>> *)
ObsWhy(e, ys) ==
    CASE RdBad(e, ys) # {} -> <<"rd", [n |-> Len(ys), at |-> (CHOOSE i \in RdBad(e, ys) : \A j \in RdBad(e, ys) : i <= j) - 1]>>
      [] e.len # Len(ys)   -> <<"len", [n |-> Len(ys), got |-> e.len]>>
      [] e.getn # GetN(ys) -> <<"getn", [n |-> Len(ys), got |-> e.getn]>>
      [] e.maxn # MaxN(ys) -> <<"maxn", [n |-> Len(ys), got |-> e.maxn]>>
      [] OTHER -> <<>>

(* the rejected queries of the battery of e, judged against the list zs: the  *)
(* first one of every signature (kind of call, error or not, expected error or *)
(* not, index arguments inside or outside the list, type of the result)        *)
QSig(q, zs) ==
    <<q.q, q.err, QueryExp(q, zs).err,
      q.i # Nil /\ (q.i[2] < 1 \/ q.i[2] > Len(zs)),
      q.j # Nil /\ q.j[2] > Len(zs),
      IF q.q = "concat" THEN q.r[1] ELSE "">>
RECURSIVE QBads(_, _, _, _)
QBads(e, zs, k, seen) ==
    IF k > Len(e.q) THEN <<>>
    ELSE IF QueryOK(e.q[k], zs) \/ QSig(e.q[k], zs) \in seen THEN QBads(e, zs, k + 1, seen)
    ELSE <<[pos |-> pos, why |-> "q", npre |-> Len(xs), det |-> [k |-> k, exp |-> QueryExp(e.q[k], zs)]]>>
         \o QBads(e, zs, k + 1, seen \cup {QSig(e.q[k], zs)})

Halt(why) == /\ stop' = why
             /\ UNCHANGED <<idx, pos, xs, bads>>

(* go on from the list zs (the battery is judged against it) *)
Continue(e, zs, newbads) ==
    LET all == bads \o newbads \o QBads(e, zs, 1, {}) IN
    /\ xs' = zs
    /\ pos' = pos + 1
    /\ bads' = all
    /\ stop' = IF Len(all) > MaxBads THEN "many" ELSE ""
    /\ idx' = idx

(* the call of event e is rejected: resynchronise on the real list if there is one *)
Reject(e, why, det) ==
    LET b == <<[pos |-> pos, why |-> why, npre |-> Len(xs), det |-> det]>> IN
    IF RdIsList(e) THEN Continue(e, RdList(e, RdLen(e)), b)
    ELSE /\ bads' = bads \o b
         /\ stop' = "diverged"
         /\ UNCHANGED <<idx, pos, xs>>

Accept(e, ys) ==
    LET f == ObsWhy(e, ys) IN
    IF f # <<>> THEN Reject(e, f[1], f[2]) ELSE Continue(e, ys, <<>>)

Step ==
    /\ stop = ""
    /\ pos <= Len(Ev)
    /\ LET e == Ev[pos]
           n == Len(xs)
       IN IF ~InDomain(xs, e) THEN Halt("ood")                 \* the history left the property's domain: not judged
          ELSE IF Len(e.rd) < n + 3 THEN Halt("window")       \* read-back window too small
          ELSE IF e.op = "sort"
          THEN IF ~LogFaithful(e.cmp, e.calls, Keys) THEN Halt("sortlog")   \* harness comparator # its definition
               ELSE LET ys == RdList(e, n)
                        w == SortWhy(xs, e.cmp, e.calls, e.out, ys, Keys)
                    IN IF w # "" THEN Reject(e, w, [n |-> n])
                       ELSE IF IsPerm(xs, ys) THEN Accept(e, ys)
                       \* an admissible error of a misbehaving lt promises nothing about the contents
                       ELSE IF RdIsList(e) THEN Continue(e, RdList(e, RdLen(e)), <<>>)
                       ELSE Halt("unspecified-after-sort-error")
          ELSE IF e.err THEN Reject(e, "err", [n |-> n])
          ELSE IF e.res \notin Results(xs, e) THEN Reject(e, "res", [n |-> n])
          ELSE Accept(e, Post(xs, e))

Spec == Init /\ [][Step]_vars

Terminal == stop # "" \/ pos > Len(Ev)

Verdict ==
    Terminal => PrintT("VERDICT " \o ToJson(
        [id |-> Data[idx].id, ok |-> bads = <<>> /\ stop = "", n |-> Len(Ev), done |-> pos - 1,
         stop |-> stop, bads |-> bads]))
=============================================================================
