------------------------------ MODULE ListTrace ------------------------------
(***************************************************************************)
(* Trace validation for property C18.  Each line of File is one history    *)
(* executed on the real table library: the calls, what they returned, the   *)
(* list read back with rawget 0..W, #t, getn, maxn and (q) a battery of     *)
(* concat/unpack calls.  The sequence xs of module ListLib is advanced by   *)
(* each event and everything observed must be admissible; for sort the      *)
(* post-state is bound to the observed list after SortOK.                   *)
(* Every inadmissible observation is collected in bads.  A rejected query   *)
(* does not touch the state, validation simply goes on.  After a rejected   *)
(* call validation goes on from the list the real table holds (when that is *)
(* a proper list), so one defect does not hide what follows it.             *)
(* One TLC run validates all histories; each ends in one VERDICT line.      *)
(***************************************************************************)
EXTENDS ListLib, Json

CONSTANT File
Data == ndJsonDeserialize(File)
MaxBads == 400

VARIABLES idx, pos, xs, ex, bads, stop
vars == <<idx, pos, xs, ex, bads, stop>>

Init ==
    /\ idx \in 1..Len(Data)
    /\ pos = 1
    /\ xs = <<>>
    /\ ex = {}
    /\ bads = <<>>
    /\ stop = ""

Ev == Data[idx].ev
Keys == Data[idx].keys

(* rd[i] is t[rdfrom + i - 1]; rdfrom = 0 except for long lists (window around the end) *)
RdList(e, n) == [i \in 1..n |-> e.rd[i + 1]]
RdBad(e, ys, ex2) == {i \in 1..Len(e.rd) : e.rd[i] # TAt(ys, ex2, e.rdfrom + i - 1)}
RdCovers(e, n) == e.rdfrom <= n + 1 /\ e.rdfrom + Len(e.rd) - 1 >= n + 2
(* the list the real table holds, if it is one inside the window *)
RdLen(e) == LET P == {k \in 0..(Len(e.rd) - 1) : \A i \in 1..k : e.rd[i + 1] # Nil}
            IN CHOOSE k \in P : \A l \in P : l <= k
RdIsList(e, ex2) == LET k == RdLen(e) IN
    /\ e.rdfrom = 0
    /\ HoleKeys(ex2) = {}
    /\ k <= Len(e.rd) - 2
    /\ e.rd[1] = ExGet(ex2, <<"n", 0>>)
    /\ \A i \in (k + 2)..Len(e.rd) : e.rd[i] = Nil
    /\ e.len = k

(* with a key beyond a hole #t may be any border *)
IsBorderT(ys, ex2, b) ==
    /\ b >= 0
    /\ (b = 0 \/ TAt(ys, ex2, b) # Nil)
    /\ TAt(ys, ex2, b + 1) = Nil
LenOK(ys, ex2, l) == IF HoleKeys(ex2) = {} THEN l = Len(ys) ELSE IsBorderT(ys, ex2, l)

(* queries that use the default range depend on #t: not judged while a key beyond a hole exists *)
Judged(q, ex2) == HoleKeys(ex2) = {} \/ (q.i # Nil /\ q.j # Nil)
QueryOK(q, ys, ex2) ==
    IF ~Judged(q, ex2) THEN TRUE
    ELSE IF q.q = "concat"
    THEN LET r == Concat(ys, ex2, q.sep, q.i, q.j) IN q.err = r.err /\ (~r.err => q.r = <<"s", r.s>>)
    ELSE IF q.q = "concatd"
    THEN LET r == ConcatDigest(ys, ex2, q.sepb, q.i, q.j)
         IN r.sup /\ q.err = r.err /\ (~r.err => q.len = r.d.len /\ q.h1 = r.d.h1 /\ q.h2 = r.d.h2)
    ELSE ~q.err /\ q.rs = Unpack(ys, ex2, q.i, q.j)
QueryExp(q, ys, ex2) ==
    IF q.q = "concat"
    THEN LET r == Concat(ys, ex2, q.sep, q.i, q.j) IN [q |-> "concat", err |-> r.err, at |-> r.at, s |-> r.s, n |-> Len(ys), sup |-> TRUE]
    ELSE IF q.q = "concatd"
    THEN LET r == ConcatDigest(ys, ex2, q.sepb, q.i, q.j)
         IN [q |-> "concatd", err |-> r.err, at |-> r.d.len, s |-> ToString(r.d.h1) \o ":" \o ToString(r.d.h2), n |-> Len(ys), sup |-> r.sup]
    ELSE [q |-> "unpack", err |-> FALSE, at |-> 0, s |-> "", n |-> Len(ys), sup |-> TRUE]

(* first inadmissible read-back of event e against the expected table (ys, ex2), or <<>> *)
XkExp(ys, ex2, k) == IF k[1] = "n" THEN TAt(ys, ex2, k[2]) ELSE ExGet(ex2, k)
XkBad(e, ys, ex2) == {i \in 1..Len(e.xk) : e.xk[i][2] # XkExp(ys, ex2, e.xk[i][1])}
ObsWhy(e, ys, ex2) ==
    CASE ~LenOK(ys, ex2, e.len)   -> <<"len", [n |-> Len(ys), got |-> e.len]>>
      [] ~LenOK(ys, ex2, e.getn)  -> <<"getn", [n |-> Len(ys), got |-> e.getn]>>
      [] ~RdCovers(e, Len(ys))    -> <<"window", [n |-> Len(ys)]>>
      [] RdBad(e, ys, ex2) # {}   -> <<"rd", [n |-> Len(ys), at |-> e.rdfrom + (CHOOSE i \in RdBad(e, ys, ex2) : \A j \in RdBad(e, ys, ex2) : i <= j) - 1]>>
      [] XkBad(e, ys, ex2) # {}   -> <<"xk", [n |-> Len(ys), k |-> e.xk[CHOOSE i \in XkBad(e, ys, ex2) : TRUE][1]]>>
      [] e.maxn # MaxN(ys, ex2)   -> <<"maxn", [n |-> Len(ys), got |-> e.maxn, exp |-> MaxN(ys, ex2)]>>
      [] OTHER -> <<>>

(* the rejected queries of the battery of e, judged against the table (zs, ex2): the *)
(* first one of every signature (kind of call, error or not, expected error or not,  *)
(* index arguments inside or outside the list, type of the result)                   *)
QSig(q, zs, ex2) ==
    <<q.q, q.err, QueryExp(q, zs, ex2).err,
      q.i # Nil /\ (q.i[2] < 1 \/ q.i[2] > Len(zs)),
      q.j # Nil /\ q.j[2] > Len(zs),
      IF q.q = "concat" THEN q.r[1] ELSE "">>
RECURSIVE QBads(_, _, _, _, _)
QBads(e, zs, ex2, k, seen) ==
    IF k > Len(e.q) THEN <<>>
    ELSE IF QueryOK(e.q[k], zs, ex2) \/ QSig(e.q[k], zs, ex2) \in seen THEN QBads(e, zs, ex2, k + 1, seen)
    ELSE <<[pos |-> pos, why |-> "q", npre |-> Len(xs), det |-> [k |-> k, exp |-> QueryExp(e.q[k], zs, ex2)]]>>
         \o QBads(e, zs, ex2, k + 1, seen \cup {QSig(e.q[k], zs, ex2)})

Halt(why) == /\ stop' = why
             /\ UNCHANGED <<idx, pos, xs, ex, bads>>

(* go on from the table (zs, ex2) (the battery is judged against it) *)
Continue(e, zs, ex2, newbads) ==
    LET all == bads \o newbads \o QBads(e, zs, ex2, 1, {}) IN
    /\ xs' = zs
    /\ ex' = ex2
    /\ pos' = pos + 1
    /\ bads' = all
    /\ stop' = IF Len(all) > MaxBads THEN "many" ELSE ""
    /\ idx' = idx

(* the call of event e is rejected: resynchronise on the real list if there is one *)
Reject(e, ex2, why, det) ==
    LET b == <<[pos |-> pos, why |-> why, npre |-> Len(xs), det |-> det]>> IN
    IF why # "window" /\ RdIsList(e, ex2) THEN Continue(e, RdList(e, RdLen(e)), ex2, b)
    ELSE IF why = "window" THEN Halt("window")
    ELSE /\ bads' = bads \o b
         /\ stop' = "diverged"
         /\ UNCHANGED <<idx, pos, xs, ex>>

Accept(e, ys, ex2) ==
    LET f == ObsWhy(e, ys, ex2) IN
    IF f # <<>> THEN Reject(e, ex2, f[1], f[2]) ELSE Continue(e, ys, ex2, <<>>)

(* the call has several admissible post-states (insert at pos <= 0): go on from the first one *)
(* the read-back agrees with; if none does, report against the reference's                   *)
AcceptAny(e, cs) ==
    LET fit == {i \in 1..Len(cs) : ObsWhy(e, cs[i].xs, cs[i].ex) = <<>>}
        c == IF fit = {} THEN cs[1] ELSE cs[CHOOSE i \in fit : \A j \in fit : i <= j]
    IN Accept(e, c.xs, c.ex)

Step ==
    /\ stop = ""
    /\ pos <= Len(Ev)
    /\ LET e == Ev[pos]
           n == Len(xs)
       IN IF ~InDomain(xs, ex, e) THEN Halt("ood")             \* the history left the specification's domain: not judged
          ELSE IF e.op = "sort"
          THEN IF ~LogFaithful(e.cmp, e.calls, Keys) THEN Halt("sortlog")   \* harness comparator # its definition
               ELSE IF e.rdfrom # 0 \/ Len(e.rd) < n + 3 THEN Halt("window")   \* read-back window too small
               ELSE LET ys == RdList(e, n)
                        w == SortWhy(xs, e.cmp, e.calls, e.out, ys, Keys)
                    IN IF w # "" THEN Reject(e, ex, w, [n |-> n])
                       ELSE IF IsPerm(xs, ys) THEN Accept(e, ys, ex)
                       \* an admissible error of a misbehaving lt promises nothing about the contents
                       ELSE IF RdIsList(e, ex) THEN Continue(e, RdList(e, RdLen(e)), ex, <<>>)
                       ELSE Halt("unspecified-after-sort-error")
          ELSE LET cs == Posts(xs, ex, e) IN
               IF e.err # ExpectErr(e) THEN Reject(e, cs[1].ex, IF e.err THEN "err" ELSE "noerr", [n |-> n])
               ELSE IF e.res \notin Results(xs, e) THEN Reject(e, cs[1].ex, "res", [n |-> n])
               ELSE AcceptAny(e, cs)

Spec == Init /\ [][Step]_vars

Terminal == stop # "" \/ pos > Len(Ev)

Verdict ==
    Terminal => PrintT("VERDICT " \o ToJson(
        [id |-> Data[idx].id, ok |-> bads = <<>> /\ stop = "", n |-> Len(Ev), done |-> pos - 1,
         stop |-> stop, bads |-> bads]))
=============================================================================
