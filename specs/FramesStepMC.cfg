SPECIFICATION Spec
CONSTANTS
  NReg = 5
  Ops = {"MOVE", "LOADNIL", "SELF", "CALL", "FORLOOP", "TFORLOOP", "VARARG", "SETTABLE", "TESTSET", "MOVEN", "RETURN", "JMP"}
INVARIANTS LawsHold Strict
CHECK_DEADLOCK FALSE
