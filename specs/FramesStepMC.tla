----------------------------- MODULE FramesStepMC -----------------------------
(* Sanity model of FramesStep: an abstract activation with NL live locals       *)
(* executes instructions according to the intended semantics of each opcode      *)
(* (targets only); TLC checks that every such step satisfies the laws, and that   *)
(* the laws are not vacuous: a step writing outside its targets breaks Footprint. *)
EXTENDS FramesStep, TLC

CONSTANTS NReg, Ops
VARIABLES regs, nlive, top, last

vars == <<regs, nlive, top, last>>
R == 0..(NReg - 1)
Init == regs = [r \in R |-> 0] /\ nlive \in 0..NReg /\ top = NReg /\ last = [op |-> "NOP", a |-> 0, b |-> 0, c |-> 0, extra |-> <<>>, changed |-> <<>>, dropped |-> <<>>, nlive |-> 0, toprel |-> NReg]

SetToSeq(S) == IF S = {} THEN <<>> ELSE LET RECURSIVE F(_) F(T) == IF T = {} THEN <<>> ELSE LET x == CHOOSE y \in T : \A z \in T : y <= z IN <<x>> \o F(T \ {x}) IN F(S)

(* execute op with operands a, b: writes exactly the registers W *)
Exec(op, a, b) ==
    LET e0 == [op |-> op, a |-> a, b |-> b, c |-> 0, extra |-> <<>>, changed |-> <<>>, dropped |-> <<>>, nlive |-> nlive, toprel |-> top]
        W == {r \in R : MayWrite(e0, r)}
        ch == {r \in W : r < nlive}
    IN /\ last' = [e0 EXCEPT !.changed = SetToSeq(ch)]      \* every live target is reported as changed (the worst case)
       /\ UNCHANGED <<regs, nlive, top>>

Next == \E op \in Ops, a \in R, b \in 0..NReg : Exec(op, a, b)
Spec == Init /\ [][Next]_vars

LawsHold == Broken(last) = ""
(* non-vacuity: flipping a live register that the instruction does not target is always reported *)
Strict == \A r \in R : (r < last.nlive /\ ~MayWrite(last, r) /\ ~InSeq(r, last.changed)) =>
              /\ Broken([last EXCEPT !.changed = Append(last.changed, r)]) # ""
              /\ Broken([last EXCEPT !.dropped = <<r>>]) # ""
=============================================================================
