---------------------------- MODULE RegistryImpl ----------------------------
(***************************************************************************)
(* Implementation-shaped specification of the register file of state.go    *)
(* (property C12): a Go slice arr (len = cap), top, growBy, maxSize, with   *)
(* checkSize / resize / forceResize transcribed line by line (forceResize  *)
(* copies only the live prefix arr[:top]) and every operation of the       *)
(* registry on top of them.  Slot contents: 0 = LNil, -1 = Go nil (invalid *)
(* LValue), > 0 = a written value (the tag of a write is derived from its  *)
(* position in the history, so misplaced or lost values are visible).      *)
(* The abstract list r of module Registry is carried along; TLC checks the *)
(* refinement invariants; Gen exports the state graph as histories.        *)
(***************************************************************************)
EXTENDS Integers, Sequences, FiniteSets, TLC, Json

CONSTANTS Cfgs,         \* set of <<RegistrySize, GrowStep, MaxSize>>
          MaxN,         \* bound on the count argument of CopyRange / FillNil
          MaxJunk,      \* bound on the number of unspecified slots (keeps the model finite)
          MaxHist,
          DepthInView,
          Gen

INSTANCE Registry

VARIABLES cfg, arr, top, r, hist, res
vars == <<cfg, arr, top, r, hist, res>>

GoNil == -1
LNil == 0
size == cfg[1]
growBy == cfg[2]
maxSize == cfg[3]
Lim == Limit(size, maxSize)

Init ==
    /\ cfg \in Cfgs
    /\ arr = [j \in 1..cfg[1] |-> GoNil]         \* make([]LValue, initialSize)
    /\ top = 0
    /\ r = <<>>
    /\ hist = <<>>
    /\ res = [op |-> "init", ok |-> TRUE]

St(a, t) == [arr |-> a, top |-> t, ovf |-> FALSE]
Ovf == [arr |-> arr, top |-> top, ovf |-> TRUE]    \* handler panics: nothing was touched yet

(* rg.resize(requiredSize) + rg.forceResize(newSize) *)
Resize(st, req) ==
    LET ns0 == req + growBy
        ns == IF ns0 > maxSize THEN maxSize ELSE ns0
    IN IF ns < req THEN [st EXCEPT !.ovf = TRUE]
       ELSE [st EXCEPT !.arr = [j \in 1..ns |-> IF j <= st.top THEN st.arr[j] ELSE GoNil]]
(* rg.checkSize(requiredSize) *)
CheckSize(st, req) == IF req > Len(st.arr) THEN Resize(st, req) ELSE st

(* the trailing "if rg.top < oldtop { nil the range }" *)
NilRange(a, lo, hi) == [j \in 1..Len(a) |-> IF j - 1 >= lo /\ j - 1 < hi THEN GoNil ELSE a[j]]

ISetTop(st0, n) ==
    LET st == CheckSize(st0, n) IN
    IF st.ovf THEN st
    ELSE LET a1 == [j \in 1..Len(st.arr) |-> IF j - 1 >= st.top /\ j - 1 < n THEN LNil ELSE st.arr[j]]
         IN St(IF n < st.top THEN NilRange(a1, n, st.top) ELSE a1, n)

IPush(st0, v) ==
    LET st == CheckSize(st0, st0.top + 1) IN
    IF st.ovf THEN st ELSE St([st.arr EXCEPT ![st.top + 1] = v], st.top + 1)

IPop(st) == St([st.arr EXCEPT ![st.top] = LNil], st.top - 1)
IPopResult(st) == st.arr[st.top]

ISet(st0, i, v) ==
    LET st == CheckSize(st0, i + 1) IN
    IF st.ovf THEN st
    ELSE St([st.arr EXCEPT ![i + 1] = v], IF i >= st.top THEN i + 1 ELSE st.top)

(* the copy loop of CopyRange, in program order (a forward, in-place copy) *)
RECURSIVE CopyLoop(_, _, _, _, _, _)
CopyLoop(a, regv, start, lim, i, n) ==
    IF i >= n THEN a
    ELSE LET src == start + i
             val == IF src >= lim \/ src < 0 THEN LNil ELSE a[src + 1]
         IN CopyLoop([a EXCEPT ![regv + i + 1] = val], regv, start, lim, i + 1, n)

ICopyRange(st0, regv, start, limit0, n) ==
    LET st == CheckSize(st0, regv + n) IN
    IF st.ovf THEN st
    ELSE LET lim == IF limit0 = -1 \/ limit0 > st.top THEN st.top ELSE limit0
             a1 == CopyLoop(st.arr, regv, start, lim, 0, n)
             nt == regv + n
         IN St(IF nt < st.top THEN NilRange(a1, nt, st.top) ELSE a1, nt)

IFillNil(st0, regm, n) ==
    LET st == CheckSize(st0, regm + n) IN
    IF st.ovf THEN st
    ELSE LET a1 == [j \in 1..Len(st.arr) |-> IF j - 1 >= regm /\ j - 1 < regm + n THEN LNil ELSE st.arr[j]]
             nt == regm + n
         IN St(IF nt < st.top THEN NilRange(a1, nt, st.top) ELSE a1, nt)

(* the shifting loop of Insert: for ; t >= reg; t-- { Set(t+1, Get(t)) } *)
RECURSIVE ShiftLoop(_, _, _)
ShiftLoop(st, t, reg) ==
    IF st.ovf \/ t < reg THEN st
    ELSE ShiftLoop(ISet(st, t + 1, st.arr[t + 1]), t - 1, reg)

IInsert(st0, v, reg) ==
    IF reg >= st0.top THEN ISet(st0, reg, v)
    ELSE LET st == ShiftLoop(st0, st0.top - 1, reg)
         IN IF st.ovf THEN st ELSE ISet(st, reg, v)

Cur == St(arr, top)

IApply(o) ==
    CASE o.op = "push" -> IPush(Cur, o.v)
      [] o.op = "pop" -> IPop(Cur)
      [] o.op = "set" -> ISet(Cur, o.i, o.v)
      [] o.op = "settop" -> ISetTop(Cur, o.n)
      [] o.op = "copyrange" -> ICopyRange(Cur, o.regv, o.start, o.limit, o.n)
      [] o.op = "fillnil" -> IFillNil(Cur, o.regm, o.n)
      [] o.op = "insert" -> IInsert(Cur, o.v, o.reg)

(* ---- actions --------------------------------------------------------------- *)
Tag == Len(hist) + 1
Hi == Lim + 1                                   \* indices explored reach one past the limit
Min(a, b) == IF a < b THEN a ELSE b

JunkCount(s) == Cardinality({j \in 1..Len(s) : s[j] = Junk})

Do(o) ==
    /\ Pre(r, o)
    /\ (o.op = "copyrange" => o.limit >= -1)
    /\ Required(r, o) <= Lim + 2
    /\ Len(hist) < MaxHist
    /\ LET st == IApply(o) IN
       /\ arr' = st.arr
       /\ top' = st.top
       /\ r' = IF st.ovf THEN r ELSE Apply(r, o)
       /\ JunkCount(r') <= MaxJunk
       /\ res' = [op |-> o.op,
                  ok |-> /\ st.ovf = MustOverflow(r, o, Lim)
                         /\ (o.op = "pop" => Match(PopResult(r), IPopResult(Cur)))]
    /\ hist' = Append(hist, o)
    /\ cfg' = cfg

Next ==
    \/ Do([op |-> "push", v |-> Tag])
    \/ Do([op |-> "pop"])
    \/ \E i \in 0..Min(top + 1, Hi) : Do([op |-> "set", i |-> i, v |-> Tag])
    \/ \E n \in 0..Hi : Do([op |-> "settop", n |-> n])
    \/ \E rv \in 0..top, s \in (-1)..top, l \in {-1, top - 1, top, top + 1}, n \in 0..MaxN :
          Do([op |-> "copyrange", regv |-> rv, start |-> s, limit |-> l, n |-> n])
    \/ \E m \in 0..Min(top + 1, Hi), n \in 0..MaxN : Do([op |-> "fillnil", regm |-> m, n |-> n])
    \/ \E g \in 0..Min(top + 1, Hi) : Do([op |-> "insert", v |-> Tag, reg |-> g])
Spec == Init /\ [][Next]_vars

(* ---- refinement invariants (the design check) --------------------------------- *)
Refines ==
    /\ top = Len(r)
    /\ \A j \in 1..top : Match(r[j], arr[j])       \* live values preserved by every resize / move
AnswersOK == res.ok                                 \* overflow exactly above the limit, Pop results
TopWithinCap == top <= Len(arr)                     \* top never exceeds capacity
CapWithinLimit == Len(arr) <= Lim                   \* growth never exceeds max(size, maxSize)
AboveTopNil == \A j \in (top + 1)..Len(arr) : arr[j] \in {GoNil, LNil}
FullOK == IsFullOK(r, size, Lim, top >= Len(arr))   \* rg.IsFull()

view == <<cfg, top, Len(arr), {j \in 1..Len(r) : r[j] = Junk}, res.ok>>
genview == <<view, IF DepthInView THEN Len(hist) ELSE 0>>
GenPrint == Gen => PrintT("GEN " \o ToJson([cfg |-> cfg, h |-> hist']))
=============================================================================
