--------------------------- MODULE ApiStackTrace ---------------------------
(***************************************************************************)
(* Trace validation for property C10, part 1.  Each line of File is one    *)
(* operation history executed on a real LState inside nested host          *)
(* functions: after every operation the driver re-read the current list    *)
(* with Get(1..GetTop()) and Get(-GetTop()..-1), probed the indices just   *)
(* outside the list, and logged what the operation returned; after a       *)
(* return / failed call it re-read the CALLER's list.  The abstract lists  *)
(* of module ApiStack are advanced by each event; every observation must   *)
(* be admissible.  One VERDICT line per history.                           *)
(***************************************************************************)
EXTENDS Integers, Sequences, FiniteSets, TLC, Json

CONSTANT File
Data == ndJsonDeserialize(File)

A == INSTANCE ApiStack
Nil == A!Nil

VARIABLES idx, pos, stk, bad, cl
vars == <<idx, pos, stk, bad, cl>>
(* cl: positions of the operations of the clamped class so far (their own list
   was bound to the observation; a later discrepancy in a caller's list is then
   attributed to them: frame privacy) *)
(* stk: sequence of activations [l: list, nret, prot] *)

Ev == Data[idx].ev
Depth == Len(stk)
L == stk[Depth].l

Init ==
    /\ idx \in 1..Len(Data)
    /\ pos = 1
    /\ stk = <<[l |-> Data[idx].init, nret |-> 0, prot |-> FALSE]>>
    /\ bad = <<>>
    /\ cl = <<>>

SameList(a, b) == Len(a) = Len(b) /\ \A i \in 1..Len(a) : a[i] = b[i]
IsValue(v) == v[1] # "gonil"

(* what the driver saw after the event, against the abstract list l *)
ObsFail(e, l) ==
    IF ~SameList(e.list, l) THEN "list"
    ELSE IF e.top # Len(l) THEN "gettop"
    ELSE IF "nlist" \in DOMAIN e /\ ~SameList(e.nlist, l) THEN "negative-read"   \* logged only when # list
    ELSE IF "probe" \in DOMAIN e /\ \E i \in 1..Len(e.probe) : e.probe[i] # Nil THEN "outside-read"
    ELSE ""

ProtIdx == {i \in 2..Depth : stk[i].prot}
NearestProt == CHOOSE i \in ProtIdx : \A j \in ProtIdx : j <= i

(* outcome of event e: [k: "ok", s: new stk] | [k: "bad", why] | [k: "undef", why]
   "any": clamped class - the list is bound to the observed one *)
WithL(l) == [stk EXCEPT ![Depth].l = l]
Ok(s) == [k |-> "ok", s |-> s, why |-> "", cl |-> FALSE]
Bad(w) == [k |-> "bad", s |-> stk, why |-> w, cl |-> FALSE]
Undef(w) == [k |-> "undef", s |-> stk, why |-> w, cl |-> FALSE]
Bound(e) == IF \A i \in 1..Len(e.list) : IsValue(e.list[i]) THEN [Ok(WithL(e.list)) EXCEPT !.cl = TRUE] ELSE Bad("hole")

Unwind(e) ==       \* an error leaves through the nearest protected call
    IF ProtIdx = {} THEN Undef("error without a protected call")
    ELSE IF ~e.err THEN Bad("error-lost")
    ELSE Ok(SubSeq(stk, 1, NearestProt - 1))

Outcome(e) ==
    CASE e.op = "enter" -> Ok(stk)
      [] e.op = "push" -> Ok(WithL(A!Push(L, e.v)))
      [] e.op = "pop" -> (IF A!PopDefined(L, e.n) THEN Ok(WithL(A!Pop(L, e.n))) ELSE Undef("pop"))
      [] e.op = "get" -> (IF e.rv = A!Get(L, e.i) THEN Ok(stk) ELSE Bad("read"))
      [] e.op = "gettop" -> (IF e.rv = <<"n", A!GetTop(L)>> THEN Ok(stk) ELSE Bad("read"))
      [] e.op = "settop" -> (IF A!SetTopExact(L, e.i) THEN Ok(WithL(A!SetTop(L, e.i))) ELSE Bound(e))
      [] e.op = "insert" ->
           (IF A!InsertExcluded(L, e.i) THEN Bound(e)      \* beyond top+1: any hole-free list
            ELSE IF A!InsertExact(L, e.i)
                 THEN (LET c == {x \in A!InsertResults(L, e.v, e.i) : SameList(x, e.list)} IN
                       IF c = {} THEN Bad("list") ELSE Ok(WithL(CHOOSE x \in c : TRUE)))
            ELSE Bound(e))
      [] e.op = "remove" -> Ok(WithL(A!Remove(L, e.i)))
      [] e.op = "replace" -> Ok(WithL(A!Replace(L, e.i, e.v)))
      [] e.op = "call" ->      \* a host callee starts with exactly its arguments (a callable
                               \* table's __call handler: the table, then the arguments)
           Ok(Append(stk, [l |-> (IF "self" \in DOMAIN e THEN <<<<"o", "table">>>> ELSE <<>>) \o e.args,
                           nret |-> e.nret, prot |-> e.prot]))
      [] e.op = "ret" ->
           (IF Depth < 2 \/ ~A!ReturnDefined(L, e.r) THEN Undef("ret")
            ELSE IF e.err THEN Bad("spurious-error")
            ELSE Ok([SubSeq(stk, 1, Depth - 1) EXCEPT
                       ![Depth - 1].l = @ \o A!Adjust(A!Selected(L, e.r), stk[Depth].nret)]))
      [] e.op = "fail" -> Unwind(e)
      [] e.op = "callL" ->     \* a Lua callee returning the first p of its arguments, or failing
           (IF e.fail
            THEN (IF e.prot THEN (IF e.err THEN Ok(stk) ELSE Bad("error-lost")) ELSE Unwind(e))
            ELSE IF e.err THEN Bad("spurious-error")
            ELSE Ok(WithL(L \o A!Adjust(A!FirstP(e.args, e.p), e.nret))))
      [] OTHER -> Undef("unknown op")

Step ==
    /\ bad = <<>>
    /\ pos <= Len(Ev)
    /\ LET e == Ev[pos]  o == Outcome(e) IN
       /\ idx' = idx
       /\ IF o.k # "ok"
          THEN /\ bad' = <<pos, o.k, o.why>> /\ UNCHANGED <<stk, pos, cl>>
          ELSE LET f0 == ObsFail(e, o.s[Len(o.s)].l)
                   (* after a return / failure the list re-read belongs to a caller: was the part
                      it held before the call disturbed (frame privacy), or only the results? *)
                   old == stk[Len(o.s)].l
                   broken == e.op \in {"ret", "fail", "callL"} /\
                             ~(Len(e.list) >= Len(old) /\ \A i \in 1..Len(old) : e.list[i] = old[i])
                   f == IF f0 = "list" /\ broken THEN "caller-list" ELSE f0
               IN
               IF f # ""
               THEN /\ bad' = <<pos, "bad", f>> /\ UNCHANGED <<stk, pos, cl>>
               ELSE /\ stk' = o.s /\ pos' = pos + 1 /\ bad' = <<>> /\ cl' = IF o.cl THEN Append(cl, pos) ELSE cl

Spec == Init /\ [][Step]_vars

(* after the last event: what the outside saw when the root returned everything *)
Fin == Data[idx].fin
FinFail ==
    IF "crash" \in DOMAIN Fin THEN "crash"         \* the real code panicked / an error escaped the root
    ELSE IF Depth # 1 THEN "open activations at the end"
    ELSE IF ~SameList(Fin.res, L) THEN "root-results"
    ELSE IF ~Fin.locals THEN "lua-caller-locals"
    ELSE IF ~Fin.below THEN "registers-below-root"
    ELSE ""

Terminal == bad # <<>> \/ pos > Len(Ev)

Verdict ==
    Terminal => PrintT("VERDICT " \o ToJson(
        IF bad # <<>> THEN [id |-> Data[idx].id, v |-> bad[2], at |-> bad[1], why |-> bad[3], n |-> Len(Ev), cl |-> cl]
        ELSE IF FinFail # "" THEN [id |-> Data[idx].id, v |-> "bad", at |-> 0, why |-> FinFail, n |-> Len(Ev), cl |-> cl]
        ELSE [id |-> Data[idx].id, v |-> "ok", at |-> 0, why |-> "", n |-> Len(Ev), cl |-> cl]))
=============================================================================
