------------------------------- MODULE ListLib -------------------------------
(***************************************************************************)
(* Abstract specification of the Lua 5.1 table library on lists            *)
(* (property C18).  A list is a sequence xs of non-nil values: the table t *)
(* with t[i] = xs[i] for 1 <= i <= n = Len(xs) and nil elsewhere.          *)
(*                                                                         *)
(* Values are tagged tuples  <<"n",i>>  <<"s",x>>  <<"b",TRUE>>  <<"t",id>>*)
(* <<"nil">>.  An operation is a record with field op:                     *)
(*   ins_end(v)   table.insert(t, v)          ins(pos,v) table.insert(t,pos,v)*)
(*   rem_end      table.remove(t)             rem(pos)   table.remove(t,pos) *)
(*   set(i,v)     t[i] = v   (1<=i<=n, v~=nil | i=n, v=nil | i=n+1)          *)
(*   sort(cmp)    table.sort(t [,lt])                                        *)
(* Queries: concat(sep,i,j), unpack(i,j), maxn, getn.  Optional arguments   *)
(* are value tokens, <<"nil">> = absent.                                    *)
(* Unspecified choices are explicit: table.remove on an empty list may      *)
(* return nothing or nil; the result of sort is ANY admissible permutation. *)
(***************************************************************************)
EXTENDS Integers, Sequences, FiniteSets, TLC

Nil == <<"nil">>
IsNum(v) == v[1] = "n"
IsStr(v) == v[1] = "s"
IsObj(v) == v[1] = "t"

At(xs, i) == IF i >= 1 /\ i <= Len(xs) THEN xs[i] ELSE Nil
Elems(xs) == {xs[i] : i \in 1..Len(xs)}
IsList(xs) == \A i \in 1..Len(xs) : xs[i] # Nil

InsertAt(xs, pos, v) == SubSeq(xs, 1, pos - 1) \o <<v>> \o SubSeq(xs, pos, Len(xs))
RemoveAt(xs, pos) == SubSeq(xs, 1, pos - 1) \o SubSeq(xs, pos + 1, Len(xs))

(* ---- the domain of the property: calls that keep t a list -------------- *)
InDomain(xs, o) ==
    LET n == Len(xs) IN
    CASE o.op = "ins_end" -> TRUE
      [] o.op = "ins"     -> o.pos >= 1 /\ o.pos <= n + 1 /\ (o.v = Nil => o.pos = n + 1)
      [] o.op = "rem_end" -> TRUE
      [] o.op = "rem"     -> o.pos >= 1 /\ o.pos <= n
      [] o.op = "set"     -> \/ (o.i >= 1 /\ o.i <= n /\ o.v # Nil)
                             \/ (o.i = n /\ n >= 1 /\ o.v = Nil)
                             \/ o.i = n + 1
      [] o.op = "sort"    -> TRUE
      [] OTHER            -> FALSE

(* ---- effect ------------------------------------------------------------- *)
Post(xs, o) ==
    LET n == Len(xs) IN
    CASE o.op = "ins_end" -> (IF o.v = Nil THEN xs ELSE Append(xs, o.v))
      [] o.op = "ins"     -> (IF o.v = Nil THEN xs ELSE InsertAt(xs, o.pos, o.v))
      [] o.op = "rem_end" -> (IF n = 0 THEN xs ELSE SubSeq(xs, 1, n - 1))
      [] o.op = "rem"     -> RemoveAt(xs, o.pos)
      [] o.op = "set"     -> (IF o.i = n + 1 THEN (IF o.v = Nil THEN xs ELSE Append(xs, o.v))
                              ELSE IF o.v = Nil THEN SubSeq(xs, 1, n - 1)
                              ELSE [xs EXCEPT ![o.i] = o.v])

(* ---- results: the set of admissible result tuples ------------------------ *)
Results(xs, o) ==
    CASE o.op = "rem_end" -> (IF Len(xs) = 0 THEN {<<>>, <<Nil>>} ELSE {<<xs[Len(xs)]>>})
      [] o.op = "rem"     -> {<<xs[o.pos]>>}
      [] OTHER            -> {<<>>}

(* ---- queries -------------------------------------------------------------- *)
Opt(a, d) == IF a = Nil THEN d ELSE a[2]
Concatable(v) == IsNum(v) \/ IsStr(v)
Str(v) == IF IsNum(v) THEN ToString(v[2]) ELSE v[2]

(* table[i]..sep..table[i+1] ... sep..table[j]; "" when i > j; an element   *)
(* that is neither string nor number (incl. nil outside the list) is an     *)
(* error naming the first such index.                                       *)
RECURSIVE ConcatRange(_, _, _, _)
ConcatRange(xs, sep, i, j) ==
    IF i > j THEN [err |-> FALSE, s |-> "", at |-> 0]
    ELSE LET v == At(xs, i) IN
         IF ~Concatable(v) THEN [err |-> TRUE, s |-> "", at |-> i]
         ELSE IF i = j THEN [err |-> FALSE, s |-> Str(v), at |-> 0]
         ELSE LET r == ConcatRange(xs, sep, i + 1, j) IN
              IF r.err THEN r ELSE [err |-> FALSE, s |-> Str(v) \o sep \o r.s, at |-> 0]

Concat(xs, sep, i, j) == ConcatRange(xs, Opt(sep, ""), Opt(i, 1), Opt(j, Len(xs)))

(* list[i], list[i+1], ..., list[j] *)
Unpack(xs, i, j) ==
    LET a == Opt(i, 1)
        b == Opt(j, Len(xs))
    IN IF a > b THEN <<>> ELSE [k \in 1..(b - a + 1) |-> At(xs, a + k - 1)]

MaxN(xs) == Len(xs)
GetN(xs) == Len(xs)

(***************************************************************************)
(* Sort.  A comparator is a record [kind, j]; keys maps object ids to the  *)
(* number the by-key comparators look at.  Base(c,a,b) is what the          *)
(* comparator answers for the pair: "T", "F" or "E" (raises an error).      *)
(*   lt    no comparator (the < operator)      ltf   function(a,b) return a<b end  *)
(*   gt    function(a,b) return a>b end        lt0   returns 0 / nil instead of true / false *)
(*   bykey function(a,b) return a.k<b.k end    mt    no comparator, elements share __lt on .k *)
(*   true / false / none  constant true, constant false, returns nothing   *)
(*   alt   alternates true,false,... by call number (no base relation)      *)
(*   errat like ltf but the j-th call raises an error                       *)
(***************************************************************************)
TF(b) == IF b THEN "T" ELSE "F"
StrRank(s) == CASE s = "a" -> 1 [] s = "b" -> 2 [] s = "c" -> 3 [] s = "d" -> 4 [] s = "e" -> 5

LuaLt(a, b, keys, mt) ==
    IF IsNum(a) /\ IsNum(b) THEN TF(a[2] < b[2])
    ELSE IF IsStr(a) /\ IsStr(b) THEN TF(StrRank(a[2]) < StrRank(b[2]))
    ELSE IF mt /\ IsObj(a) /\ IsObj(b) THEN TF(keys[a[2]] < keys[b[2]])
    ELSE "E"

HasBase(c) == c.kind # "alt"

Base(c, a, b, keys) ==
    CASE c.kind \in {"lt", "ltf", "lt0", "errat"} -> LuaLt(a, b, keys, FALSE)
      [] c.kind = "gt"    -> LuaLt(b, a, keys, FALSE)
      [] c.kind = "mt"    -> LuaLt(a, b, keys, TRUE)
      [] c.kind = "bykey" -> (IF IsObj(a) /\ IsObj(b) THEN TF(keys[a[2]] < keys[b[2]]) ELSE "E")
      [] c.kind = "true"  -> "T"
      [] c.kind \in {"false", "none"} -> "F"

(* the answer of the k-th call *)
CallRes(c, k, a, b, keys) ==
    CASE c.kind = "alt"   -> TF(k % 2 = 1)
      [] c.kind = "errat" -> (IF k = c.j THEN "E" ELSE Base(c, a, b, keys))
      [] OTHER            -> Base(c, a, b, keys)

(* the base relation is a strict weak order on the element set E *)
IsSWO(c, E, keys) ==
    /\ HasBase(c)
    /\ \A a, b \in E : Base(c, a, b, keys) # "E"
    /\ LET lt(a, b) == Base(c, a, b, keys) = "T"
           inc(a, b) == ~lt(a, b) /\ ~lt(b, a)
       IN /\ \A a \in E : ~lt(a, a)
          /\ \A a, b, d \in E : lt(a, b) /\ lt(b, d) => lt(a, d)
          /\ \A a, b, d \in E : inc(a, b) /\ inc(b, d) => inc(a, d)

Count(xs, v) == Cardinality({i \in 1..Len(xs) : xs[i] = v})
IsPerm(xs, ys) ==
    /\ Len(xs) = Len(ys)
    /\ \A v \in Elems(xs) \cup Elems(ys) : Count(xs, v) = Count(ys, v)

Ordered(ys, c, keys) ==
    \A i, j \in 1..Len(ys) : i < j => Base(c, ys[j], ys[i], keys) # "T"

(* calls: sequence of <<a, b, r>> (the comparator calls that were logged)   *)
CallsFromList(xs, calls) == \A k \in 1..Len(calls) : calls[k][1] \in Elems(xs) /\ calls[k][2] \in Elems(xs)
(* every logged answer is the one the comparator's definition gives          *)
LogFaithful(c, calls, keys) ==
    \A k \in 1..Len(calls) : calls[k][3] = CallRes(c, k, calls[k][1], calls[k][2], keys)
(* nothing failed and nothing deviated from the base relation                *)
CallsConsistent(c, calls, keys) ==
    HasBase(c) /\ \A k \in 1..Len(calls) : calls[k][3] = Base(c, calls[k][1], calls[k][2], keys)

(* lt behaved as a strict weak order during this run *)
WellBehaved(xs, c, calls, keys) == IsSWO(c, Elems(xs), keys) /\ CallsConsistent(c, calls, keys)

(* first reason why the observed sort run is not admissible, or "".  The      *)
(* property: lt is called only with elements of t; a run that returns leaves a *)
(* permutation; if lt behaved as a strict weak order the run returns and the   *)
(* permutation is ordered; otherwise it may also end in a Lua error (nothing   *)
(* is said about the contents then).                                           *)
SortWhy(xs, c, calls, out, ys, keys) ==
    CASE out \notin {"ok", "error"}      -> "sort:outcome"    \* crash, hang
      [] ~CallsFromList(xs, calls)       -> "sort:args"       \* lt called with a non-element
      [] out = "ok" /\ ~IsPerm(xs, ys)   -> "sort:perm"       \* not a permutation of the elements
      [] WellBehaved(xs, c, calls, keys) /\ out # "ok"    -> "sort:error"
      [] WellBehaved(xs, c, calls, keys) /\ ~Ordered(ys, c, keys) -> "sort:order"
      [] OTHER -> ""

SortOK(xs, c, calls, out, ys, keys) == SortWhy(xs, c, calls, out, ys, keys) = ""
=============================================================================
